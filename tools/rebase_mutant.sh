#!/bin/sh
# tools/rebase_mutant.sh mutants/<name>.diff <python-edit-script>: like rebase_seed.sh for an own patch (no demo): the hunks that
# still apply are applied, the edit script does the rest inside the scratch copy, the new diff replaces the file.
P="/verif/$1"; ED="$2"
D="$(mktemp -d /tmp/hgrb.XXXXXX)"; C="$(mktemp -d /tmp/hgrbc.XXXXXX)"
rsync -a --exclude .git --exclude __pycache__ --exclude .pytest_cache /repo/ "$D/"; rsync -a --exclude .git --exclude __pycache__ --exclude .pytest_cache /repo/ "$C/"
( cd "$D" && patch -p1 --force -s < "$P" >/dev/null 2>&1; find . -name '*.rej' -delete; find . -name '*.orig' -delete )
( cd "$D" && /venv/bin/python "$ED" ) || { echo "edit failed"; rm -rf "$D" "$C"; exit 1; }
( cd "$D" && PYTHONPATH="$D/src" /venv/bin/python -c "import hypergraph" ) || { echo "does not import"; rm -rf "$D" "$C"; exit 1; }
( cd /tmp && diff -ruN -x __pycache__ "$(basename $C)/src" "$(basename $D)/src" | sed "s#^--- $(basename $C)/#--- a/#; s#^+++ $(basename $D)/#+++ b/#; s#^diff -ruN .*##" | grep -v '^$' ) > "$P"
echo "$1: $(grep -c '^@@' $P) hunks"
if [ -n "$SUITE" ]; then ( cd "$D" && PYTHONPATH="$D/src" /venv/bin/python -m pytest -p no:cacheprovider --timeout=900 -q -n 8 --junitxml="$D/j.xml" >/dev/null 2>&1; /venv/bin/python -c "
import sys, xml.etree.ElementTree as ET
for ts in ET.parse(sys.argv[1]).getroot().iter('testsuite'):
    a=ts.attrib; t=int(a['tests']); f=int(a['failures']); e=int(a['errors']); s=int(a['skipped']); print('suite: passed=%d failed=%d errors=%d' % (t-f-e-s, f, e))
" "$D/j.xml" ); fi
rm -rf "$D" "$C"
