#!/venv/bin/python
"""Turn the verification record of freshly imported seeds into meta.json (see seed_import.sh)."""
import glob, json, os
for d in sorted(glob.glob('/verif/seeded/*')):
    a = os.path.join(d, 'meta.agent.json'); v = os.path.join(d, 'verified.json')
    if not os.path.exists(v):
        continue
    agent = json.load(open(a)) if os.path.exists(a) else {}
    ver = json.load(open(v))
    name = os.path.basename(d)
    meta = {"property": name.split('-')[0], "variant": name.split('-', 1)[1], "breaks": agent.get("summary", ""), "needs_to_manifest": agent.get("needs_to_manifest", ""), "files": agent.get("files", []),
            "what_i_ran": "tools/seed_import.sh: rsync copy of /repo under /tmp, demo.py on the clean copy (exit %s), patch -p1 < patch.diff, demo.py again (exit %s), the repository's whole pytest suite with the patch (%s); copy removed afterwards" % (ver["demo_exit_clean"], ver["demo_exit_patched"], ver["suite_with_patch"]),
            "source": "independent sub-agent given only the property text and its own scratch worktree"}
    json.dump(meta, open(os.path.join(d, 'meta.json'), 'w'), indent=1)
    os.remove(v)
    if os.path.exists(a):
        os.remove(a)
    print(name, ver)
