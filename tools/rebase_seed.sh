#!/bin/sh
# tools/rebase_seed.sh <seed-dir-name> <python-edit-script>: scratch copy of /repo, apply the hunks of the seed's patch that
# still apply (patch -p1 --force, rejects ignored), run the edit script inside the copy for the hunks that do not,
# write the new diff to seeded/<name>/patch.diff (the original is kept as patch.orig.diff), verify demo clean/patched.
N="$1"; ED="$2"; S="/verif/seeded/$N"
D="$(mktemp -d /tmp/hgrb.XXXXXX)"; C="$(mktemp -d /tmp/hgrbc.XXXXXX)"
rsync -a --exclude .git --exclude __pycache__ --exclude .pytest_cache /repo/ "$D/"; rsync -a --exclude .git --exclude __pycache__ --exclude .pytest_cache /repo/ "$C/"
[ -f "$S/patch.orig.diff" ] || cp "$S/patch.diff" "$S/patch.orig.diff"
( cd "$D" && patch -p1 --force -s < "$S/patch.orig.diff" >/dev/null 2>&1; find . -name '*.rej' -delete; find . -name '*.orig' -delete )
( cd "$D" && /venv/bin/python "$ED" ) || { echo "edit failed"; rm -rf "$D" "$C"; exit 1; }
( cd /tmp && diff -ruN -x __pycache__ "$(basename $C)/src" "$(basename $D)/src" | sed "s#^--- $(basename $C)/#--- a/#; s#^+++ $(basename $D)/#+++ b/#; s#^diff -ruN .*##" | grep -v '^$' ) > "$S/patch.diff"
( cd "$C" && PYTHONPATH="$C/src" /venv/bin/python "$S/demo.py" >/dev/null 2>&1 ); A=$?
( cd "$D" && PYTHONPATH="$D/src" /venv/bin/python "$S/demo.py" >/dev/null 2>&1 ); B=$?
echo "$N: demo clean=$A patched=$B; new patch $(grep -c '^@@' $S/patch.diff) hunks"
if [ -n "$SUITE" ]; then ( cd "$D" && PYTHONPATH="$D/src" /venv/bin/python -m pytest -p no:cacheprovider --timeout=900 -q -n 8 --junitxml="$D/j.xml" >/dev/null 2>&1; /venv/bin/python -c "
import sys, xml.etree.ElementTree as ET
for ts in ET.parse(sys.argv[1]).getroot().iter('testsuite'):
    a=ts.attrib; t=int(a['tests']); f=int(a['failures']); e=int(a['errors']); s=int(a['skipped']); print('suite with the rebased patch: passed=%d failed=%d errors=%d' % (t-f-e-s, f, e))
" "$D/j.xml" ); fi
rm -rf "$D" "$C"
