#!/bin/sh
# tools/seed_round.sh <ID> <dir> <tag>: import the two seeds of one agent (seed_import.sh) and run the property's quick check
# against each on seeds 0,1,2 (matrix.py); log in .work/import-<ID>.log
ID="$1"; SRC="${2:-/tmp/wt5}"; TAG="${3:-r5}"
cd "$(dirname "$0")/.." || exit 2
sh tools/seed_import.sh "$ID" "$SRC" "$TAG" > ".work/import-$ID.log" 2>&1
/venv/bin/python tools/matrix.py --seeds 0,1,2 --only "$ID-$TAG" >> ".work/import-$ID.log" 2>&1
tail -4 ".work/import-$ID.log"
