#!/bin/sh
# tools/seed_import.sh C03  -- import /tmp/wt/C03/_seed/{a,b} into /verif/seeded/C03-{a,b} and verify them myself:
# demo exit 0 on clean copy, exit 1 with the patch, suite green with the patch.
ID="$1"; SRC="${2:-/tmp/wt}"; TAG="${3:-}"
for V in ${VARIANTS:-a b}; do
  S="$SRC/$ID/_seed/$V"; [ -f "$S/patch.diff" ] || { echo "$ID-$V: no patch"; continue; }
  T="/verif/seeded/$ID-$TAG$V"; mkdir -p "$T"; cp "$S/patch.diff" "$S/demo.py" "$T/"; cp "$S/meta.json" "$T/meta.agent.json" 2>/dev/null
  D="$(mktemp -d /tmp/hgseed.XXXXXX)"
  rsync -a --exclude .git --exclude __pycache__ --exclude .pytest_cache /repo/ "$D/"
  ( cd "$D" && PYTHONPATH="$D/src" /venv/bin/python "$T/demo.py" >/dev/null 2>&1 ); CLEAN=$?
  if ! ( cd "$D" && patch -p1 -s < "$T/patch.diff" ); then echo "$ID-$V: PATCH DOES NOT APPLY"; rm -rf "$D"; continue; fi
  ( cd "$D" && PYTHONPATH="$D/src" /venv/bin/python "$T/demo.py" >/dev/null 2>&1 ); BROKEN=$?
  SUITE=$( cd "$D" && PYTHONPATH="$D/src" /venv/bin/python -m pytest -p no:cacheprovider --timeout=900 -q --junitxml="$D/j.xml" >/dev/null 2>&1; /venv/bin/python - "$D/j.xml" <<'P'
import sys, xml.etree.ElementTree as ET
for ts in ET.parse(sys.argv[1]).getroot().iter('testsuite'):
    a=ts.attrib; t=int(a['tests']); f=int(a['failures']); e=int(a['errors']); s=int(a['skipped'])
    print(f"passed={t-f-e-s} failed={f} errors={e}", end="")
bad=[tc.attrib.get('name') for tc in ET.parse(sys.argv[1]).getroot().iter('testcase') if tc.find('failure') is not None or tc.find('error') is not None]
print((" failing: " + ",".join(bad)) if bad else "")
P
)
  rm -rf "$D"
  echo "$ID-$TAG$V: demo clean=$CLEAN patched=$BROKEN suite: $SUITE"
  printf '{"demo_exit_clean": %s, "demo_exit_patched": %s, "suite_with_patch": "%s"}\n' "$CLEAN" "$BROKEN" "$SUITE" > "$T/verified.json"
done
