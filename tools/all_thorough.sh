#!/bin/sh
# Run every check's thorough tier once (sequentially; each uses up to 12 worker processes) and print verdict + wall time.
cd "$(dirname "$0")/.." || exit 2
sh tools/setup.sh >/dev/null 2>&1
for p in ${PROPS:-C01 C02 C03 C04 C05 C06 C07 C08 C09 C10 C11 C12 C13 C14 C15 C16 C17 C18 C19 C20}; do
  s=$(date +%s)
  HGMON_NO_EVIDENCE=${HGMON_NO_EVIDENCE-1} VERIF_SEED=${VERIF_SEED:-0} ./check $p thorough > .work/thorough-$p.log 2>&1
  rc=$?
  e=$(date +%s)
  echo "$p rc=$rc wall=$((e-s))s $(grep -E "^$p thorough" .work/thorough-$p.log | cut -c1-160)"
  grep -E "VIOLATION|INCONCLUSIVE|Traceback" .work/thorough-$p.log | head -5
done
