#!/bin/sh
# tools/mutant.sh <patch.diff> <PROP> [tier]  -- run a check against a scratch copy of /repo with the patch applied
# (copy lives under /tmp and is removed afterwards). With SUITE=1 also runs the repo's own suite on the copy.
set -e
P="$(readlink -f "$1")"; PROP="$2"; TIER="${3:-quick}"
D="$(mktemp -d /tmp/hgmut.XXXXXX)"
trap 'rm -rf "$D"' EXIT
rsync -a --exclude .git --exclude '__pycache__' --exclude '.pytest_cache' /repo/ "$D/"
( cd "$D" && patch -p1 -s < "$P" )
if [ -n "$SUITE" ]; then
  ( cd "$D" && PYTHONPATH="$D/src" /venv/bin/python -m pytest -p no:cacheprovider --timeout=900 -q -x 2>&1 | tail -3 )
fi
cd /verif && HGMON_NO_EVIDENCE=1 HGMON_REPO="$D" ./check "$PROP" "$TIER" 2>&1 | grep -E "VIOLATION|KNOWN|INCONCLUSIVE|held|violated|key=" | head -${LINES_MAX:-12}
