#!/venv/bin/python
"""Regenerate /verif/MANIFEST.json from the table below (single source of truth)."""

import json
import os

V = os.path.dirname(os.path.dirname(os.path.abspath(__file__)))

TRUST = (
    "Trusted: CPython 3.12, asyncio, the harness itself (hgmon: generators, reference models, recorders); "
    "taps are harness-side rebinding of module attributes and are counted (zero firings => inconclusive). "
    "Verdict is 'held on the executions observed', never a proof."
)

# id -> (category, technique, text, design_ref, extra level_note)
CHECKS = {
    "C01": (
        "exploration",
        "runtime monitoring: call-log + result oracle vs executable reference evaluator over generated DAG programs",
        "Seeded random DAG programs are executed on the real sync and async runners with instrumented node functions "
        "returning symbolic terms; every execution is compared with an independent dependency-order evaluator "
        "(values, last-invocation arguments, exactly-once set, never-run set). Exploration is the right level: the "
        "property is a for-all over programs/configurations with a cheap exact oracle.",
        "DESIGN.md section 8, C01",
        "Programs outside the generator grammar (3-10 nodes, <=3 params) are not covered. Known findings in known_findings.json: equality-based change detection (F-C01b) and a waiting node that ran on a provisional value and is not re-run without a new signal (F-C01d).",
    ),
    "C02": (
        "exploration",
        "runtime monitoring: differential sync/async execution under a controlled asyncio scheduler enumerating completion orders; call-log multiset + step-trace isolation oracle",
        "Each generated program (acyclic, gated, cyclic) is executed once synchronously and then asynchronously under every "
        "completion order of every step (depth-first enumeration through a scheduler that parks node bodies and releases one at "
        "each exactly-detected quiescent point; capped per program, sampled beyond), several concurrency limits, yield-injecting "
        "processors and shuffled node lists; outcomes, invocation multisets, error identity (one and two injected failures) and "
        "same-step isolation are compared. Exploration over schedules with exhaustive sub-spaces for small steps.",
        "DESIGN.md section 8, C02",
        "Known findings F-C02a (re-run sibling overwrites a sync partial value) and the residual of F-C02c (a plain reader of a name that sibling nested graphs bind differently follows the node order) are listed in known_findings.json.",
    ),
    "C03": (
        "exploration",
        "runtime monitoring: online trace rules over call log + step tap (activation and gate-before-target), cross-checked with RouteDecisionEvents; RefEval in the deterministic sub-class",
        "Generated gated programs (all gate kinds, shared targets, gate chains, nesting, loops, explicit-edge and emit-as-data "
        "wirings) are run for every selector value on both runners; every start of a gated node is checked against the latest "
        "decisions of its controlling gates, every step against gate/target co-membership, and in the sub-class where the "
        "statement fixes the executed set exactly it is compared with the reference evaluator.",
        "DESIGN.md section 8, C03",
        "Early start under an undecided default-open gate is allowed and not flagged.",
    ),
    "C04": (
        "exploration",
        "runtime monitoring: loop templates vs sequential while-loop reference (values, per-node counts), step-count bound from the superstep tap, max_iterations sweep with exact partial-state oracle",
        "Loop templates (counter/body chain/route/ifelse/exit node/entry points/accumulator/emit-synchronised/nested) over all "
        "iteration counts 0..9 are compared with a plain Python while-loop; termination is decided as bounded progress: executed "
        "steps per run <= max_iterations and either quiescent completion or InfiniteLoopError with exactly the sequential state "
        "after that many steps.",
        "DESIGN.md section 8, C04",
        "The number of steps a loop needs is observed, not prescribed. Nested cyclic graphs with several entry points are excluded here (see C08).",
    ),
    "C17": (
        "exploration",
        "runtime monitoring: offline trace rules over call log + step tap (S1 after production, S2 never co-scheduled, S3 once per production) and bounded-liveness oracle at quiescence vs sequential reference",
        "Emit/wait_for programs (DAGs with several waiters, gate and interrupt producers incl. the pause/resume path, signal-"
        "synchronised loops with extra waiters, seeded value names, a signal produced once) are executed on both runners; the "
        "three safety rules are checked on every trace and liveness is decided when the runner itself reports quiescence: every "
        "waiter whose producer ran has run, loops iterate as the sequential do-while.",
        "DESIGN.md section 8, C17",
        "Production is observed as the producer function returning (or the resume-path step of an answered interrupt); a name supplied by the caller counts as produced by the caller.",
    ),
    "C05": (
        "exploration",
        "runtime monitoring: differential nested-vs-flat execution of generated programs (input contract, values, per-function arguments from the call log) with RefEval as third voice",
        "A random dependency-closed group of a generated DAG is wrapped into a nested graph node, repeatedly to depth 3, with "
        "inner bindings, inner select and wrapper renames (the flat side is alpha-renamed identically, so equality is exact); both "
        "builds run on both runners and are compared with each other and with the reference evaluator.",
        "DESIGN.md section 8, C05",
        "Inner-level bindings only on names private to the group; hidden outputs compared on the exposed set.",
    ),
    "C06": (
        "exploration",
        "runtime monitoring: rename-history generator + bijection reference model checked on node attributes and on the arguments recorded inside the wrapped functions",
        "Histories of up to 5 rename batches (swaps, cycles, chains, re-used names) on every node kind, fluent or with the node "
        "used between batches, are checked against a simultaneous-update bijection: static attributes (inputs, outputs, defaults, "
        "types, name maps) and dynamic behaviour (each underlying parameter receives the value addressed to its current name; "
        "outputs under current names; map_over/clone follow), plus whole-graph alpha-renaming.",
        "DESIGN.md section 8, C06",
        "Each parameter has a distinct annotation/default so confusions are visible.",
    ),
    "C07": (
        "exploration",
        "runtime monitoring: operation-history generator with twin-replay oracle (each live object's observable snapshot vs the same derivation replayed in isolation)",
        "Random sequences of all derivation operations over graphs and nodes, interleaved with uses and with mutation of "
        "caller-owned dicts/copies; every live object must be indistinguishable (public attributes, freshly recomputed input "
        "spec, structure hash, edges, run results incl. run-time select) from a twin built from scratch by its own recipe.",
        "DESIGN.md section 8, C07",
        "The twin never experienced the other operations, which is what 'unchanged' means; internal sharing is not judged.",
    ),
    "C08": (
        "fault_enumeration",
        "runtime monitoring: the graph's reported input contract is the claim, the real run under recording processors and call log is the judge; every single required input omitted in turn",
        "For generated programs and configurations (bind/select/with_entrypoint/run-time select, nested bindings, cycles; derived "
        "before and after use) the reported contract is supplied exactly (per entry point) and must be accepted and sufficient; each "
        "single required input is then omitted in turn on both runners and must raise MissingInputError before any node function, "
        "event or shutdown is observed; bookkeeping (disjointness, bind/unbind) checked on the same objects.",
        "DESIGN.md section 8, C08",
        "Two known findings (nested cyclic graph with several entry points; first-producer-only edges with an entry point on a later same-name producer) are listed in known_findings.json.",
    ),
    "C11": (
        "fault_enumeration",
        "runtime monitoring: fault injection at every leaf callable (and sampled pairs, and chosen map items) with identity oracle on the surfaced exception and step-level oracle on partial values",
        "Every function node and gate of every generated program (flat, gated, nested to depth 3) fails in turn, plus pairs; also "
        "items of runner.map and of map_over nodes at depth 1-2; raise and continue modes, both runners, random completion orders. "
        "The surfaced object must be the very exception the first-failing node raised; FAILED values must contain all earlier-step "
        "values, nothing of the failing node or of any later step, and only fault-free values.",
        "DESIGN.md section 8, C11",
        "Same-step siblings of the failing node are optional, as in the statement.",
    ),
    "C12": (
        "exploration",
        "runtime monitoring: single-pass span-grammar checker over the event stream delivered to recording (and yield-injecting async) processors, cross-checked with the call log",
        "All program families run on both runners under natural and controlled schedules with processors that suspend at every "
        "emission, fault-free and with failing nodes, post-execution failures (on_missing=error) and rejected calls; every delivered "
        "stream is checked against the span-tree grammar, RunEnd status against what the caller saw, shutdown count/position, and "
        "NodeStart counts against function invocations + cache hits.",
        "DESIGN.md section 8, C12",
        "PAUSED calls are not judged. Known finding F-C12d (a FAILED run whose nested sibling paused in the failing step keeps that sibling's spans open) is listed in known_findings.json.",
    ),
    "C13": (
        "fault_enumeration",
        "runtime monitoring: processor fault injection at every event index / every event / shutdown, differential against the processor-free run, healthy-processor stream compared as span trees",
        "For each generated execution a processor raises at each index of the baseline stream in turn (sync and async classes, "
        "before or after a healthy recorder that may really suspend); result, error identity and node invocations must equal the "
        "processor-free baseline and the healthy recorder must still get the complete stream and one shutdown. Emission sites hit "
        "are tabulated in the evidence.",
        "DESIGN.md section 8, C13",
        "Only Exception subclasses are raised by the faulty processor.",
    ),
    "C10": (
        "exploration",
        "runtime monitoring: differential map vs per-combination single runs on the real runner under controlled completion orders; identity probes for clone; RefEval third voice",
        "runner.map and map_over nodes (renamed, nested in one another, in gated graphs whose items take different branches) over "
        "zip/product combinations with lengths 0-4, failing items, all max_concurrency values and adversarial completion orders; "
        "each result / list entry is compared with an independent single run on that combination, placeholders and first-failing-"
        "item errors included; clone settings are observed through object identity inside the item functions.",
        "DESIGN.md section 8, C10",
        "Combination order is computed independently (zip position-wise, product row-major).",
    ),
    "C15": (
        "exploration",
        "runtime monitoring: adversarial controlled scheduler (release only at exact event-loop quiescence) + in-flight counter maintained inside instrumented node bodies; logical deadlock detection",
        "Wide/nested/mapped programs with coroutine, async-generator and sync bodies run under max_concurrency 1..4 while the "
        "scheduler keeps as many bodies open as the framework allows (FIFO/LIFO/random release); the in-flight counter must never "
        "exceed k, the call must finish (quiescent + nothing parked + unfinished = deadlock), and the result must equal the "
        "unlimited run.",
        "DESIGN.md section 8, C15",
        "Counts function-node bodies; quiescence read from the loop's ready queue.",
    ),
    "C16": (
        "exploration",
        "runtime monitoring: call-log scope oracle (entry nodes and spec-level descendants) and result-key oracle (declared, selected, no sentinel/internal keys) over generated configurations and result kinds",
        "Program families x entry-point sets x graph/run-time/nested selections x on_missing modes, fault-free and failing "
        "(collected) runs, cached nodes and gates with emits run twice, graphs derived after use: every invocation must be an entry "
        "node or downstream of one; every returned key must be a declared data output inside the effective selection; on_missing "
        "policy observed through warnings/ValueError.",
        "DESIGN.md section 8, C16",
        "Descendants are computed on the spec, not on the library's graph.",
    ),
    "C14": (
        "exploration",
        "runtime monitoring: pause/resume history driver on the async runner with call-log oracle (nothing downstream ran, handler arguments) and differential against the self-answering run and RefEval",
        "DAGs with 1-3 interrupts anywhere (multi-output, renamed, async handlers) are driven through every pause/resume history "
        "under controlled completion orders; at each pause identity, shown value, response keys, absence of downstream invocations "
        "and exactness of the returned values are checked; the finished history must equal the run whose handlers answer by "
        "themselves. Nested and sibling-nested interrupts are checked for pause identity.",
        "DESIGN.md section 8, C14",
        "Programs where a node upstream of an interrupt first runs on a fallback value are excluded (the interrupt legitimately asks again).",
    ),
    "C18": (
        "exploration",
        "runtime monitoring: run-history and concurrent-run driver with mutation workloads; identity probes on bound objects and input dicts; deep snapshots of function defaults; thread stress",
        "Functions that mutate default-valued arguments (also nested mutables, also inside nested graphs) are run in histories of "
        "2-8 runs across runner instances and kinds, concurrently on one AsyncRunner under the controlled scheduler, and from 6 "
        "threads with a 10us switch interval; each result must equal the isolated expectation, __defaults__ and the caller's dict "
        "stay untouched, bound objects arrive by identity, and no value of another run appears in the recorded arguments.",
        "DESIGN.md section 8, C18",
        "Expectations are computed from the spec, never from a first run.",
    ),
    "C09": (
        "fault_enumeration",
        "runtime monitoring: recording cache-backend wrapper + reference LRU + key-injectivity table + deserialisation spies (pickle/hmac/diskcache rebinding); differential cached vs uncached; enumerated disk corruption and torn writes",
        "Histories of runs share one backend (unbounded / LRU 1-4 / DiskCache) between a sync and an async runner; every cached run "
        "must equal the uncached one, backend answers must match a reference LRU, no cacheable function runs after a hit, keys are "
        "injective in (function, arguments by parameter, output names) and served dicts fit the node. For every stored disk entry "
        "every corruption class and both torn-write states are injected through the storage layer; get() must miss or serve the "
        "stored value, never raise, and nothing may be unpickled (by hypergraph or by the storage layer) that a genuine set() did "
        "not write for that key.",
        "DESIGN.md section 8, C09",
        "diskcache/sqlite/pickle/hmac are trusted to behave as documented; their use is in scope.",
    ),
    "C19": (
        "fault_enumeration",
        "runtime monitoring of the constructor: single-flaw injection at every position of valid generated graphs; exhaustive pair table of a closed type universe against a three-valued reference relation plus metamorphic rules",
        "Every applicable structural flaw class is injected at every position of generated DAG / gated / explicit-edge graphs "
        "(and again one level down inside a nested graph); the constructor must raise GraphConfigError and nothing else, the "
        "unflawed base and plainly ordered / exclusive duplicates must be accepted. is_type_compatible is run on all ordered pairs "
        "of a closed type universe against the documented rules and on metamorphic identities; strict two-node graphs (flat and "
        "nested) must accept/reject accordingly.",
        "DESIGN.md section 8, C19",
        "Type pairs the documentation leaves open are skipped, not judged.",
    ),
    "C20": (
        "exploration",
        "runtime monitoring of the renderers' output: all expansion states x both output modes from render_graph meta + parsed Mermaid for every depth, against leaf-level dependencies computed from the program spec; flattening oracle",
        "For generated nested / gated / ordered graphs every valid expansion state (exhaustive per program in the thorough tier) and "
        "both output modes are checked for self-consistency and for faithfulness in both directions (every dependency drawn between "
        "visible representatives; every drawn edge backed by a dependency; input edges reach real consumers); Mermaid sources are "
        "parsed and checked the same way; to_flat_graph() is compared with the recursive walk incl. the inner edges of every "
        "instance.",
        "DESIGN.md section 8, C20",
        "Eight renderer mechanisms that violate faithfulness or self-consistency on the unchanged tree (the six of DESIGN.md F-C20a..f, shadowed private names in separate-outputs mode, diagram ids glued from names that collide) are listed as known findings by mechanism key; layout/styling/labels are not judged.",
    ),
}

NOT_YET = {}


def main():
    props = [json.loads(l) for l in open(os.path.join(V, "properties.jsonl"))]
    checks = []
    na = []
    for p in props:
        pid = p["id"]
        if pid in CHECKS and os.path.exists(os.path.join(V, "hgmon", "props", f"{pid}.py")):
            cat, tech, text, ref, note = CHECKS[pid]
            checks.append(
                {
                    "property_id": pid,
                    "quick_cmd": f"./check {pid} quick",
                    "thorough_cmd": f"./check {pid} thorough",
                    "evidence_file": f"/verif/evidence/{pid}.json",
                    "replay_cmd_template": f"./check {pid} --replay {{path}}",
                    "engine": "hgmon",
                    "level_claimed": {"category": cat, "text": text, "design_ref": ref},
                    "level_note": TRUST + " " + note,
                    "technique": tech,
                }
            )
        else:
            na.append({"property_id": pid, "reason": NOT_YET.get(pid, "check under construction in this build session; not claimed until it has run silent on the unchanged tree over several seeds")})
    m = {
        "version": 1,
        "setup_cmd": "sh tools/setup.sh",
        "hooks": {
            "guard": "HYPERGRAPH_VERIF",
            "enable": "no source hooks: all instrumentation is attached from the harness at run time (module-attribute taps, recording processors, cache wrappers); checks import /repo/src live (HGMON_REPO overrides the tree for mutant self-tests)",
            "baseline_off_cmd": "cd /repo && /venv/bin/python -m pytest -ra -q -p no:cacheprovider --timeout=900 --continue-on-collection-errors",
            "source_commits": [],
            "add_only": True,
        },
        "engines": [
            {
                "name": "hgmon",
                "path": "/verif/hgmon",
                "serves_properties": [c["property_id"] for c in checks],
                "kind_free_text": "runtime monitoring harness: program generators, builder, executable reference models, unified call/step/event log, controlled asyncio scheduler, fault injectors, offline oracles",
            }
        ],
        "checks": checks,
        "not_applicable": na,
        "notes": "Exit codes: 0 held on everything observed, 1 violation (VIOLATION line + replay file), 2 inconclusive (deciding monitor observed nothing / watchdog). Known findings: /verif/known_findings.json. VERIF_SEED and VERIF_TIER honoured.",
    }
    with open(os.path.join(V, "MANIFEST.json"), "w") as f:
        json.dump(m, f, indent=1)
    print("claimed:", [c["property_id"] for c in checks])


if __name__ == "__main__":
    main()
