#!/bin/sh
# Run the repository's own suite (guard off) and print pass/fail counts.
cd /repo && /venv/bin/python -m pytest -p no:cacheprovider --timeout=900 -n ${JOBS:-12} -q --junitxml=/tmp/hg_suite.xml >/tmp/hg_suite.log 2>&1
/venv/bin/python - <<'P'
import xml.etree.ElementTree as ET
r=ET.parse('/tmp/hg_suite.xml').getroot()
for ts in r.iter('testsuite'):
    a=ts.attrib; t=int(a['tests']); f=int(a['failures']); e=int(a['errors']); s=int(a['skipped'])
    print(f"tests={t} passed={t-f-e-s} failed={f} errors={e} skipped={s}")
for tc in r.iter('testcase'):
    if tc.find('failure') is not None or tc.find('error') is not None:
        print("FAIL", tc.attrib.get('classname'), tc.attrib.get('name'))
P
