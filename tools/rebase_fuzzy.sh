#!/bin/sh
# tools/rebase_fuzzy.sh <seeded/NAME | mutants/NAME.diff>: try to re-apply a patch whose context lines moved with a larger fuzz
# factor; when every hunk applies, the regenerated diff replaces the patch (seeds keep the original as patch.orig.diff and are
# re-verified with their demo). Prints what happened; patches that still fail need tools/rebase_seed.sh with an edit script.
T="$1"
case "$T" in seeded/*) P="/verif/$T/patch.diff"; [ -f "/verif/$T/patch.orig.diff" ] || cp "$P" "/verif/$T/patch.orig.diff"; SRC="/verif/$T/patch.orig.diff";; *) P="/verif/$T"; SRC="$P";; esac
D="$(mktemp -d /tmp/hgrb.XXXXXX)"; C="$(mktemp -d /tmp/hgrbc.XXXXXX)"
rsync -a --exclude .git --exclude __pycache__ --exclude .pytest_cache /repo/ "$D/"; rsync -a --exclude .git --exclude __pycache__ --exclude .pytest_cache /repo/ "$C/"
if ( cd "$D" && patch -p1 -s -F 12 --ignore-whitespace --no-backup-if-mismatch < "$SRC" >/dev/null 2>&1 ) && ! find "$D" -name '*.rej' | grep -q . ; then
  ( cd "$D" && PYTHONPATH="$D/src" /venv/bin/python -c "import hypergraph" ) || { echo "$T: applies with fuzz but does not import"; rm -rf "$D" "$C"; exit 1; }
  ( cd /tmp && diff -ruN -x __pycache__ -x '*.orig' "$(basename $C)/src" "$(basename $D)/src" | sed "s#^--- $(basename $C)/#--- a/#; s#^+++ $(basename $D)/#+++ b/#; s#^diff -ruN .*##" | grep -v '^$' ) > "$P.new"
  mv "$P.new" "$P"
  case "$T" in seeded/*)
    ( cd "$C" && PYTHONPATH="$C/src" /venv/bin/python "/verif/$T/demo.py" >/dev/null 2>&1 ); A=$?
    ( cd "$D" && PYTHONPATH="$D/src" /venv/bin/python "/verif/$T/demo.py" >/dev/null 2>&1 ); B=$?
    echo "$T: re-based with fuzz; demo clean=$A patched=$B";;
  *) echo "$T: re-based with fuzz";; esac
else
  echo "$T: STILL FAILS"
fi
rm -rf "$D" "$C"
