#!/bin/sh
# Offline setup: optional contract library beside the repo's interpreter + byte-check of the harness.
cd "$(dirname "$0")/.." || exit 1
mkdir -p .deps .work evidence
/venv/bin/pip install -q --no-index --find-links /opt/veriftools/wheels --target .deps icontract >/dev/null 2>&1 || echo "setup: icontract not installed (contracts disabled; checks do not depend on it)"
/venv/bin/python -m compileall -q hgmon >/dev/null || exit 1
/venv/bin/python -c "import sys; sys.path.insert(0,'.'); import hgmon; hgmon.pin_repo(); print('setup ok')"
