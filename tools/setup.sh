#!/bin/sh
# Offline setup: nothing is fetched or installed; the harness is pure stdlib + the repository's own interpreter (/venv).
cd "$(dirname "$0")/.." || exit 1
mkdir -p .work evidence
/venv/bin/python -m compileall -q hgmon >/dev/null || exit 1
/venv/bin/python -c "import sys; sys.path.insert(0,'.'); import hgmon; hgmon.pin_repo(); print('setup ok')"
