#!/venv/bin/python
"""Write the prompt files for a round of independent fault-seeding sub-agents.

usage: tools/seed_prompts.py <dir, e.g. /tmp/wt3> [IDs...]
For every property it writes <dir>/<ID>.prompt.txt. The prompt contains the property record only (statement,
quantifier, why the tests do not settle it, the code meant to make it hold) plus one-line summaries of the
changes earlier rounds already produced for that property (so that new mechanisms are found); nothing about
/verif's checks. The worktree <dir>/<ID> must be created separately (git -C /repo worktree add --detach)."""
import glob, json, os, sys

V = os.path.dirname(os.path.dirname(os.path.abspath(__file__)))
out = sys.argv[1]
ids = sys.argv[2:]
props = [json.loads(l) for l in open(os.path.join(V, "properties.jsonl"))]
earlier = {}
for d in sorted(glob.glob(os.path.join(V, "seeded", "*"))):
    pid = os.path.basename(d).split("-")[0]
    for f in ("meta.agent.json", "meta.json"):
        p = os.path.join(d, f)
        if os.path.exists(p):
            m = json.load(open(p))
            txt = m.get("summary") or m.get("breaks") or ""
            earlier.setdefault(pid, []).append(" ".join(txt.split())[:330])
            break

T = """You are a careful software engineer doing fault-seeding (mutation) work on the Python project gilad-rubin/hypergraph, a workflow orchestration framework that builds name-inferred dataflow graphs with gates, cycles, nesting and interrupts, executed by sync/async superstep runners.

You have your OWN scratch git worktree of the project at: {wt}
Work ONLY inside that directory. Never read, write or cd into /repo or /verif (they are off limits). Do not use the network.

How to run things against YOUR worktree (the interpreter has the project installed from elsewhere, so PYTHONPATH is mandatory):
  cd {wt} && PYTHONPATH={wt}/src /venv/bin/python your_script.py
  cd {wt} && PYTHONPATH={wt}/src /venv/bin/python -m pytest -p no:cacheprovider --timeout=900 -n 4 2>&1 | tail -15     # whole suite, 1-4 min, expect 1626 passed, 90 skipped
Always verify once that `PYTHONPATH={wt}/src /venv/bin/python -c "import hypergraph; print(hypergraph.__file__)"` prints a path under {wt}.
The machine is shared: a few wall-clock timing tests (test_map_runs_concurrently, TestMaxConcurrency::*, test_executes_nodes_concurrently) can flake under load; re-run such a test alone before concluding anything.

THE PROPERTY (a semantic guarantee users of the library rely on):
-----
ID {id}: {title}

STATEMENT: {statement}

QUANTIFIED OVER: {quant}

WHY THE EXISTING TESTS DO NOT SETTLE IT: {why}

CODE THAT IS MEANT TO MAKE IT HOLD:
{mech}
-----

YOUR TASK: produce TWO different, realistic source changes (call them variant a and variant b, with different mechanisms, ideally in different functions/files) to the library code under {wt}/src/hypergraph that each BREAK this property, while the package still imports and the ENTIRE existing test suite still passes unchanged (do not edit, add, skip or delete tests; do not touch anything outside src/hypergraph).

Requirements for each change:
 * It must look like something a developer could plausibly introduce (a refactor, an optimisation, a "simplification", a reordered statement, a wrong comparison, a cache, a shared object, a dropped special case, a moved await...). Not a blatant sabotage, no randomness, no environment checks, no special-casing of test names.
 * It must need something specific to manifest: a particular interleaving / completion order of concurrent nodes, a crash or fault at a particular point, a multi-step sequence of operations, an unusual input or graph shape, or two cooperating sites that each look fine alone. It must NOT be exposed by ordinary simple use at once (the existing suite, which exercises ordinary use heavily, must stay green).
 * It must really violate the property as stated (read the statement precisely), demonstrated against the real library, not merely change an internal detail.
 * Changes ALREADY PRODUCED by earlier rounds for this property are listed below. Do NOT repeat them or close variants of them (same function and same idea); find different mechanisms, different code sites, different triggering shapes. Good hunting grounds: code paths the earlier changes did not touch (look at every function named under "CODE THAT IS MEANT TO MAKE IT HOLD" and at their callers), the async twin of a sync path (or vice versa), nested / mapped / cyclic variants of a flat behaviour, error and cancellation paths, the interaction of two features (e.g. caching x gates, renames x map_over, entry points x cycles, select x nesting, interrupts x nesting), off-by-one and empty-collection boundaries, dict/set iteration order, identity vs equality, names that shadow each other across nesting levels.

ALREADY PRODUCED (do not repeat):
{earlier}

Deliverables - create the directory {wt}/_seed/ containing, per variant X in {{a, b}}:
  _seed/X/patch.diff   : output of `git diff -- src` for that variant alone, relative to the worktree's HEAD (applies with `git apply` on a clean checkout)
  _seed/X/demo.py      : a small standalone program (only imports hypergraph + stdlib) that exits 0 and prints OK when the property holds and exits 1 printing what went wrong when it is violated. It MUST exit 0 on the unmodified tree and exit 1 with the patch applied. Keep it deterministic (no wall-clock races: if an interleaving is needed, force it with asyncio Events/futures or similar).
  _seed/X/meta.json    : {{"property": "{id}", "variant": "X", "summary": "<one paragraph: what the change is and why it breaks the property>", "needs_to_manifest": "<what specific schedule/fault/sequence/input/shape is needed>", "files": ["..."], "suite_result_with_patch": "<the pytest summary line you observed>", "demo_without_patch": "exit 0", "demo_with_patch": "exit 1"}}

Procedure you must follow and report on:
 1. Read the relevant code (start from the files named in the property) and the docs under {wt}/docs if needed.
 2. For variant a: make the change; run the whole suite; if any test fails (other than a timing flake that passes alone), the change is not acceptable - refine or pick another. Write demo.py; run it with the change (must exit 1) - then `git diff -- src > _seed/a/patch.diff && git checkout -- src` and run the demo on the clean tree (must exit 0). Save patch.diff, demo.py, meta.json.
 3. Make sure the tree is clean again (`git checkout -- src`; `git status --short` shows only _seed/), then do the same for variant b.
 4. Finally verify both patches from scratch: for each, `git apply _seed/X/patch.diff`, run demo (exit 1), run full suite (all pass), `git checkout -- src`, run demo (exit 0).
Leave the worktree with src clean and only the _seed/ directory added. If after serious effort you can only produce one acceptable variant, deliver that one and say so.
If, while reading, you notice behaviour of the UNMODIFIED library that already seems to contradict the property, mention it briefly at the end of your report (one or two sentences each, with the smallest reproducing snippet you have).

Your final message must state, per variant: the mechanism in 2-3 sentences, what is needed to manifest it, the suite summary line with the patch, and the demo exit codes with and without the patch.
"""
for p in props:
    if ids and p["id"] not in ids:
        continue
    wt = os.path.join(out, p["id"])
    mech = "\n".join(f"- {m['name']} ({m['where']})" for m in p["anchors"].get("mechanism", []))
    prev = "\n".join(f" - {t}" for t in earlier.get(p["id"], [])) or " (none)"
    txt = T.format(wt=wt, id=p["id"], title=p["title"], statement=p["statement"], quant=p["quantifier"]["text"], why=p["why_tests_cant"], mech=mech, earlier=prev)
    with open(os.path.join(out, p["id"] + ".prompt.txt"), "w") as f:
        f.write(txt)
    print(p["id"], len(txt))
