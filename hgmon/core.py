"""Check context: verdict discipline, evidence, replays, known findings, and the
helper that executes one program on the real runners under observation."""

from __future__ import annotations

import copy
import hashlib
import json
import os
import random
import sys
import time
import traceback
import warnings
from collections import Counter
from typing import Any

from hgmon import rt

VERIF = os.path.dirname(os.path.dirname(os.path.abspath(__file__)))
EVIDENCE_DIR = os.path.join(VERIF, "evidence")
REPLAY_DIR = os.path.join(VERIF, "replays")
FINDINGS_FILE = os.path.join(VERIF, "known_findings.json")

UNSET = object()
WARM_P = 0.25  # share of executions in which objects are used before anything is derived from them
WARM_RNG = None


def jsonable(x, depth=0):
    if depth > 12:
        return "<deep>"
    if isinstance(x, (str, int, float, bool)) or x is None:
        return x
    if isinstance(x, dict):
        return {str(k): jsonable(v, depth + 1) for k, v in x.items()}
    if isinstance(x, (list, tuple, set, frozenset)):
        return [jsonable(v, depth + 1) for v in (sorted(x, key=repr) if isinstance(x, (set, frozenset)) else x)]
    return repr(x)[:300]


def short(x, n=220) -> str:
    """Compact rendering of a (symbolic) value for messages."""

    def r(v, d):
        if isinstance(v, tuple) and len(v) == 2 and isinstance(v[0], str) and isinstance(v[1], tuple):
            if d > 2:
                return f"{v[0]}(..)"
            return f"{v[0]}(" + ",".join(f"{k}={r(a, d + 1)}" for k, a in v[1]) + ")"
        if isinstance(v, dict):
            return "{" + ", ".join(f"{k}: {r(a, d)}" for k, a in v.items()) + "}"
        if isinstance(v, (list, tuple)):
            return "[" + ", ".join(r(a, d) for a in v) + "]"
        return repr(v)

    s = r(x, 0)
    return s if len(s) <= n else s[: n - 3] + "..."


def shape_hash(obj) -> str:
    return hashlib.sha1(json.dumps(jsonable(obj), sort_keys=True).encode()).hexdigest()[:16]


class Ctx:
    """One check run: counts what the monitors observed and decides the exit code."""

    def __init__(self, prop: str, tier: str, seed: int, level: str, rule: str, shard: tuple[int, int] = (0, 1)):
        self.prop = prop
        self.tier = tier
        self.seed = seed
        self.level = level
        self.rule = rule
        self.shard = shard
        self.rng = random.Random(f"{prop}:{seed}:{shard[0]}")
        self.t0 = time.time()
        self.evaluations = 0
        self.shapes: set[str] = set()
        self.samples: list = []
        self.max_samples = 4
        self.obs: Counter = Counter()
        self.violations: list[dict] = []
        self.known_hits: Counter = Counter()
        self.inconclusive: list[str] = []
        self.assumptions: list[str] = []
        self.extra: dict[str, Any] = {}
        self.exhaustive = False
        self._known = load_known(prop)
        self.budget_s: float | None = None
        global WARM_RNG
        import random as _r

        WARM_RNG = _r.Random(f"warm:{prop}:{seed}:{shard[0]}")

    # ---- counting -------------------------------------------------------
    def case(self, shape=None, nontrivial: bool = True, sample=None):
        self.evaluations += 1
        if nontrivial and shape is not None:
            self.shapes.add(shape if isinstance(shape, str) else shape_hash(shape))
        if sample is not None and len(self.samples) < self.max_samples:
            self.samples.append(jsonable(sample))

    def out_of_time(self) -> bool:
        return self.budget_s is not None and (time.time() - self.t0) > self.budget_s

    # ---- verdicts -------------------------------------------------------
    def violation(self, key: str, what: str, case: Any) -> None:
        """Record a violation; ``key`` names the *mechanism* (classifier output)."""
        k = self._known.get(key)
        if k is not None:
            self.known_hits[key] += 1
            return
        self.obs["violations_seen"] += 1
        self.obs["violation:" + key] += 1
        per_key = sum(1 for v in self.violations if v["key"] == key)
        if per_key < 2 and len(self.violations) < 160:
            self.violations.append({"key": key, "what": what[:1500], "case": jsonable(case)})

    def inconc(self, reason: str) -> None:
        if reason not in self.inconclusive:
            self.inconclusive.append(reason)

    # ---- output ---------------------------------------------------------
    def result(self) -> dict:
        return {
            "prop": self.prop,
            "evaluations": self.evaluations,
            "shapes": sorted(self.shapes),
            "samples": self.samples,
            "obs": dict(self.obs),
            "violations": self.violations,
            "known_hits": dict(self.known_hits),
            "inconclusive": self.inconclusive,
            "extra": jsonable(self.extra),
            "exhaustive": self.exhaustive,
        }


def merge_results(results: list[dict]) -> dict:
    m = {
        "evaluations": 0,
        "shapes": set(),
        "samples": [],
        "obs": Counter(),
        "violations": [],
        "known_hits": Counter(),
        "inconclusive": [],
        "extra": {},
        "exhaustive": all(r.get("exhaustive") for r in results) if results else False,
        "reached": None,
    }
    for r in results:
        m["evaluations"] += r["evaluations"]
        m["shapes"].update(r["shapes"])
        for s in r["samples"]:
            if len(m["samples"]) < 4:
                m["samples"].append(s)
        m["obs"].update(r["obs"])
        m["violations"].extend(r["violations"])
        m["known_hits"].update(r["known_hits"])
        for i in r["inconclusive"]:
            if i not in m["inconclusive"]:
                m["inconclusive"].append(i)
        for k, v in r.get("extra", {}).items():
            m["extra"].setdefault(k, v)
        if r.get("reached") is not None:
            m["reached"] = (m["reached"] or set()) | set(r["reached"])
    return m


def anchor_reach(prop: str, reached) -> dict | None:
    """Functions of the property's anchor files (properties.jsonl) that the workload entered."""
    if reached is None:
        return None
    files = []
    try:
        with open(os.path.join(VERIF, "properties.jsonl")) as f:
            for line in f:
                p = json.loads(line)
                if p["id"] == prop:
                    files = [x[len("src/"):] if x.startswith("src/") else x for x in p["anchors"].get("files", [])]
    except OSError:
        return None
    out = {}
    for fl in files:
        names = sorted(r.split("::", 1)[1] for r in reached if r.split("::", 1)[0] == fl)
        out[fl] = {"functions_entered": len(names), "names": names[:40]}
    return out


def load_known(prop: str) -> dict[str, dict]:
    try:
        with open(FINDINGS_FILE) as f:
            data = json.load(f)
    except FileNotFoundError:
        return {}
    return {e["key"]: e for e in data.get("findings", []) if e.get("property") == prop}


def finish(prop: str, tier: str, seed: int, level: str, rule: str, merged: dict, t0: float, assumptions: list[str], min_nontrivial: int = 2, deciding: list[str] | None = None) -> int:
    """Write evidence, print verdict lines, return exit code (0 held / 1 violated / 2 inconclusive)."""
    global EVIDENCE_DIR, REPLAY_DIR
    if os.environ.get("HGMON_NO_EVIDENCE"):
        # self-test runs against scratch copies must not touch the committed evidence
        EVIDENCE_DIR = os.path.join(VERIF, ".work", f"selftest-{os.getpid()}", "evidence")
        REPLAY_DIR = os.path.join(VERIF, ".work", f"selftest-{os.getpid()}", "replays")
    os.makedirs(EVIDENCE_DIR, exist_ok=True)
    known = load_known(prop)
    for key in sorted(known):
        n = merged["known_hits"].get(key, 0)
        print(f"KNOWN-FINDING: property={prop} {known[key]['what']} (seen {n}x this run; key={key})")
    code = 0
    replay_paths = []
    if merged["violations"]:
        os.makedirs(REPLAY_DIR, exist_ok=True)
        seen_keys = set()
        for v in sorted(merged["violations"], key=lambda x: x["key"]):
            if v["key"] in seen_keys:
                continue
            seen_keys.add(v["key"])
            h = shape_hash(v)[:10]
            path = os.path.join(REPLAY_DIR, f"{prop}-{h}.json")
            with open(path, "w") as f:
                json.dump({"property": prop, "seed": seed, "tier": tier, **v}, f, indent=1)
            replay_paths.append(path)
            print(f"VIOLATION property={prop} replay={path}")
            print(f"  key={v['key']} what={v['what'][:400]}")
            if len(replay_paths) >= 40:
                break
        code = 1
    obs = merged["obs"]
    inconclusive = list(merged["inconclusive"])
    for d in deciding or []:
        if obs.get(d, 0) == 0:
            inconclusive.append(f"deciding monitor counter '{d}' is zero")
    _ar = anchor_reach(prop, merged.get("reached"))
    if _ar and not any(v["functions_entered"] for v in _ar.values()):
        inconclusive.append("no function of the property's anchor files was entered by the workload")
    if len(merged["shapes"]) < min_nontrivial:
        inconclusive.append(f"only {len(merged['shapes'])} distinct non-trivial cases")
    if code == 0 and inconclusive:
        code = 2
        print(f"INCONCLUSIVE property={prop} reason={'; '.join(inconclusive)[:500]}")
    coverage = {
        "evaluations": merged["evaluations"],
        "distinct_nontrivial": len(merged["shapes"]),
        "rule": rule,
        "samples": merged["samples"][:4] or ["<none>"],
        "observed": dict(obs),
        "exhaustive": bool(merged.get("exhaustive")),
        "known_findings_hit": dict(merged["known_hits"]),
        "inconclusive": inconclusive,
        "verdict": {0: "held on what was observed", 1: "violated", 2: "inconclusive"}[code],
    }
    ar = anchor_reach(prop, merged.get("reached"))
    if ar is not None:
        coverage["anchor_code_reached"] = ar
        coverage["repository_functions_entered"] = len(merged["reached"])
    coverage.update(merged.get("extra", {}))
    ev = {
        "property_id": prop,
        "tier": tier,
        "seed": seed,
        "level": level,
        "coverage": coverage,
        "assumptions": assumptions,
        "wall_s": round(time.time() - t0, 3),
        "violations": len(merged["violations"]),
    }
    with open(os.path.join(EVIDENCE_DIR, f"{prop}.json"), "w") as f:
        json.dump(ev, f, indent=1, default=repr)
    print(
        f"{prop} {tier} seed={seed}: {coverage['verdict']}; evaluations={merged['evaluations']} "
        f"distinct_nontrivial={len(merged['shapes'])} wall={ev['wall_s']}s obs={ {k: obs[k] for k in sorted(obs)} }"
    )
    return code


# ---------------------------------------------------------------------------
# Executing a program under observation
# ---------------------------------------------------------------------------


class Outcome:
    __slots__ = ("rec", "result", "exc", "built", "warnings", "sched", "status", "values", "error", "pause", "deadlock", "inconclusive")

    def __init__(self):
        self.rec = None
        self.result = None
        self.exc = None
        self.built = None
        self.warnings = []
        self.sched = None
        self.status = None
        self.values = None
        self.error = None
        self.pause = None
        self.deadlock = False
        self.inconclusive = None

    def norm(self):
        return (self.status, self.values, id(self.error) if self.error is not None else None)


def with_async(spec: dict, on: bool, rng=None, frac=0.6) -> dict:
    """Copy of a program spec with function bodies made async (or all sync)."""
    s = copy.deepcopy(spec)

    def walk(p):
        for ns in p["nodes"]:
            if ns["k"] == "sub":
                walk(ns["prog"])
            elif ns["k"] in ("fn",):
                ns["async"] = bool(on and (rng is None or rng.random() < frac))
            elif ns["k"] == "int":
                ns["async"] = False

    walk(s)
    return s


def execute(
    spec_or_built,
    inputs: dict,
    runner: str = "sync",
    *,
    sched=None,
    max_concurrency=None,
    processors=None,
    select=UNSET,
    error_handling: str = "raise",
    cache=None,
    max_iterations=None,
    entrypoint=None,
    on_missing=None,
    fail: dict | None = None,
    runner_obj=None,
    rec=None,
    kwargs_inputs: dict | None = None,
    keep_program: bool = False,
    map_over=None,
    map_mode="zip",
    clone=False,
    warm: bool | None = None,
) -> Outcome:
    """Build (if given a spec) and run once on the real runner; everything observed
    lands in out.rec."""
    from hgmon.build import Built, build_program
    from hypergraph import AsyncRunner, SyncRunner

    rt.install_taps()
    out = Outcome()
    if warm is None:
        warm = WARM_RNG is not None and WARM_RNG.random() < WARM_P
    if isinstance(spec_or_built, Built):
        built = spec_or_built
    else:
        if not keep_program:
            rt.reset_program()
        built = build_program(spec_or_built, warm_inputs=(dict(inputs) if warm else None))
    out.built = built
    rt.FAIL.clear()
    if fail:
        rt.FAIL.update(fail)
    out.rec = rec if rec is not None else rt.new_rec()
    if rec is not None:
        rt.CUR = rec
    kw: dict[str, Any] = {}
    if select is not UNSET:
        kw["select"] = select
    if error_handling != "raise":
        kw["error_handling"] = error_handling
    if max_iterations is not None and map_over is None:
        kw["max_iterations"] = max_iterations
    if entrypoint is not None:
        kw["entrypoint"] = entrypoint
    if on_missing is not None:
        kw["on_missing"] = on_missing
    if processors is not None:
        kw["event_processors"] = processors
    if map_over is not None:
        kw["map_over"] = map_over
        kw["map_mode"] = map_mode
        kw["clone"] = clone
    if kwargs_inputs:
        kw.update(kwargs_inputs)
    with warnings.catch_warnings(record=True) as wlist:
        warnings.simplefilter("always")
        try:
            if runner == "sync":
                r = runner_obj or SyncRunner(cache=cache)
                meth = r.map if map_over is not None else r.run
                out.result = meth(built.graph, inputs, **kw)
            else:
                r = runner_obj or AsyncRunner(cache=cache)
                if max_concurrency is not None:
                    kw["max_concurrency"] = max_concurrency
                meth = r.map if map_over is not None else r.run
                out.sched = sched
                out.result = rt.run_async(lambda: meth(built.graph, inputs, **kw), sched=sched)
        except rt.Deadlock as e:
            out.deadlock = True
            out.exc = e
        except rt.Inconclusive as e:
            out.inconclusive = str(e)
            out.exc = e
        except BaseException as e:  # noqa: BLE001
            if isinstance(e, (KeyboardInterrupt, SystemExit)):
                raise
            out.exc = e
    out.warnings = list(wlist)
    if out.exc is not None:
        out.status = "raised:" + type(out.exc).__name__
        out.error = out.exc
        out.values = None
    elif isinstance(out.result, list):
        out.status = "map"
        out.values = [(x.status.value, x.values, x.error) for x in out.result]
    else:
        res = out.result
        if not hasattr(res, "status") or not hasattr(res, "values"):
            # the call returned something that is not a RunResult (e.g. None after a swallowed error)
            out.status = f"returned:{type(res).__name__}"
            out.values = None
            return out
        out.status = res.status.value
        out.values = res.values
        out.error = res.error
        out.pause = res.pause
    return out


def enumerate_schedules(run_with, *, max_runs: int, rng=None, sample_after: int | None = None):
    """Depth-first enumeration of completion orders.

    run_with(sched) executes once and returns anything; yields (sched, value).
    Stops after max_runs; returns via StopIteration.value whether the space was
    exhausted."""
    choices: list[int] | None = []
    runs = 0
    while choices is not None and runs < max_runs:
        s = rt.Sched(choices=choices, default="first")
        v = run_with(s)
        runs += 1
        yield s, v
        choices = rt.next_choices(s.trace)
    return choices is None


def fmt_exc(e: BaseException) -> str:
    return "".join(traceback.format_exception(type(e), e, e.__traceback__))[-1500:]
