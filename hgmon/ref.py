"""Reference models. Written against the program *spec* only: this module never
imports hypergraph.

RefEval: dependency-order evaluation of an acyclic program (functions, gates in the
deterministic sub-class, auto-resolving / answered interrupts, nested programs,
mapped nested programs).
"""

from __future__ import annotations

import itertools
from typing import Any

from hgmon import rt

END_TOKEN = "END"


class Ambiguous(Exception):
    """The spec is outside the class for which the reference is defined."""


# ---------------------------------------------------------------------------
# names
# ---------------------------------------------------------------------------


def forward_map(names: list[str], batches: list[dict] | None) -> dict[str, str]:
    """original name -> current external name after a history of rename batches.

    Each batch is applied simultaneously (a swap is a swap)."""
    cur = {n: n for n in names}
    for b in batches or []:
        cur = {o: b.get(c, c) for o, c in cur.items()}
    return cur


def node_inputs(ns: dict) -> list[tuple[str, str]]:
    """[(inner/function parameter name, external input name)] in signature order."""
    if ns["k"] == "sub":
        req, opt = ref_inputs(ns["prog"])
        names = list(req) + list(opt)
    else:
        names = [p["n"] for p in ns.get("params", [])]
    fm = forward_map(names, ns.get("rename_in"))
    return [(n, fm[n]) for n in names]


def sub_outputs(prog: dict) -> list[str]:
    """Names a nested program exposes (inner names, declaration order). Ordering signals stay inside: the result of
    a nested run never carries them, so the wrapper node does not produce them."""
    emit_only = sub_emit_only(prog)
    if prog.get("select"):
        return [s for s in prog["select"] if s not in emit_only]
    outs: list[str] = []
    for ns in prog["nodes"]:
        for _, e in node_outputs(ns):
            if e not in outs and e not in emit_only:
                outs.append(e)
    return outs


def node_outputs(ns: dict) -> list[tuple[str, str]]:
    """[(original output name, external output name)], data outputs then emits."""
    if ns["k"] == "sub":
        names = sub_outputs(ns["prog"])
    elif ns["k"] in ("ifelse", "route"):
        names = list(ns.get("emit", []))
    else:
        names = list(ns.get("outs", [])) + list(ns.get("emit", []))
    fm = forward_map(names, ns.get("rename_out"))
    return [(n, fm[n]) for n in names]


def node_name(ns: dict) -> str:
    return ns.get("rename_name") or ns["name"]


def data_output_names(ns: dict) -> list[str]:
    """External names of outputs that carry data (no emits)."""
    emits = set(ns.get("emit", [])) if ns["k"] != "sub" else sub_emit_only(ns["prog"])
    return [e for o, e in node_outputs(ns) if o not in emits]


def sub_emit_only(prog: dict) -> set[str]:
    data: set[str] = set()
    allo: set[str] = set()
    for ns in prog["nodes"]:
        for o, e in node_outputs(ns):
            allo.add(e)
        data.update(data_output_names(ns))
    return allo - data


def has_fallback(ns: dict, inner_name: str, prog_bound: dict | None = None) -> bool:
    """Does the node itself offer a fallback (signature default; for a nested
    program: inner binding or inner default) for this parameter?"""
    if ns["k"] == "sub":
        p = ns["prog"]
        if inner_name in (p.get("bind") or {}):
            return True
        for ins in p["nodes"]:
            for fp, ep in node_inputs(ins):
                if ep == inner_name and has_fallback(ins, fp):
                    return True
        return False
    for p in ns.get("params", []):
        if p["n"] == inner_name:
            return "d" in p
    return False


def fallback_value(ns: dict, inner_name: str):
    if ns["k"] == "sub":
        p = ns["prog"]
        if inner_name in (p.get("bind") or {}):
            return p["bind"][inner_name]
        for ins in p["nodes"]:
            for fp, ep in node_inputs(ins):
                if ep == inner_name and has_fallback(ins, fp):
                    return fallback_value(ins, fp)
        raise KeyError(inner_name)
    for p in ns.get("params", []):
        if p["n"] == inner_name:
            return p["d"]
    raise KeyError(inner_name)


def effective_bound(prog: dict) -> dict:
    """The bound values a level works with: its own bindings, plus - for names it does not bind itself - the values
    bound inside its nested programs, lifted to the wrapper's external input names (first nested program wins).
    A name is ONE input of the composed graph: a binding carried by one nested graph serves every consumer of it."""
    out = dict(prog.get("bind") or {})
    for ns in prog["nodes"]:
        if ns["k"] == "sub":
            inner = effective_bound(ns["prog"])
            for fp, ep in node_inputs(ns):
                if fp in inner and ep not in out:
                    out[ep] = inner[fp]
    return out


def producers(prog: dict) -> dict[str, list[dict]]:
    out: dict[str, list[dict]] = {}
    for ns in prog["nodes"]:
        for _, e in node_outputs(ns):
            out.setdefault(e, []).append(ns)
    return out


def controlling(prog: dict) -> dict[str, list[dict]]:
    """node name -> gates that list it as a target."""
    names = {node_name(ns) for ns in prog["nodes"]}
    out: dict[str, list[dict]] = {}
    for ns in prog["nodes"]:
        for t in gate_targets(ns):
            if t in names:
                out.setdefault(t, []).append(ns)
    return out


def gate_targets(ns: dict) -> list[str]:
    if ns["k"] == "ifelse":
        ts = [ns["t"], ns["f"]]
    elif ns["k"] == "route":
        ts = list(ns["targets"])
        if ns.get("fallback") and ns["fallback"] not in ts:
            ts.append(ns["fallback"])
    else:
        return []
    return [t for t in ts if t != END_TOKEN]


# ---------------------------------------------------------------------------
# dependency structure of one level
# ---------------------------------------------------------------------------


def spec_edges(prog: dict) -> set[tuple[str, str, str]]:
    """(producer node, consumer node, kind) with kind in data/control/ordering."""
    prod = producers(prog)
    edges: set[tuple[str, str, str]] = set()
    for ns in prog["nodes"]:
        me = node_name(ns)
        for _, e in node_inputs(ns):
            for p in prod.get(e, []):
                if node_name(p) != me or True:
                    edges.add((node_name(p), me, "data"))
        for w in ns.get("wait", []) if ns["k"] != "sub" else []:
            for p in prod.get(w, []):
                if node_name(p) != me:
                    edges.add((node_name(p), me, "ordering"))
        for t in gate_targets(ns):
            edges.add((me, t, "control"))
    return edges


def descendants(prog: dict, roots: set[str]) -> set[str]:
    succ: dict[str, set[str]] = {}
    for a, b, _ in spec_edges(prog):
        succ.setdefault(a, set()).add(b)
    seen = set()
    stack = list(roots)
    while stack:
        x = stack.pop()
        for y in succ.get(x, ()):
            if y not in seen:
                seen.add(y)
                stack.append(y)
    return seen


def ancestors(prog: dict, roots: set[str]) -> set[str]:
    pred: dict[str, set[str]] = {}
    for a, b, _ in spec_edges(prog):
        pred.setdefault(b, set()).add(a)
    seen = set()
    stack = list(roots)
    while stack:
        x = stack.pop()
        for y in pred.get(x, ()):
            if y not in seen:
                seen.add(y)
                stack.append(y)
    return seen


def active_scope(prog: dict, select: list[str] | None = None) -> list[dict]:
    """Nodes that count for the input contract (entry points forward, selection
    backward with pessimistic gate expansion)."""
    nodes = {node_name(ns): ns for ns in prog["nodes"]}
    active = set(nodes)
    if prog.get("entry"):
        active = set(prog["entry"]) | descendants(prog, set(prog["entry"]))
    sel = select if select is not None else prog.get("select")
    if sel:
        selset = set(sel)
        start = {n for n in active if selset & {e for _, e in node_outputs(nodes[n])}}
        if not start:
            return []
        edges = [(a, b) for a, b, _ in spec_edges(prog) if a in active and b in active]
        pred: dict[str, set[str]] = {}
        succ: dict[str, set[str]] = {}
        for a, b in edges:
            pred.setdefault(b, set()).add(a)
            succ.setdefault(a, set()).add(b)
        needed: set[str] = set()
        work = list(start)
        while work:
            n = work.pop()
            if n in needed or n not in active:
                continue
            needed.add(n)
            work.extend(pred.get(n, ()))
            for t in gate_targets(nodes[n]):
                if t in active and t not in needed:
                    work.append(t)
                    st = [t]
                    seen = set()
                    while st:
                        x = st.pop()
                        for y in succ.get(x, ()):
                            if y not in seen:
                                seen.add(y)
                                st.append(y)
                    work.extend(seen)
        active = needed
    return [ns for ns in prog["nodes"] if node_name(ns) in active]


def ref_inputs(prog: dict, select: list[str] | None = None) -> tuple[list[str], list[str]]:
    """(required, optional) input names of an acyclic program, per the documented
    rule: a parameter fed by an edge is internal; otherwise it is optional when it
    is bound or some consumer offers a fallback, else required."""
    nodes = active_scope(prog, select)
    produced = set()
    for ns in nodes:
        for _, e in node_outputs(ns):
            produced.add(e)
    bound = prog.get("bind") or {}
    req: list[str] = []
    opt: list[str] = []
    seen = set()
    for ns in nodes:
        for fp, ep in node_inputs(ns):
            if ep in seen:
                continue
            seen.add(ep)
            if ep in produced:
                continue
            if ep in bound or any(has_fallback(n2, fp2) for n2 in nodes for fp2, ep2 in node_inputs(n2) if ep2 == ep):
                opt.append(ep)
            else:
                req.append(ep)
    return req, opt


# ---------------------------------------------------------------------------
# evaluation
# ---------------------------------------------------------------------------


class Ref:
    def __init__(self):
        self.values: dict[str, Any] = {}  # every name produced at this level (external names)
        self.args: dict[str, dict] = {}  # fid -> kwargs (function parameter names) of the final invocation
        self.ran: list[str] = []  # fids in evaluation order (leaf callables)
        self.ran_nodes: set[str] = set()  # node names at this level
        self.not_run: set[str] = set()  # node names at this level
        self.level: dict[str, int] = {}  # node name -> step index at this level
        self.fid_level: dict[str, tuple] = {}  # fid -> tuple of levels from the top
        self.once: set[str] = set()  # fids required to run exactly once
        self.decisions: dict[str, Any] = {}  # gate fid -> decision
        self.failed: list[str] = []  # fids that raised
        self.fail_level: tuple | None = None
        self.paused: tuple | None = None  # (fid path, value, outs)
        self.map_items: dict[str, list] = {}
        self.values_by_node: dict[str, dict] = {}
        self.resumed: list[str] = []
        self.stopped_at: int | None = None


def fid_of(path: str, name: str) -> str:
    return f"{path}/{name}" if path else name


def gate_decide(ns: dict, kw: dict):
    table = ns["table"]
    key = ns.get("key") or (ns["params"][0]["n"] if ns["params"] else None)
    s = rt.sel(kw[key]) if key is not None else 0
    d = table[s % len(table)]
    if ns["k"] == "ifelse":
        return ns["t"] if d else ns["f"]
    if d is None and ns.get("fallback"):
        return ns["fallback"]
    return d


def decision_names(decision, target: str) -> bool:
    if decision is None or decision == END_TOKEN:
        return False
    if isinstance(decision, list):
        return target in decision
    return decision == target


def ref_eval(
    prog: dict,
    provided: dict,
    *,
    path: str | None = None,
    fail: set[str] = frozenset(),
    responses: dict | None = None,
    top_levels: tuple = (),
) -> Ref:
    """Evaluate one level in dependency order. ``provided`` are the run-time values
    addressed to this level (external names of this level).

    A failure or pause at step L of this level stops the level: nodes whose step
    index is greater than L never start. Pass 1 finds L, pass 2 applies it."""
    r1 = _eval_level(prog, provided, path=path, fail=fail, responses=responses, top_levels=top_levels, stop=None)
    if r1.stopped_at is None:
        return r1
    return _eval_level(prog, provided, path=path, fail=fail, responses=responses, top_levels=top_levels, stop=r1.stopped_at)


def _eval_level(prog, provided, *, path, fail, responses, top_levels, stop) -> Ref:
    path = prog["name"] if path is None else path
    R = Ref()
    prod = producers(prog)
    ctrl = controlling(prog)
    bound = effective_bound(prog)
    by_name = {node_name(ns): ns for ns in prog["nodes"]}
    decided: dict[str, bool] = {}  # node name -> ran?
    gate_dec: dict[str, Any] = {}  # gate node name -> decision (only if ran)
    fallback_on_edge: set[str] = set()  # node names that may run early on a fallback
    failed_nodes: set[str] = set()
    stopped_at: int | None = stop  # level at which a failure/pause stops the run

    def deps(ns):
        d = set()
        for _, e in node_inputs(ns):
            for p in prod.get(e, []):
                d.add(node_name(p))
        if ns["k"] != "sub":
            for w in ns.get("wait", []):
                for p in prod.get(w, []):
                    d.add(node_name(p))
        for g in ctrl.get(node_name(ns), []):
            d.add(node_name(g))
        d.discard(node_name(ns))
        return d

    pending = list(prog["nodes"])
    progress = True
    while pending and progress:
        progress = False
        for ns in list(pending):
            me = node_name(ns)
            dd = deps(ns)
            if not all(x in decided for x in dd):
                continue
            pending.remove(ns)
            progress = True
            # activation
            gates = ctrl.get(me, [])
            activated = not gates
            lvl = 0
            act_levels = []  # the node is activated as soon as ONE controlling gate allows it
            for g in gates:
                gname = node_name(g)
                if decided[gname]:
                    if decision_names(gate_dec[gname], me):
                        activated = True
                        act_levels.append(R.level[gname] + 1)
                elif g.get("open", True) and gname not in failed_nodes:
                    # a gate that never runs never closes a default-open target
                    activated = True
                    act_levels.append(0)
            if act_levels:
                lvl = min(act_levels)
            gate_levels = {R.level[node_name(g)] for g in gates if decided.get(node_name(g))}
            # arguments
            args: dict[str, Any] = {}
            sat = True
            early = False
            for fp, ep in node_inputs(ns):
                ran_prods = [p for p in prod.get(ep, []) if decided.get(node_name(p)) and ep in R.values_by_node.get(node_name(p), {})]
                if ran_prods:
                    if len(ran_prods) > 1:
                        raise Ambiguous(f"{ep} produced by several executed nodes")
                    pn = node_name(ran_prods[0])
                    args[fp] = R.values_by_node[pn][ep]
                    lvl = max(lvl, R.level[pn] + 1)
                    if has_fallback(ns, fp) or ep in bound:
                        early = True
                elif ep in provided:
                    args[fp] = provided[ep]
                elif ep in bound:
                    args[fp] = bound[ep]
                elif has_fallback(ns, fp):
                    if ns["k"] != "sub":
                        args[fp] = fallback_value(ns, fp)
                    # for a nested program the inner level applies its own fallback
                else:
                    sat = False
            if ns["k"] != "sub":
                for w in ns.get("wait", []):
                    rp = [p for p in prod.get(w, []) if decided.get(node_name(p)) and node_name(p) != me]
                    if not rp:
                        sat = False
                    else:
                        lvl = max(lvl, max(R.level[node_name(p)] for p in rp) + 1)
            # a gate and its targets never share a step: the gate decides first
            if gates:
                while lvl in gate_levels:
                    lvl += 1
            runs = sat and activated
            if runs and stop is not None and lvl > stop:
                runs = False
            decided[me] = False
            if not runs:
                R.not_run.add(me)
                continue
            R.level[me] = lvl
            if early or any(x in fallback_on_edge for x in dd):
                fallback_on_edge.add(me)
            outs: dict[str, Any] = {}
            fid = ns.get("fid") or fid_of(path, ns["name"])
            k = ns["k"]
            if k == "sub":
                ok = _eval_sub(ns, args, R, path, fail, responses, top_levels + (lvl,), outs, me in fallback_on_edge)
                if not ok:
                    stopped_at = lvl if stopped_at is None else min(stopped_at, lvl)
                    R.ran_nodes.add(me)
                    continue
            else:
                R.args[fid] = args
                R.ran.append(fid)
                R.fid_level[fid] = top_levels + (lvl,)
                if me not in fallback_on_edge:
                    R.once.add(fid)
                if fid in fail:
                    failed_nodes.add(me)
                    R.failed.append(fid)
                    if R.fail_level is None or top_levels + (lvl,) < R.fail_level:
                        R.fail_level = top_levels + (lvl,)
                    stopped_at = lvl if stopped_at is None else min(stopped_at, lvl)
                    R.ran_nodes.add(me)
                    continue
                if k == "fn":
                    res = rt.term(fid, args, len(ns.get("outs", [])), bool(ns.get("gen")))
                    if ns.get("none_out") and len(ns.get("outs", [])) == 1 and not ns.get("gen"):
                        res = None  # a node whose (single) result is the value None
                    onames = ns.get("outs", [])
                    fm = forward_map(list(onames) + list(ns.get("emit", [])), ns.get("rename_out"))
                    if len(onames) == 1:
                        outs[fm[onames[0]]] = res
                    elif len(onames) > 1:
                        for o, v in zip(onames, res):
                            outs[fm[o]] = v
                    for e in ns.get("emit", []):
                        outs[fm[e]] = EMIT
                elif k in ("ifelse", "route"):
                    d = gate_decide(ns, args)
                    gate_dec[me] = d
                    R.decisions[fid] = d
                    for e in ns.get("emit", []):
                        outs[e] = EMIT
                elif k == "int":
                    onames = ns["outs"]
                    fm = forward_map(list(onames) + list(ns.get("emit", [])), ns.get("rename_out"))
                    resp = responses or {}
                    if all(fm[o] in provided for o in onames):
                        # resume path: the answers were supplied, the handler is not invoked
                        R.ran.pop()
                        del R.args[fid]
                        R.once.discard(fid)
                        R.resumed.append(fid)
                        for o in onames:
                            outs[fm[o]] = provided[fm[o]]
                    else:
                        h = ns.get("handler", "pause")
                        if h == "pause":
                            first = ns["params"][0]["n"] if ns["params"] else None
                            R.paused = (fid, args.get(first) if first else None, [fm[o] for o in onames], dict(args))
                            stopped_at = lvl if stopped_at is None else min(stopped_at, lvl)
                            R.ran_nodes.add(me)
                            continue
                        val = h[1]
                        if len(onames) > 1 and isinstance(val, dict):
                            for o in onames:
                                outs[fm[o]] = val[o]
                        else:
                            outs[fm[onames[0]]] = val
                    for e in ns.get("emit", []):
                        outs[fm[e]] = EMIT
            decided[me] = True
            R.ran_nodes.add(me)
            R.values_by_node[me] = outs
            for n, v in outs.items():
                R.values[n] = v
    if pending:
        raise Ambiguous("cyclic dependency in spec: " + ", ".join(node_name(n) for n in pending))
    R.stopped_at = stopped_at
    return R


EMIT = rt.EMIT


def _eval_sub(ns, args, R: Ref, path, fail, responses, levels, outs, early) -> bool:
    """Evaluate a nested program node; fills ``outs`` (external names). Returns
    False when the inner run failed or paused (then the outer run stops)."""
    inner = ns["prog"]
    ipath = fid_of(path, ns["name"])
    m = ns.get("map")
    fm_out = forward_map(sub_outputs(inner), ns.get("rename_out"))
    if not m:
        r = ref_eval(inner, args, path=ipath, fail=fail, responses=responses, top_levels=levels)
        _merge(R, r, early)
        if r.failed or r.paused:
            if r.paused and not R.paused:
                R.paused = r.paused
            return False
        for o in sub_outputs(inner):
            if o in r.values and r.values[o] is not EMIT:
                outs[fm_out[o]] = r.values[o]
            elif o in r.values:
                outs[fm_out[o]] = EMIT
        return True
    # mapped
    fm_in = dict((e, i) for i, e in node_inputs(ns))  # external -> inner
    over_inner = [fm_in[e] for e in m["over"]]
    lists = [args[i] for i in over_inner]
    if m.get("mode", "zip") == "zip":
        if len({len(x) for x in lists}) > 1:
            raise Ambiguous("zip with unequal lengths")
        combos = list(zip(*lists))
    else:
        combos = list(itertools.product(*lists))
    items = []
    failed_any = False
    names = sub_outputs(inner)
    cols: dict[str, list] = {fm_out[o]: [] for o in names}
    for combo in combos:
        a = dict(args)
        a.update(dict(zip(over_inner, combo)))
        r = ref_eval(inner, a, path=ipath, fail=fail, responses=responses, top_levels=levels)
        items.append(r)
        _merge(R, r, True)
        if r.failed:
            failed_any = True
            if m.get("err", "raise") == "raise":
                R.map_items[ipath] = items
                return False
            for o in names:
                cols[fm_out[o]].append(None)
            continue
        for o in names:
            v = r.values.get(o)
            cols[fm_out[o]].append(None if v is EMIT else v)
    R.map_items[ipath] = items
    outs.update(cols)
    return True


def _merge(R: Ref, r: Ref, early: bool) -> None:
    for f in r.ran:
        R.ran.append(f)
    R.args.update(r.args)
    R.fid_level.update(r.fid_level)
    if not early:
        R.once.update(r.once)
    R.decisions.update(r.decisions)
    for f in r.failed:
        R.failed.append(f)
    if r.fail_level is not None and (R.fail_level is None or r.fail_level < R.fail_level):
        R.fail_level = r.fail_level
    R.map_items.update(r.map_items)
    R.resumed.extend(r.resumed)


def visible_values(prog: dict, R: Ref, select: list[str] | None = None) -> dict:
    """What run() must return for a completed evaluation: declared outputs, restricted
    to the effective selection, without ordering sentinels."""
    sel = select if select is not None else prog.get("select")
    vals = {k: v for k, v in R.values.items() if v is not EMIT}
    if sel:
        return {k: vals[k] for k in sel if k in vals}
    return vals
