"""Program families shared by several properties: each returns
{"family", "spec", "inputs", "kw", "unique_outputs", ...}."""

from __future__ import annotations

from hgmon import gen, loops


def dag(rng, fallback=False):
    spec = gen.gen_dag(rng, p_default_edge=0.35 if fallback else 0.1)
    bind, provided = gen.assign_sources(rng, spec)
    spec["bind"] = bind
    return {"family": "dag-fallback" if fallback else "dag", "spec": spec, "inputs": provided, "kw": {}, "unique_outputs": True}


def gated(rng, deterministic=None):
    det = rng.random() < 0.6 if deterministic is None else deterministic
    spec = gen.gen_gated(rng, deterministic=det)
    return {"family": "gated", "spec": spec, "inputs": gen.gated_inputs(rng, spec), "kw": {}, "unique_outputs": False, "deterministic": det}


def loop(rng):
    t = loops.gen_loop(rng)
    return {"family": "loop", "spec": t["spec"], "inputs": t["inputs"], "kw": {}, "unique_outputs": False, "ref": t["ref"], "template": t["template"]}


def waitdag(rng):
    spec = gen.gen_wait_dag(rng, False, p_default_edge=rng.choice([0.0, 0.3]))
    inputs = {k: f"run:{k}" for k in gen.consumed_inputs(spec)}
    if "sg" in inputs:
        inputs["sg"] = rng.randint(0, 1)
    return {"family": "waitdag", "spec": spec, "inputs": inputs, "kw": {}, "unique_outputs": True}


def pick(rng, names):
    n = rng.choice(names)
    if n == "dag":
        return dag(rng)
    if n == "dag-fallback":
        return dag(rng, True)
    if n == "gated":
        return gated(rng)
    if n == "loop":
        return loop(rng)
    if n == "waitdag":
        return waitdag(rng)
    raise ValueError(n)
