"""Program families shared by several properties: each returns
{"family", "spec", "inputs", "kw", "unique_outputs", ...}."""

from __future__ import annotations

from hgmon import gen, loops


def dag(rng, fallback=False):
    spec = gen.gen_dag(rng, p_default_edge=0.35 if fallback else 0.1)
    bind, provided = gen.assign_sources(rng, spec)
    spec["bind"] = bind
    return {"family": "dag-fallback" if fallback else "dag", "spec": spec, "inputs": provided, "kw": {}, "unique_outputs": True}


def outputs_unique(spec) -> bool:
    """No output name (data or emit) has two producers anywhere in the program."""
    from hgmon import ref

    def walk(p):
        names = [e for ns in p["nodes"] for _, e in ref.node_outputs(ns)]
        return len(names) == len(set(names)) and all(walk(ns["prog"]) for ns in p["nodes"] if ns["k"] == "sub")

    return walk(spec)


def gated(rng, deterministic=None):
    det = rng.random() < 0.6 if deterministic is None else deterministic
    spec = gen.gen_gated(rng, deterministic=det)
    return {"family": "gated", "spec": spec, "inputs": gen.gated_inputs(rng, spec), "kw": {}, "unique_outputs": outputs_unique(spec), "deterministic": det}


def loop(rng):
    t = loops.gen_loop(rng)
    return {"family": "loop", "spec": t["spec"], "inputs": t["inputs"], "kw": {}, "unique_outputs": outputs_unique(t["spec"]), "ref": t["ref"], "template": t["template"]}


def waitdag(rng):
    spec = gen.gen_wait_dag(rng, False, p_default_edge=rng.choice([0.0, 0.3, 0.4]))
    inputs = {k: f"run:{k}" for k in gen.consumed_inputs(spec)}
    if "sg" in inputs:
        inputs["sg"] = rng.randint(0, 1)
    return {"family": "waitdag", "spec": spec, "inputs": inputs, "kw": {}, "unique_outputs": True}


def rewait(rng):
    """A producer of a signal that becomes runnable AGAIN in the very step in which its waiters see the fresh signal
    (one of its inputs has a default and the real value arrives a step - or a chain of 1-2 steps - later). The
    waiters must be deferred to the producer's re-run whatever the order of the node list."""
    depth = rng.randint(1, 2)
    nodes = []
    prev = "a"
    for d in range(depth):
        nodes.append({"k": "fn", "name": f"feed{d}", "params": [{"n": prev}], "outs": [f"late{d}"]})
        prev = f"late{d}"
    nodes.append({"k": "fn", "name": "prod", "params": [{"n": "a"}, {"n": prev, "d": f"def:{prev}"}], "outs": ["pv"], "emit": ["sig"]})
    for j in range(rng.randint(1, 3)):
        w = {"k": "fn", "name": f"waiter{j}", "params": [{"n": "a"}] + ([{"n": "pv"}] if rng.random() < 0.5 else []), "outs": [f"w{j}"], "wait": ["sig"]}
        nodes.append(w)
    order = rng.choice(["waiters-first", "producer-first", "shuffled"])
    if order == "waiters-first":
        nodes.reverse()
    elif order == "shuffled":
        rng.shuffle(nodes)
    spec = {"name": "g", "nodes": nodes, "bind": {}}
    return {"family": "waitdag", "spec": spec, "inputs": {"a": "run:a"}, "kw": {}, "unique_outputs": True, "template": "rewait"}


def lateclosed(rng):
    spec = gen.gen_late_closed_gate(rng)
    return {"family": "gated", "spec": spec, "inputs": {"s": rng.randrange(spec["table_len"]), "x": "run:x"}, "kw": {}, "unique_outputs": True, "template": "late-closed-gate"}


def nested_entry(rng):
    """Two or three SIBLING nested graphs running in the same step; one or two of them were built with
    with_entrypoint(...) and hold a node OUTSIDE the entry scope whose inputs are satisfiable all the same (it reads
    the shared input).  Only the entry node and what is downstream of it may run in such a graph - however the
    siblings' runs interleave (the scope belongs to the nested run, not to the runner)."""
    nodes = []
    n_sub = rng.randint(2, 3)
    scoped = set(rng.sample(range(n_sub), rng.randint(1, 2)))
    for j in range(n_sub):
        inner = [
            {"k": "fn", "name": f"s{j}a", "params": [{"n": "x"}], "outs": [f"m{j}"]},
            {"k": "fn", "name": f"s{j}b", "params": [{"n": f"m{j}"}], "outs": [f"o{j}"]},
        ]
        if rng.random() < 0.5:
            inner.append({"k": "fn", "name": f"s{j}c", "params": [{"n": f"o{j}"}], "outs": [f"p{j}"]})
        prog = {"name": f"sub{j}", "nodes": inner, "bind": {}}
        if j in scoped:
            inner.append({"k": "fn", "name": f"s{j}stray", "params": [{"n": "x"}], "outs": [f"stray{j}"]})
            rng.shuffle(inner)
            prog["entry"] = [f"s{j}a"]
        nodes.append({"k": "sub", "name": f"sub{j}", "prog": prog})
    rng.shuffle(nodes)
    return {"family": "nested", "spec": {"name": "g", "nodes": nodes, "bind": {}}, "inputs": {"x": "run:x"}, "kw": {}, "unique_outputs": True, "template": "nested-entry"}


def early_shared(rng):
    """Two (or three) exclusive, default-open branches that all write ONE name and run together in the first step,
    because the gate's own input is computed by another node and arrives a step later.  Which value survives the
    shared step is fixed by the order of the node list - identically for both runners and every completion order."""
    k = rng.randint(2, 3)
    names = [f"br{j}" for j in range(k)]
    if k == 2 and rng.random() < 0.5:
        gate = {"k": "ifelse", "name": "decide", "params": [{"n": "c"}], "key": "c", "t": names[0], "f": names[1], "table": [True, False], "open": True}
    else:
        gate = {"k": "route", "name": "decide", "params": [{"n": "c"}], "key": "c", "targets": list(names), "table": list(names), "open": True}
    nodes = [{"k": "fn", "name": "prep", "params": [{"n": "x"}], "outs": ["c"]}, gate]
    nodes += [{"k": "fn", "name": nm, "params": [{"n": "x"}], "outs": ["result"]} for nm in names]
    if rng.random() < 0.6:
        nodes.append({"k": "fn", "name": "use", "params": [{"n": "result"}], "outs": ["used"]})
    rng.shuffle(nodes)
    spec = {"name": "g", "nodes": nodes, "bind": {}, "selectors": []}
    return {"family": "gated", "spec": spec, "inputs": {"x": "run:x"}, "kw": {}, "unique_outputs": False, "template": "early-shared"}


def sibling_bindings(rng):
    """Two or three sibling nested graphs that each BIND the same input name on their inner graph - to different values
    or to the same one - next to (sometimes) a plain node that reads the name too. Output names are unique, so the
    outcome must not depend on the order of the node list."""
    n_sub = rng.randint(2, 3)
    same = rng.random() < 0.25
    nodes = []
    for j in range(n_sub):
        inner = [{"k": "fn", "name": f"w{j}", "params": [{"n": "x"}, {"n": "k"}], "outs": [f"o{j}"]}]
        if rng.random() < 0.4:
            inner.append({"k": "fn", "name": f"w{j}b", "params": [{"n": f"o{j}"}, {"n": "k"}], "outs": [f"p{j}"]})
        nodes.append({"k": "sub", "name": f"wrap{j}", "prog": {"name": f"wrap{j}", "nodes": inner, "bind": {"k": "bound:shared" if same else f"bound:{j}"}}})
    plain = rng.random() < 0.4
    if plain:
        nodes.append({"k": "fn", "name": "plain", "params": [{"n": "k"}], "outs": ["plain_out"]})
    rng.shuffle(nodes)
    spec = {"name": "g", "nodes": nodes, "bind": {}}
    inputs = {"x": "run:x"}
    if rng.random() < 0.2:
        inputs["k"] = "run:k"
    return {"family": "nested", "spec": spec, "inputs": inputs, "kw": {}, "unique_outputs": True, "template": f"sibling-bindings(same={same},plain={plain})"}


def pick(rng, names):
    n = rng.choice(names)
    if n == "early-shared":
        return early_shared(rng)
    if n == "compose":
        return compose(rng)
    if n == "sibling-bindings":
        return sibling_bindings(rng)
    if n == "dotted-keys":
        return dotted_keys(rng)
    if n == "signal-loop":
        # a loop of at least three turns whose gate (or an observer) waits for the end-of-iteration signal
        t = rng.choice([loops.signal_loop(rng.randint(3, 5), 0, rng.choice(["counter", "chat"]), True, observers=rng.choice([0, 1])), loops.early_read_signal_loop(rng.randint(3, 5), 0, rng.choice(["route", "ifelse"])), loops.lagged_signal_loop(rng.randint(4, 7), 0, rng.choice(["route", "ifelse"]))])
        return {"family": "loop", "spec": t["spec"], "inputs": t["inputs"], "kw": {}, "unique_outputs": outputs_unique(t["spec"]), "ref": t["ref"], "template": t["template"]}
    if n == "nested-entry":
        return nested_entry(rng)
    if n == "rewait":
        return rewait(rng)
    if n == "lateclosed":
        return lateclosed(rng)
    if n == "dag":
        return dag(rng)
    if n == "dag-fallback":
        return dag(rng, True)
    if n == "gated":
        return gated(rng)
    if n == "loop":
        return loop(rng)
    if n == "waitdag":
        return waitdag(rng)
    raise ValueError(n)


def nested(rng, depth=None):
    spec = gen.gen_dag(rng, n_nodes=(4, 9), p_default_edge=0.05)
    for ns in spec["nodes"]:
        ns["fid"] = f"g/{ns['name']}"
    cur = spec
    for d in range(depth or rng.randint(1, 3)):
        res = gen.nest_once(rng, cur, f"sub{d}", allow_select=False)
        if res:
            cur = res[1]
    from hgmon import ref

    inputs = {k: f"run:{k}" for k in ref.ref_inputs(cur)[0]}
    return {"family": "nested", "spec": cur, "inputs": inputs, "kw": {}, "unique_outputs": True}


def dotted_keys(rng):
    """A nested program run with an extra value under a dotted key "<nested node>.<inner name>" that addresses an ORDINARY
    inner input or inner output (not the answer of a nested interrupt). Whatever the library makes of such a key, both
    runners and every schedule make the same of it."""
    from hgmon import ref

    fam = nested(rng, depth=rng.randint(1, 2))
    spec = fam["spec"]
    subs = [ns for ns in spec["nodes"] if ns["k"] == "sub"]
    inputs = dict(fam["inputs"])
    if subs:
        sub = rng.choice(subs)
        inner_names = [i for i, _ in ref.node_inputs(sub)] + [e for x in sub["prog"]["nodes"] for e in ref.data_output_names(x)]
        if inner_names:
            inputs[f"{ref.node_name(sub)}.{rng.choice(inner_names)}"] = "run:dotted"
    return {"family": "nested", "spec": spec, "inputs": inputs, "kw": {}, "unique_outputs": True, "template": "dotted-key"}


def mapped(rng, err=None):
    """outer: pre -> [inner mapped over a list] -> post ; inner is a small DAG (optionally with a gate)."""
    inner = gen.gen_dag(rng, n_nodes=(1, 4), n_inputs=(1, 2), p_default_input=0.0, p_default_edge=0.0, p_gen=0.0, p_noout=0.0, p_emit=0.25, name="inner", prefix="m")
    from hgmon import ref

    ins = gen.consumed_inputs(inner)
    over = ins[: rng.randint(1, len(ins))]
    mode = rng.choice(["zip", "product"]) if len(over) > 1 else "zip"
    n = rng.randint(0, 3)
    sub = {"k": "sub", "name": "inner", "prog": inner, "map": {"over": list(over), "mode": mode, "err": err or rng.choice(["raise", "continue"])}}
    outs = [e for ns in inner["nodes"] for e in ref.data_output_names(ns)]
    nodes = [sub]
    if outs:
        nodes.append({"k": "fn", "name": "post", "params": [{"n": rng.choice(outs)}], "outs": ["post_out"]})
    spec = {"name": "outer", "nodes": nodes, "bind": {}}
    inputs = {}
    for k in ins:
        inputs[k] = [f"{k}:{j}" for j in range(n)] if k in over else f"run:{k}"
    return {"family": "mapped", "spec": spec, "inputs": inputs, "kw": {}, "unique_outputs": True, "over": over, "mode": mode}


def cached(rng):
    f = dag(rng)
    for ns in f["spec"]["nodes"]:
        if rng.random() < 0.5 and not ns.get("gen"):
            ns["cache"] = True
    f["family"] = "cached"
    return f


def rich(rng):
    n = rng.choice(["dag", "dag-fallback", "gated", "loop", "nested", "nested", "mapped", "mapped", "cached", "waitdag", "compose", "compose"])
    if n == "nested":
        return nested(rng)
    if n == "mapped":
        return mapped(rng)
    if n == "cached":
        return cached(rng)
    return pick(rng, [n])


def compose(rng, base=None):
    """A whole program of another family (gated, cyclic, signal-ordered, fallback DAG) used as ONE nested-graph node
    of an outer graph, optionally twice (two sibling copies running in the same step), behind a feeding node and in
    front of a consuming node, to depth 1-2. No reference model is attached: the family serves the differential and
    trace-rule oracles (C02, C12, C13, C15), which need none."""
    import copy

    from hgmon import ref

    base = base or pick(rng, ["gated", "gated", "loop", "loop", "waitdag", "dag-fallback", "rewait", "lateclosed", "early-shared"])
    inner = copy.deepcopy(base["spec"])
    inputs = dict(base["inputs"])
    # a cyclic program with several entry points cannot be run as a nested node (the wrapper lists the parameters of
    # all of them and the inner run finds the supply ambiguous - known finding of C08): take another base
    from hgmon import build

    for _ in range(20):
        eps = getattr(build.build_program(inner).graph.inputs, "entrypoints", None) or {}
        if len(eps) <= 1:
            break
        base = pick(rng, ["gated", "loop", "loop", "waitdag"])
        inner = copy.deepcopy(base["spec"])
        inputs = dict(base["inputs"])
    depth = rng.randint(1, 2)
    cur, cur_inputs = inner, inputs
    for d in range(depth):
        name = f"lvl{d}"
        cur = dict(cur)
        cur["name"] = name
        nodes = [{"k": "sub", "name": name, "prog": cur}]
        data_outs = [e for ns in cur["nodes"] for e in ref.data_output_names(ns)]
        # a feeding node in front of one plain (string-valued) input of the wrapped program
        feedable = [k for k, v in cur_inputs.items() if isinstance(v, str) and v.startswith("run:") and k not in data_outs and k not in _bound_names(cur)]
        new_inputs = dict(cur_inputs)
        if feedable and rng.random() < 0.6:
            k = rng.choice(feedable)
            nodes.insert(0, {"k": "fn", "name": f"feed{d}", "params": [{"n": f"z{d}"}], "outs": [k]})
            new_inputs.pop(k)
            new_inputs[f"z{d}"] = f"run:z{d}"
        exposed = list(dict.fromkeys(data_outs))
        if exposed and rng.random() < 0.7:
            nodes.append({"k": "fn", "name": f"post{d}", "params": [{"n": rng.choice(exposed)}], "outs": [f"post{d}_out"]})
        if rng.random() < 0.4:
            # an unrelated sibling that is in flight together with the nested run
            nodes.append({"k": "fn", "name": f"side{d}", "params": [{"n": f"s{d}"}], "outs": [f"side{d}_out"]})
            new_inputs[f"s{d}"] = f"run:s{d}"
        rng.shuffle(nodes)
        cur = {"name": f"outer{d}", "nodes": nodes, "bind": {}}
        cur_inputs = new_inputs
    cur_inputs = _complete_entry(cur, cur_inputs)
    return {"family": "compose", "spec": cur, "inputs": cur_inputs, "kw": {}, "unique_outputs": False, "template": f"compose({base['family']},{base.get('template', '')},depth={depth})"}


def _bound_names(spec) -> set:
    out = set(spec.get("bind") or {})
    for ns in spec["nodes"]:
        if ns["k"] == "sub":
            out |= _bound_names(ns["prog"])
    return out


def _complete_entry(spec, inputs):
    """A cyclic program used as a node turns into a self-cycle of the wrapper at the outer level, whose entry point
    lists every cycle parameter of the wrapper: supply the ones the flat program did not need (same integer seed)."""
    from hgmon import build

    g = build.build_program(spec).graph
    eps = getattr(g.inputs, "entrypoints", None) or {}
    if not eps:
        return inputs
    ints = [v for v in inputs.values() if isinstance(v, int) and not isinstance(v, bool)]
    seed = ints[0] if ints else 0
    best = max(eps.items(), key=lambda kv: len(set(kv[1]) & set(inputs)))
    out = dict(inputs)
    for p in best[1]:
        out.setdefault(p, seed)
    return out
