"""Program families shared by several properties: each returns
{"family", "spec", "inputs", "kw", "unique_outputs", ...}."""

from __future__ import annotations

from hgmon import gen, loops


def dag(rng, fallback=False):
    spec = gen.gen_dag(rng, p_default_edge=0.35 if fallback else 0.1)
    bind, provided = gen.assign_sources(rng, spec)
    spec["bind"] = bind
    return {"family": "dag-fallback" if fallback else "dag", "spec": spec, "inputs": provided, "kw": {}, "unique_outputs": True}


def gated(rng, deterministic=None):
    det = rng.random() < 0.6 if deterministic is None else deterministic
    spec = gen.gen_gated(rng, deterministic=det)
    return {"family": "gated", "spec": spec, "inputs": gen.gated_inputs(rng, spec), "kw": {}, "unique_outputs": False, "deterministic": det}


def loop(rng):
    t = loops.gen_loop(rng)
    return {"family": "loop", "spec": t["spec"], "inputs": t["inputs"], "kw": {}, "unique_outputs": False, "ref": t["ref"], "template": t["template"]}


def waitdag(rng):
    spec = gen.gen_wait_dag(rng, False, p_default_edge=rng.choice([0.0, 0.3, 0.4]))
    inputs = {k: f"run:{k}" for k in gen.consumed_inputs(spec)}
    if "sg" in inputs:
        inputs["sg"] = rng.randint(0, 1)
    return {"family": "waitdag", "spec": spec, "inputs": inputs, "kw": {}, "unique_outputs": True}


def pick(rng, names):
    n = rng.choice(names)
    if n == "dag":
        return dag(rng)
    if n == "dag-fallback":
        return dag(rng, True)
    if n == "gated":
        return gated(rng)
    if n == "loop":
        return loop(rng)
    if n == "waitdag":
        return waitdag(rng)
    raise ValueError(n)


def nested(rng, depth=None):
    spec = gen.gen_dag(rng, n_nodes=(4, 9), p_default_edge=0.05)
    for ns in spec["nodes"]:
        ns["fid"] = f"g/{ns['name']}"
    cur = spec
    for d in range(depth or rng.randint(1, 3)):
        res = gen.nest_once(rng, cur, f"sub{d}", allow_select=False)
        if res:
            cur = res[1]
    from hgmon import ref

    inputs = {k: f"run:{k}" for k in ref.ref_inputs(cur)[0]}
    return {"family": "nested", "spec": cur, "inputs": inputs, "kw": {}, "unique_outputs": True}


def mapped(rng, err=None):
    """outer: pre -> [inner mapped over a list] -> post ; inner is a small DAG (optionally with a gate)."""
    inner = gen.gen_dag(rng, n_nodes=(1, 4), n_inputs=(1, 2), p_default_input=0.0, p_default_edge=0.0, p_gen=0.0, p_noout=0.0, name="inner", prefix="m")
    from hgmon import ref

    ins = gen.consumed_inputs(inner)
    over = ins[: rng.randint(1, len(ins))]
    mode = rng.choice(["zip", "product"]) if len(over) > 1 else "zip"
    n = rng.randint(0, 3)
    sub = {"k": "sub", "name": "inner", "prog": inner, "map": {"over": list(over), "mode": mode, "err": err or rng.choice(["raise", "continue"])}}
    outs = [e for ns in inner["nodes"] for e in ref.data_output_names(ns)]
    nodes = [sub]
    if outs:
        nodes.append({"k": "fn", "name": "post", "params": [{"n": rng.choice(outs)}], "outs": ["post_out"]})
    spec = {"name": "outer", "nodes": nodes, "bind": {}}
    inputs = {}
    for k in ins:
        inputs[k] = [f"{k}:{j}" for j in range(n)] if k in over else f"run:{k}"
    return {"family": "mapped", "spec": spec, "inputs": inputs, "kw": {}, "unique_outputs": True, "over": over, "mode": mode}


def cached(rng):
    f = dag(rng)
    for ns in f["spec"]["nodes"]:
        if rng.random() < 0.5 and not ns.get("gen"):
            ns["cache"] = True
    f["family"] = "cached"
    return f


def rich(rng):
    n = rng.choice(["dag", "dag-fallback", "gated", "loop", "nested", "nested", "mapped", "mapped", "cached", "waitdag"])
    if n == "nested":
        return nested(rng)
    if n == "mapped":
        return mapped(rng)
    if n == "cached":
        return cached(rng)
    return pick(rng, [n])
