"""Entry point: python -m hgmon.main <PROP> [quick|thorough] [--replay path] [--shard i/n --out file]"""

from __future__ import annotations

import argparse
import importlib
import json
import os
import subprocess
import sys
import time

import hgmon
from hgmon import core


def run_shard(prop: str, tier: str, seed: int, shard: tuple[int, int], replay: str | None = None) -> dict:
    import logging

    logging.disable(logging.CRITICAL)  # the library logs every swallowed processor/caching error
    hgmon.pin_repo()
    mod = importlib.import_module(f"hgmon.props.{prop}")
    ctx = core.Ctx(prop, tier, seed, mod.LEVEL, mod.RULE, shard)
    reach_on = core.rt.start_reach(os.path.join(hgmon.REPO, "src"))
    ctx.replay = None
    if replay:
        with open(replay) as f:
            ctx.replay = json.load(f)
    try:
        mod.run(ctx)
    except core.rt.Inconclusive as e:
        ctx.inconc(str(e))
    except Exception as e:  # noqa: BLE001
        # Safety net. Every workload step that may legitimately be rejected is guarded inside the checks, so an
        # exception arriving here left a step the harness expects to be accepted. An error class DEFINED BY THE
        # LIBRARY (GraphConfigError, MissingInputError, ...) means the library now rejects a valid program:
        # a violation with the traceback as witness. Anything else may be the harness's own fault (a private
        # name that moved): inconclusive, never "held" and never an alarm.
        import traceback

        tb = traceback.format_exc()
        if (type(e).__module__ or "").startswith("hypergraph"):
            ctx.violation(f"{prop}:library-rejected-valid-step:{type(e).__name__}", f"the library raised {type(e).__name__} in a workload step that must be accepted: {str(e)[:300]}", {"traceback": tb[-4000:]})
        else:
            ctx.inconc(f"harness stopped by {type(e).__name__}: {str(e)[:200]} :: {tb[-1500:]}")
    res = ctx.result()
    res["reached"] = sorted(f"{f}::{q}" for f, q in core.rt.REACHED) if reach_on else None
    res["assumptions"] = getattr(mod, "ASSUMPTIONS", [])
    return res


def main(argv=None) -> int:
    ap = argparse.ArgumentParser()
    ap.add_argument("prop")
    ap.add_argument("tier", nargs="?", default=os.environ.get("VERIF_TIER", "quick"))
    ap.add_argument("--replay")
    ap.add_argument("--shard")
    ap.add_argument("--out")
    ap.add_argument("--jobs", type=int, default=int(os.environ.get("HGMON_JOBS", "0")))
    a = ap.parse_args(argv)
    seed = int(os.environ.get("VERIF_SEED", "0"))
    t0 = time.time()
    if a.shard:
        i, n = (int(x) for x in a.shard.split("/"))
        res = run_shard(a.prop, a.tier, seed, (i, n), a.replay)
        with open(a.out, "w") as f:
            json.dump(res, f, default=repr)
        return 0
    hgmon.pin_repo()
    mod = importlib.import_module(f"hgmon.props.{a.prop}")
    replay_key = None
    if a.replay and getattr(mod, "REPLAY_BY_SEED", False):
        # Histories of this property are regenerated from the seed (objects with identity, long operation
        # sequences): the replay re-runs the recorded tier at the recorded seed - the run is deterministic under
        # PYTHONHASHSEED=0 - and reports only the recorded mechanism key.
        with open(a.replay) as f:
            rp = json.load(f)
        seed, a.tier, replay_key = int(rp.get("seed", seed)), rp.get("tier", a.tier), rp.get("key")
        os.environ["VERIF_SEED"] = str(seed)
        os.environ.setdefault("HGMON_NO_EVIDENCE", "1")
        a.replay = None
    jobs = a.jobs or (getattr(mod, "THOROUGH_SHARDS", 12) if a.tier == "thorough" else getattr(mod, "QUICK_SHARDS", 1))
    if a.replay or jobs <= 1:
        results = [run_shard(a.prop, a.tier, seed, (0, 1), a.replay)]
    else:
        work = os.path.join(core.VERIF, ".work")
        os.makedirs(work, exist_ok=True)
        procs = []
        for i in range(jobs):
            out = os.path.join(work, f"{a.prop}-{a.tier}-{seed}-{os.getpid()}-{i}.json")
            if os.path.exists(out):
                os.remove(out)
            cmd = [sys.executable, "-m", "hgmon.main", a.prop, a.tier, "--shard", f"{i}/{jobs}", "--out", out]
            procs.append((i, out, subprocess.Popen(cmd, cwd=core.VERIF, env={**os.environ, "PYTHONHASHSEED": os.environ.get("PYTHONHASHSEED", "0")})))
        results = []
        watchdog = getattr(mod, "WATCHDOG_S", 3000)
        for i, out, p in procs:
            try:
                rc = p.wait(timeout=max(1, watchdog - (time.time() - t0)))
            except subprocess.TimeoutExpired:
                p.kill()
                rc = -9
            if rc != 0 or not os.path.exists(out):
                results.append({"evaluations": 0, "shapes": [], "samples": [], "obs": {}, "violations": [], "known_hits": {}, "inconclusive": [f"shard {i} ended with rc={rc}"], "extra": {}})
                continue
            with open(out) as f:
                results.append(json.load(f))
            os.remove(out)
    merged = core.merge_results(results)
    if replay_key is not None:
        merged["violations"] = [v for v in merged["violations"] if v["key"] == replay_key]
        merged["known_hits"] = {k: v for k, v in merged["known_hits"].items() if k == replay_key}
        print(f"replay of key {replay_key} at seed {seed}, tier {a.tier}: {'recurred' if merged['violations'] or merged['known_hits'] else 'did not recur'}")
    assumptions = getattr(mod, "ASSUMPTIONS", [])
    return core.finish(a.prop, a.tier, seed, mod.LEVEL, mod.RULE, merged, t0, assumptions, deciding=getattr(mod, "DECIDING", None))


if __name__ == "__main__":
    sys.exit(main())
