"""Loop templates (C04, C17, C02) with their sequential references.

Every template returns {"spec", "inputs", "ref"} where ref is computed by a plain
Python while-loop calling the same user functions (hgmon.beh) - it contains no
framework semantics - and consists of:
  trace:  [(node name, {output: value})] in sequential execution order
  values: final visible values
  counts: node name -> number of executions
  singleton_steps: True when the framework can only run one node per step, so the
                   partial state after k steps is exactly the first k trace entries
"""

from __future__ import annotations

from hgmon import beh


def _fold(inputs, trace, hidden=()):
    vals = {}
    for _, outs in trace:
        vals.update(outs)
    return {k: v for k, v in vals.items() if k not in hidden}


def _counts(trace):
    c = {}
    for n, _ in trace:
        c[n] = c.get(n, 0) + 1
    return c


def counter_loop(n_limit: int, c0: int, body_len: int = 1, gate: str = "route", exit_node: bool = False, open_: bool = True, entry_at: int = 0, use_with_entrypoint: bool = False, name: str = "loop", exit_name: str = "done"):
    """T1-T4, T8: `while count < N: count = b_{L-1}(...b0(count))`, optional exit node."""
    L = body_len
    names = ["count"] + [f"x{i}" for i in range(1, L)] + ["count"]
    nodes = []
    for i in range(L):
        nodes.append({"k": "fn", "name": f"b{i}", "params": [{"n": names[i]}], "outs": [names[i + 1]], "beh": ["inc", names[i]]})
    exit_t = exit_name if exit_node else "END"
    if gate == "route":
        g = {"k": "route", "name": "gate", "params": [{"n": "count"}], "targets": ["b0", exit_t], "cond": ["lt", "count", n_limit], "then": "b0", "else": exit_t, "open": open_}
    else:
        g = {"k": "ifelse", "name": "gate", "params": [{"n": "count"}], "t": "b0", "f": exit_t, "cond": ["lt", "count", n_limit], "open": open_}
    nodes.append(g)
    if exit_node:
        nodes.append({"k": "fn", "name": exit_name, "params": [{"n": "count"}], "outs": ["result"], "beh": ["mark", "count", "done"]})
    spec = {"name": name, "nodes": nodes, "bind": {}}
    # ---- sequential reference ----
    trace = []
    if entry_at == 0:
        inputs = {"count": c0}
        c = c0
    else:
        # enter in the middle of the body: the rest of the first iteration runs first
        inputs = {names[entry_at]: c0}
        v = c0
        for i in range(entry_at, L):
            v = beh.apply(["inc", names[i]], {names[i]: v})
            trace.append((f"b{i}", {names[i + 1]: v}))
        c = v
        if use_with_entrypoint:
            spec["entry"] = [f"b{entry_at}"]
    while True:
        cont = c < n_limit
        trace.append(("gate", {}))
        if not cont:
            break
        v = c
        for i in range(L):
            v = beh.apply(["inc", names[i]], {names[i]: v})
            trace.append((f"b{i}", {names[i + 1]: v}))
        c = v
    if exit_node:
        trace.append((exit_name, {"result": ("done", c)}))
    vals = _fold(inputs, trace)
    if entry_at == 0 or True:
        # the provided entry value is a declared output name too (cycle parameter)
        for k, v in inputs.items():
            vals.setdefault(k, v)
    ref = {"trace": trace, "values": vals, "counts": _counts(trace), "singleton_steps": True, "steps": len(trace)}
    return {"spec": spec, "inputs": inputs, "ref": ref, "template": f"counter(L={L},{gate},exit={'node' if exit_node else 'END'},open={open_},entry={entry_at}{',with_entrypoint' if use_with_entrypoint else ''})"}


def accumulator_loop(n_limit: int, m0_len: int, gen_node: bool = False, gate: str = "route", name: str = "chat"):
    """T5: `while len(messages) < N: messages = acc(messages, generate(messages))` with a
    self-accumulating node; optional generator-function node in the body."""
    m0 = [("m", i) for i in range(m0_len)]
    nodes = [
        {"k": "fn", "name": "generate", "params": [{"n": "messages"}], "outs": ["response"], "beh": ["len", "messages"]},
        {"k": "fn", "name": "acc", "params": [{"n": "messages"}, {"n": "response"}], "outs": ["messages"], "beh": ["append", "messages", "response"]},
    ]
    if gate == "route":
        nodes.append({"k": "route", "name": "cont", "params": [{"n": "messages"}], "targets": ["generate", "END"], "cond": ["lenlt", "messages", n_limit], "then": "generate", "else": "END"})
    else:
        nodes.append({"k": "ifelse", "name": "cont", "params": [{"n": "messages"}], "t": "generate", "f": "END", "cond": ["lenlt", "messages", n_limit]})
    spec = {"name": name, "nodes": nodes, "bind": {}}
    inputs = {"messages": list(m0)}
    trace = []
    m = list(m0)
    while True:
        trace.append(("cont", {}))
        if not len(m) < n_limit:
            break
        r = len(m)
        trace.append(("generate", {"response": r}))
        m = m + [r]
        trace.append(("acc", {"messages": m}))
    vals = _fold(inputs, trace)
    vals.setdefault("messages", list(m0))
    ref = {"trace": trace, "values": vals, "counts": _counts(trace), "singleton_steps": True, "steps": len(trace)}
    return {"spec": spec, "inputs": inputs, "ref": ref, "template": f"accumulator({gate})"}


def signal_loop(n_limit: int, c0: int, kind: str = "counter", open_: bool = True, name: str = "sig", observers: int = 0):
    """T6: gate synchronised on an ordering signal emitted by the last body node.

    The gate cannot run before the signal exists, so a default-open body runs once
    first: `do: body; while cond`. With a closed-by-default gate nothing can start.
    """
    if kind == "counter":
        nodes = [
            {"k": "fn", "name": "step", "params": [{"n": "count"}], "outs": ["count"], "emit": ["done"], "beh": ["inc", "count"]},
            {"k": "route", "name": "gate", "params": [{"n": "count"}], "targets": ["step", "END"], "wait": ["done"], "cond": ["lt", "count", n_limit], "then": "step", "else": "END", "open": open_},
        ]
        inputs = {"count": c0}
        trace = []
        c = c0
        if open_:
            while True:
                c = c + 1
                trace.append(("step", {"count": c}))
                trace.append(("gate", {}))
                if not c < n_limit:
                    break
        vals = _fold(inputs, trace)
        vals.setdefault("count", c0)
    else:
        m0 = [("m", i) for i in range(c0)]
        nodes = [
            {"k": "fn", "name": "generate", "params": [{"n": "messages"}], "outs": ["response"], "beh": ["len", "messages"]},
            {"k": "fn", "name": "acc", "params": [{"n": "messages"}, {"n": "response"}], "outs": ["messages"], "emit": ["turn_done"], "beh": ["append", "messages", "response"]},
            {"k": "route", "name": "gate", "params": [{"n": "messages"}], "targets": ["generate", "END"], "wait": ["turn_done"], "cond": ["lenlt", "messages", n_limit], "then": "generate", "else": "END", "open": open_},
        ]
        inputs = {"messages": list(m0)}
        trace = []
        m = list(m0)
        if open_:
            while True:
                r = len(m)
                trace.append(("generate", {"response": r}))
                m = m + [r]
                trace.append(("acc", {"messages": m}))
                trace.append(("gate", {}))
                if not len(m) < n_limit:
                    break
        vals = _fold(inputs, trace)
        vals.setdefault("messages", list(m0))
    counts = _counts(trace)
    single = True
    if observers and kind == "counter":
        # extra waiters on the same signal: each runs once per production of the signal
        # (their data input, the counter, changes with every production)
        for i in range(observers):
            nodes.append({"k": "fn", "name": f"obs{i}", "params": [{"n": "count"}], "outs": [f"seen{i}"], "wait": ["done"], "beh": ["mark", "count", f"obs{i}"]})
            if counts.get("step"):
                counts[f"obs{i}"] = counts["step"]
                vals[f"seen{i}"] = (f"obs{i}", vals["count"])
        single = False
    spec = {"name": name, "nodes": nodes, "bind": {}}
    ref = {"trace": trace if single else None, "values": vals, "counts": counts, "singleton_steps": single, "steps": len(trace)}
    return {"spec": spec, "inputs": inputs, "ref": ref, "template": f"signal({kind},open={open_},observers={observers})"}


def lagged_signal_loop(n_limit: int, c0: int, gate: str = "route", name: str = "lag"):
    """The loop state the gate reads changes one step BEFORE the end-of-iteration signal is emitted:
    a(count)->tmp [the gate's target], b(tmp)->count, c(count)->log emitting 'done', gate(count) waiting for 'done'.
    Between the update of `count` and the signal the gate's previous decision is stale and must not let `a` start
    another pass. Sequential form (default-open gate: `a` runs once before any decision; `c` and the gate also see
    the seeded count once):  log = c(count); gate(count)  -- no effect, `a` is not stale --
                             do: tmp = a(count); count = b(tmp); log = c(count); while gate(count)."""
    nodes = [
        {"k": "fn", "name": "a", "params": [{"n": "count"}], "outs": ["tmp"], "beh": ["inc", "count"]},
        {"k": "fn", "name": "b", "params": [{"n": "tmp"}], "outs": ["count"], "beh": ["inc", "tmp"]},
        {"k": "fn", "name": "c", "params": [{"n": "count"}], "outs": ["log"], "emit": ["done"], "beh": ["mark", "count", "c"]},
    ]
    if gate == "route":
        nodes.append({"k": "route", "name": "gate", "params": [{"n": "count"}], "targets": ["a", "END"], "wait": ["done"], "cond": ["lt", "count", n_limit], "then": "a", "else": "END", "open": True})
    else:
        nodes.append({"k": "ifelse", "name": "gate", "params": [{"n": "count"}], "t": "a", "f": "END", "wait": ["done"], "cond": ["lt", "count", n_limit], "open": True})
    inputs = {"count": c0}
    trace = [("c", {"log": ("c", c0)}), ("gate", {})]
    c = c0
    while True:
        t = c + 1
        trace.append(("a", {"tmp": t}))
        c = t + 1
        trace.append(("b", {"count": c}))
        trace.append(("c", {"log": ("c", c)}))
        trace.append(("gate", {}))
        if not c < n_limit:
            break
    vals = _fold(inputs, trace)
    ref = {"trace": None, "values": vals, "counts": _counts(trace), "singleton_steps": False, "steps": len(trace)}
    return {"spec": {"name": name, "nodes": nodes, "bind": {}}, "inputs": inputs, "ref": ref, "template": f"lagged-signal({gate})"}


def early_read_signal_loop(limit: int, n0: int, gate: str = "route", name: str = "early"):
    """A turn of three stages whose gate reads what the FIRST stage writes and waits for the signal of the LAST one:
    write(n)->text, review(text)->rev, commit(rev, n)->n emitting 'done', gate(text) waiting for 'done'. The gate's data
    input changes two steps before the signal is produced again (and the signal's producer is not runnable in that
    step), so only the recorded 'signal already consumed' keeps the gate from deciding in mid-turn.
    `do: text = n + 1; rev = text + 1; n = n + 1; while text < limit`"""
    nodes = [
        {"k": "fn", "name": "write", "params": [{"n": "n"}], "outs": ["text"], "beh": ["inc", "n"]},
        {"k": "fn", "name": "review", "params": [{"n": "text"}], "outs": ["rev"], "beh": ["inc", "text"]},
        {"k": "fn", "name": "commit", "params": [{"n": "rev"}, {"n": "n"}], "outs": ["n"], "emit": ["done"], "beh": ["inc", "n"]},
    ]
    if gate == "route":
        nodes.append({"k": "route", "name": "gate", "params": [{"n": "text"}], "targets": ["write", "END"], "wait": ["done"], "cond": ["lt", "text", limit], "then": "write", "else": "END", "open": True})
    else:
        nodes.append({"k": "ifelse", "name": "gate", "params": [{"n": "text"}], "t": "write", "f": "END", "wait": ["done"], "cond": ["lt", "text", limit], "open": True})
    inputs = {"n": n0}
    trace = []
    n = n0
    while True:
        text = n + 1
        trace.append(("write", {"text": text}))
        rev = text + 1
        trace.append(("review", {"rev": rev}))
        n = n + 1
        trace.append(("commit", {"n": n}))
        trace.append(("gate", {}))
        if not text < limit:
            break
    vals = _fold(inputs, trace)
    ref = {"trace": trace, "values": vals, "counts": _counts(trace), "singleton_steps": True, "steps": len(trace)}
    return {"spec": {"name": name, "nodes": nodes, "bind": {}}, "inputs": inputs, "ref": ref, "template": f"early-read-signal({gate})"}


def two_signal_loop(n_limit: int, c0: int, watchers: int = 1, name: str = "twosig"):
    """`while count < N: tmp = a(count) [emits sa]; m = mid(tmp); count = b(m) [emits sb]` plus watchers that wait
    for BOTH signals: the two productions of an iteration land in different steps, and a watcher runs once per
    iteration, after the later one - never on the earlier signal alone with the other one already consumed."""
    nodes = [
        {"k": "route", "name": "gate", "params": [{"n": "count"}], "targets": ["a", "END"], "cond": ["lt", "count", n_limit], "then": "a", "else": "END", "open": True},
        {"k": "fn", "name": "a", "params": [{"n": "count"}], "outs": ["tmp"], "emit": ["sa"], "beh": ["inc", "count"]},
        {"k": "fn", "name": "mid", "params": [{"n": "tmp"}], "outs": ["m"], "beh": ["inc", "tmp"]},
        {"k": "fn", "name": "b", "params": [{"n": "m"}], "outs": ["count"], "emit": ["sb"], "beh": ["inc", "m"]},
    ]
    inputs = {"count": c0}
    trace = []
    c = c0
    while True:
        trace.append(("gate", {}))
        if not c < n_limit:
            break
        t = c + 1
        trace.append(("a", {"tmp": t}))
        m = t + 1
        trace.append(("mid", {"m": m}))
        c = m + 1
        trace.append(("b", {"count": c}))
    vals = _fold(inputs, trace)
    vals.setdefault("count", c0)
    counts = _counts(trace)
    iters = counts.get("b", 0)
    for j in range(watchers):
        # the watcher reads `tmp`, which goes stale when the EARLIER producer runs: it must still wait for the later signal
        nodes.append({"k": "fn", "name": f"w{j}", "params": [{"n": "tmp"}], "outs": [f"seen{j}"], "wait": ["sa", "sb"], "beh": ["mark", "tmp", f"w{j}"]})
        if iters:
            counts[f"w{j}"] = iters
            vals[f"seen{j}"] = (f"w{j}", vals["tmp"])
    ref = {"trace": None, "values": vals, "counts": counts, "singleton_steps": False, "steps": len(trace) + iters}
    return {"spec": {"name": name, "nodes": nodes, "bind": {}}, "inputs": inputs, "ref": ref, "template": f"two-signal(watchers={watchers})"}


def lagging_waiter_loop(limit: int, w_first: bool = True, name: str = "lagw"):
    """A producer P (emits `sig`) that runs in EVERY iteration and a waiter W (waits for `sig`) whose data input `j`
    changes only every second iteration: bump(data)->(i, j=i//2); P(i)->data [sig]; W(j)->out; cont(data) loops to
    bump.  When W goes stale again it already holds a signal it never consumed (from the iteration it sat out), and P
    is stale in the very same step: W must still start only after P completed for the current iteration."""
    W = {"k": "fn", "name": "W", "params": [{"n": "j"}], "outs": ["out"], "wait": ["sig"], "beh": ["id", "j"]}
    P = {"k": "fn", "name": "P", "params": [{"n": "i"}], "outs": ["data"], "emit": ["sig"], "beh": ["id", "i"]}
    bump = {"k": "fn", "name": "bump", "params": [{"n": "data"}], "outs": ["i", "j"], "beh": ["inc_half", "data"]}
    cont = {"k": "route", "name": "cont", "params": [{"n": "data"}], "targets": ["bump", "END"], "cond": ["ge", "data", limit], "then": "END", "else": "bump", "open": True}
    nodes = [W, P, bump, cont] if w_first else [P, bump, cont, W]
    return {"spec": {"name": name, "nodes": nodes, "bind": {}}, "inputs": {"i": 0}, "ref": None, "template": f"lagging-waiter(w_first={w_first})"}


def const_feed_loop(n_limit: int, c0: int, name: str = "cfeed"):
    """`while count < N: count += 1; one = const(count); total = acc(total, one)`: the accumulator is fed by a body
    node that produces an EQUAL value in every iteration. In the sequential loop it still runs once per iteration."""
    nodes = [
        {"k": "route", "name": "gate", "params": [{"n": "count"}], "targets": ["inc", "END"], "cond": ["lt", "count", n_limit], "then": "inc", "else": "END", "open": True},
        {"k": "fn", "name": "inc", "params": [{"n": "count"}], "outs": ["count"], "beh": ["inc", "count"]},
        {"k": "fn", "name": "const", "params": [{"n": "count"}], "outs": ["one"], "beh": ["const", 1]},
        {"k": "fn", "name": "acc", "params": [{"n": "total"}, {"n": "one"}], "outs": ["total"], "beh": ["sum", "total", "one"]},
    ]
    inputs = {"count": c0, "total": 0}
    trace = []
    c, total = c0, 0
    # `const` reads the seeded count, so it (and then `acc`) also runs once before the first decision takes effect
    trace.append(("const", {"one": 1}))
    total += 1
    trace.append(("acc", {"total": total}))
    while True:
        trace.append(("gate", {}))
        if not c < n_limit:
            break
        c += 1
        trace.append(("inc", {"count": c}))
        trace.append(("const", {"one": 1}))
        total += 1
        trace.append(("acc", {"total": total}))
    vals = _fold(inputs, trace)
    vals.setdefault("count", c0)
    ref = {"trace": None, "values": vals, "counts": _counts(trace), "singleton_steps": False, "steps": len(trace), "mechanism": "equal-value-reproduction"}
    return {"spec": {"name": name, "nodes": nodes, "bind": {}}, "inputs": inputs, "ref": ref, "template": "const-feed"}


def interval_loop(width: int, start: int, name: str = "ival"):
    """A gate synchronised on TWO signals that are emitted by parallel branches of different length:
    fast  raise_lo(n)->lo [lo_done];  slow  plan(n)->plan, review(plan)->approved, lower_hi(approved)->hi [hi_done];
    gate(lo, hi) waits for both and continues while hi > lo;  advance(lo)->n is its target.
    The gate must compare lo and hi of the SAME iteration (never the new lo with the previous hi)."""
    nodes = [
        {"k": "fn", "name": "raise_lo", "params": [{"n": "n"}], "outs": ["lo"], "emit": ["lo_done"], "beh": ["id", "n"]},
        {"k": "fn", "name": "plan", "params": [{"n": "n"}], "outs": ["plan"], "beh": ["rsubc", "n", width]},
        {"k": "fn", "name": "review", "params": [{"n": "plan"}], "outs": ["approved"], "beh": ["id", "plan"]},
        {"k": "fn", "name": "lower_hi", "params": [{"n": "approved"}], "outs": ["hi"], "emit": ["hi_done"], "beh": ["id", "approved"]},
        {"k": "route", "name": "gate", "params": [{"n": "lo"}, {"n": "hi"}], "targets": ["advance", "END"], "wait": ["lo_done", "hi_done"], "cond": ["gtp", "hi", "lo"], "then": "advance", "else": "END", "open": False},
        {"k": "fn", "name": "advance", "params": [{"n": "lo"}], "outs": ["n"], "beh": ["inc", "lo"]},
    ]
    inputs = {"n": start}
    trace = []
    n = start
    while True:
        lo, hi = n, width - n
        trace += [("raise_lo", {"lo": lo}), ("plan", {"plan": hi}), ("review", {"approved": hi}), ("lower_hi", {"hi": hi}), ("gate", {})]
        if not hi > lo:
            break
        n = lo + 1
        trace.append(("advance", {"n": n}))
    vals = _fold(inputs, trace)
    vals.setdefault("n", start)
    ref = {"trace": None, "values": vals, "counts": _counts(trace), "singleton_steps": False, "steps": len(trace)}
    return {"spec": {"name": name, "nodes": nodes, "bind": {}}, "inputs": inputs, "ref": ref, "template": f"interval(width={width})"}


def two_exit_loop(x0: int, goal: int, cap: int, gates_first: str = "conv", name: str = "twoexit"):
    """Two exit conditions that share ONE exit node: `conv(x)` routes to work|finish, `budget(y)` (ifelse) routes to
    finish|evaluate.  work(x)->y = x+3; evaluate(y)->x = y-1; finish(x)->result.  The exit node is a target of both
    gates: whichever gate ends the loop, the body runs as often as the gates dictate and the exit runs once."""
    work = {"k": "fn", "name": "work", "params": [{"n": "x"}], "outs": ["y"], "beh": ["addc", "x", 3]}
    evaluate = {"k": "fn", "name": "evaluate", "params": [{"n": "y"}], "outs": ["x"], "beh": ["addc", "y", -1]}
    finish = {"k": "fn", "name": "finish", "params": [{"n": "x"}], "outs": ["result"], "beh": ["mark", "x", "done"]}
    budget = {"k": "ifelse", "name": "budget", "params": [{"n": "y"}], "t": "finish", "f": "evaluate", "cond": ["ge", "y", cap + 1], "open": False}
    conv = {"k": "route", "name": "conv", "params": [{"n": "x"}], "targets": ["work", "finish"], "cond": ["ge", "x", goal], "then": "finish", "else": "work", "open": False}
    gates = [conv, budget] if gates_first == "conv" else [budget, conv]
    nodes = [work, evaluate, finish, *gates]
    inputs = {"x": x0}
    trace = []
    x = x0
    while True:
        trace.append(("conv", {}))
        if x >= goal:
            break
        y = x + 3
        trace.append(("work", {"y": y}))
        trace.append(("budget", {}))
        if y > cap:
            break
        x = y - 1
        trace.append(("evaluate", {"x": x}))
    trace.append(("finish", {"result": ("done", x)}))
    vals = _fold(inputs, trace)
    vals.setdefault("x", x0)
    ref = {"trace": None, "values": vals, "counts": _counts(trace), "singleton_steps": False, "steps": len(trace)}
    return {"spec": {"name": name, "nodes": nodes, "bind": {}}, "inputs": inputs, "ref": ref, "template": f"two_exit({gates_first})"}


def fanout_join_loop(n_limit: int, s0: int, exit_: str = "END", extra_input: bool = False, name: str = "fanjoin"):
    """A cycle with a fan-out and a join inside: `left(state)` and `right(state)` both read the loop state (two entry
    points with the same parameters), `join(l_out, r_out) -> state` closes the cycle (a third entry point with other
    parameters). A multi-target route selects both branches or leaves the loop.
    `while state < N: state = (state + 1) + (state + 2)`"""
    left = {"k": "fn", "name": "left", "params": [{"n": "state"}] + ([{"n": "scale"}] if extra_input else []), "outs": ["l_out"], "beh": ["inc", "state"]}
    right = {"k": "fn", "name": "right", "params": [{"n": "state"}], "outs": ["r_out"], "beh": ["addc", "state", 2]}
    join = {"k": "fn", "name": "join", "params": [{"n": "l_out"}, {"n": "r_out"}], "outs": ["state"], "beh": ["sum", "l_out", "r_out"]}
    stop = []  # a multi-target gate leaves the loop by selecting nothing
    gate = {"k": "route", "name": "again", "params": [{"n": "state"}], "targets": ["left", "right"], "multi": True, "cond": ["lt", "state", n_limit], "then": ["left", "right"], "else": stop, "open": True}
    nodes = [left, right, join, gate]
    inputs = {"state": s0}
    if extra_input:
        inputs["scale"] = 7
    trace = []
    s = s0
    while True:
        trace.append(("again", {}))
        if not s < n_limit:
            break
        l, r = s + 1, s + 2
        trace.append(("left", {"l_out": l}))
        trace.append(("right", {"r_out": r}))
        s = l + r
        trace.append(("join", {"state": s}))
    vals = _fold(inputs, trace)
    vals.setdefault("state", s0)
    ref = {"trace": None, "values": vals, "counts": _counts(trace), "singleton_steps": False, "steps": len(trace)}
    return {"spec": {"name": name, "nodes": nodes, "bind": {}}, "inputs": inputs, "ref": ref, "template": f"fanout_join(exit={exit_},extra={extra_input})"}


def fanout_join_pair_loop(n_limit: int, s0: int, name: str = "fanpair"):
    """The fan-out/join cycle over TWO loop values read by both branches in opposite parameter order:
    left(u, v)->l_out, right(v, u)->r_out, join(l_out, r_out)->(u, v). The two readers are interchangeable entry
    points - they need the same values, whatever the order of their parameters.
    `while u < N: l = u + 1; r = v + 2; u, v = l + r, l + r + 1`"""
    left = {"k": "fn", "name": "left", "params": [{"n": "u"}, {"n": "v"}], "outs": ["l_out"], "beh": ["inc", "u"]}
    right = {"k": "fn", "name": "right", "params": [{"n": "v"}, {"n": "u"}], "outs": ["r_out"], "beh": ["addc", "v", 2]}
    join = {"k": "fn", "name": "join", "params": [{"n": "l_out"}, {"n": "r_out"}], "outs": ["u", "v"], "beh": ["sum2", "l_out", "r_out"]}
    gate = {"k": "route", "name": "again", "params": [{"n": "u"}], "targets": ["left", "right"], "multi": True, "cond": ["lt", "u", n_limit], "then": ["left", "right"], "else": [], "open": True}
    inputs = {"u": s0, "v": s0 + 1}
    trace = []
    u, v = s0, s0 + 1
    while True:
        trace.append(("again", {}))
        if not u < n_limit:
            break
        l, r = u + 1, v + 2
        trace.append(("left", {"l_out": l}))
        trace.append(("right", {"r_out": r}))
        u, v = l + r, l + r + 1
        trace.append(("join", {"u": u, "v": v}))
    vals = _fold(inputs, trace)
    vals.setdefault("u", s0)
    vals.setdefault("v", s0 + 1)
    ref = {"trace": None, "values": vals, "counts": _counts(trace), "singleton_steps": False, "steps": len(trace)}
    return {"spec": {"name": name, "nodes": [left, right, join, gate], "bind": {}}, "inputs": inputs, "ref": ref, "template": "fanout_join_pair"}


def alternating_writers_loop(n_limit: int, c0: int, name: str = "altw"):
    """A counter cycle (tick / again) next to a second gate on the same counter whose EXCLUSIVE branches write the same
    name `v`, taking turns by parity, and which finally routes to an exit node:
    tick(n)->n = n+1;  again(n) -> tick | END;  pick(n) -> left | right | fin;  left(n)->v = n+100;  right(n)->v = n+200;
    fin(n)->result.  The writer that ran FIRST is not, in general, the one that wrote LAST (n0 odd: left, right, left)."""
    table = [("right" if j % 2 == 0 else "left") for j in range(max(n_limit, 1))] + ["fin"] * 4
    nodes = [
        {"k": "fn", "name": "tick", "params": [{"n": "n"}], "outs": ["n"], "beh": ["inc", "n"]},
        {"k": "route", "name": "again", "params": [{"n": "n"}], "targets": ["tick", "END"], "cond": ["lt", "n", n_limit], "then": "tick", "else": "END", "open": False},
        {"k": "route", "name": "pick", "params": [{"n": "n"}], "targets": ["left", "right", "fin"], "table": table[: max(n_limit, 1)] + ["fin"], "key": "n", "open": False},
        {"k": "fn", "name": "left", "params": [{"n": "n"}], "outs": ["v"], "beh": ["addc", "n", 100]},
        {"k": "fn", "name": "right", "params": [{"n": "n"}], "outs": ["v"], "beh": ["addc", "n", 200]},
        {"k": "fn", "name": "fin", "params": [{"n": "n"}], "outs": ["result"], "beh": ["mark", "n", "done"]},
    ]
    if n_limit <= 0:
        nodes[2]["table"] = ["fin"]
    c0 = min(c0, max(n_limit, 0))  # the table is indexed by the counter itself: start inside it
    inputs = {"n": c0}
    trace = []
    n = c0
    while True:
        trace.append(("again", {}))
        trace.append(("pick", {}))
        if n >= n_limit:
            break
        w = "right" if n % 2 == 0 else "left"
        trace.append((w, {"v": n + (200 if w == "right" else 100)}))
        n += 1
        trace.append(("tick", {"n": n}))
    trace.append(("fin", {"result": ("done", n)}))
    vals = _fold(inputs, trace)
    vals.setdefault("n", c0)
    ref = {"trace": None, "seq_trace": trace, "values": vals, "counts": _counts(trace), "singleton_steps": False, "steps": len(trace)}
    return {"spec": {"name": name, "nodes": nodes, "bind": {}}, "inputs": inputs, "ref": ref, "template": "alternating_writers"}


def nested_loop(n_limit: int, c0: int, body_len: int = 1, gate: str = "route", depth: int = 1):
    """T7: the counter loop wrapped as a nested graph inside a DAG: pre -> [loop] -> post."""
    inner = counter_loop(n_limit, c0 + 1, body_len, gate, name="inner")
    sub = {"k": "sub", "name": "inner", "prog": inner["spec"], "rename_in": [{"count": "start"}], "rename_out": [{"count": "final"}]}
    if body_len > 1:
        # intermediate loop values stay visible under their own names
        pass
    for d in range(1, depth):
        wrap = {"name": f"wrap{d}", "nodes": [sub], "bind": {}}
        sub = {"k": "sub", "name": f"wrap{d}", "prog": wrap}
    nodes = [
        {"k": "fn", "name": "pre", "params": [{"n": "seed"}], "outs": ["start"], "beh": ["inc", "seed"]},
        sub,
        {"k": "fn", "name": "post", "params": [{"n": "final"}], "outs": ["out"], "beh": ["mark", "final", "post"]},
    ]
    spec = {"name": "outer", "nodes": nodes, "bind": {}}
    inputs = {"seed": c0}
    iref = inner["ref"]
    final = iref["values"]["count"]
    vals = {"start": c0 + 1, "final": final, "out": ("post", final)}
    for k, v in iref["values"].items():
        if k != "count":
            vals[k] = v
    counts = {"pre": 1, "post": 1}
    rel = "/".join([f"wrap{d}" for d in range(depth - 1, 0, -1)] + ["inner"])
    for k, v in iref["counts"].items():
        counts[rel + "/" + k] = v
    ref = {"trace": None, "values": vals, "counts": counts, "singleton_steps": False, "steps": None, "inner_steps": iref["steps"]}
    return {"spec": spec, "inputs": inputs, "ref": ref, "template": f"nested(depth={depth},L={body_len},{gate})", "fid_prefix": "/".join(["outer"] + [f"wrap{d}" for d in range(depth - 1, 0, -1)] + ["inner"])}


def systematic_templates(N: int) -> list:
    """One instance of every loop template for a given size (the directed part of the loop workloads)."""
    return [
        counter_loop(N, 0, 1, "route"),
        counter_loop(N, 1, 2, "ifelse", True),
        counter_loop(N, 0, 1, "route", True, exit_name="b0_done"),
        accumulator_loop(N, 0),
        signal_loop(N, 0, "counter"),
        signal_loop(N, 1, "chat"),
        signal_loop(N, 0, "counter", True, observers=2),
        nested_loop(N, 0, 1, "route", 1),
        two_acc_loop(N, 0),
        lagged_signal_loop(N, N % 3),
        lagged_signal_loop(N, 0, "ifelse"),
        const_feed_loop(N, N % 2),
        interval_loop(2 * N + 1, N % 3),
        two_exit_loop(N % 2, 100, 2 * N + 1, "conv"),
        two_exit_loop(0, 2 * N, 100, "budget"),
        two_signal_loop(3 * N, N % 2, 1),
        fanout_join_loop(4 * N, N % 2, "empty"),
        early_read_signal_loop(N, 0, "route"),
        early_read_signal_loop(N + 1, 1, "ifelse"),
        fanout_join_pair_loop(5 * N, N % 2),
        fanout_join_loop(4 * N, 0, "empty", True),
        alternating_writers_loop(N + 2, 1),
        alternating_writers_loop(N + 1, 0),
    ]


def gen_loop(rng):
    """Random template instance."""
    t = rng.choice(["counter", "counter", "counter", "acc", "signal", "signal", "nested", "entry", "twoacc", "lagged"])
    n = rng.randint(0, 7)
    c0 = rng.randint(0, 3)
    if rng.random() < 0.08:
        return two_exit_loop(rng.randint(0, 3), rng.choice([0, 2, 6, 9, 100]), rng.choice([3, 5, 8, 100]), rng.choice(["conv", "budget"]))
    if rng.random() < 0.08:
        return interval_loop(rng.randint(2, 12), rng.randint(0, 4))
    if rng.random() < 0.08:
        return fanout_join_loop(rng.randint(0, 30), rng.randint(0, 3), "empty", rng.random() < 0.4)
    if rng.random() < 0.08:
        return alternating_writers_loop(rng.randint(0, 7), rng.randint(0, 2))
    if t == "lagged":
        if rng.random() < 0.4:
            return early_read_signal_loop(n, c0, rng.choice(["route", "ifelse"]))
        return lagged_signal_loop(n, c0, rng.choice(["route", "ifelse"]))
    if t == "counter":
        # exit node names that merely EXTEND the body node's name (a decision must be matched as a whole name)
        return counter_loop(n, c0, rng.randint(1, 3), rng.choice(["route", "ifelse"]), rng.random() < 0.5, rng.random() < 0.7, exit_name=rng.choice(["done", "b0_done", "b0x"]))
    if t == "twoacc":
        return two_acc_loop(n, c0)
    if t == "acc":
        return accumulator_loop(n, c0, gate=rng.choice(["route", "ifelse"]))
    if t == "signal":
        return signal_loop(n, c0, rng.choice(["counter", "chat"]), rng.random() < 0.85, observers=rng.choice([0, 0, 1, 2]))
    if t == "nested":
        # body length 1 only: a nested cyclic graph with several entry points exposes all of
        # their parameters as wrapper inputs (examined under C08, not here)
        return nested_loop(n, c0, 1, rng.choice(["route", "ifelse"]), rng.randint(1, 3))
    L = rng.randint(2, 3)
    return counter_loop(n, c0, L, rng.choice(["route", "ifelse"]), rng.random() < 0.4, True, entry_at=rng.randint(1, L - 1), use_with_entrypoint=rng.random() < 0.5, exit_name=rng.choice(["done", "b0_done"]))


def seeded_wait(n_waiters: int = 1, name: str = "seedw"):
    """A self-accumulating producer whose (cycle) input is seeded by the caller, and
    waiters on that value name: producer and waiters are runnable together in the
    first step, the waiters must still come strictly after the producer."""
    nodes = [{"k": "fn", "name": "acc", "params": [{"n": "messages"}, {"n": "item"}], "outs": ["messages"], "beh": ["append", "messages", "item"]}]
    vals = {"messages": [("m", 0), 7]}
    counts = {"acc": 1}
    for i in range(n_waiters):
        nodes.append({"k": "fn", "name": f"w{i}", "params": [{"n": "q"}], "outs": [f"seen{i}"], "wait": ["messages"], "beh": ["mark", "q", f"w{i}"]})
        vals[f"seen{i}"] = (f"w{i}", 5)
        counts[f"w{i}"] = 1
    spec = {"name": name, "nodes": nodes, "bind": {}}
    inputs = {"messages": [("m", 0)], "item": 7, "q": 5}
    ref = {"trace": None, "values": vals, "counts": counts, "singleton_steps": False, "steps": 2}
    return {"spec": spec, "inputs": inputs, "ref": ref, "template": f"seeded-wait(waiters={n_waiters})"}


def once_signal_loop(n_limit: int, c0: int, name: str = "once"):
    """A counter loop plus a waiter on a signal that is produced exactly once (by an
    init node outside the loop) while the waiter's data input changes every
    iteration: the waiter runs once and never again."""
    t = counter_loop(n_limit, c0, 1, "route", name=name)
    spec = t["spec"]
    spec["nodes"].append({"k": "fn", "name": "init", "params": [{"n": "seed"}], "outs": ["aux"], "emit": ["ready"], "beh": ["inc", "seed"]})
    spec["nodes"].append({"k": "fn", "name": "obs", "params": [{"n": "count"}], "outs": ["seen"], "wait": ["ready"], "beh": ["mark", "count", "obs"]})
    inputs = dict(t["inputs"])
    inputs["seed"] = 0
    R = t["ref"]
    vals = dict(R["values"])
    vals["aux"] = 1
    vals["seen"] = ("obs", c0)
    counts = dict(R["counts"])
    counts["init"] = 1
    counts["obs"] = 1
    ref = {"trace": None, "values": vals, "counts": counts, "singleton_steps": False, "steps": None}
    return {"spec": spec, "inputs": inputs, "ref": ref, "template": f"once-signal(N={n_limit},c0={c0})"}


def two_acc_loop(n_limit: int, m0_len: int, name: str = "twoacc"):
    """Two ungated accumulators writing the same value in one iteration, ordered by an
    ordering signal: while len(m) < N { q = ask(m); m = add_q(m, q); r = reply(q); m = add_r(m, r) }.
    The gate re-evaluates after each of the two writes; the mid-turn decision is
    superseded before its target can act on it, so only body counts are prescribed."""
    m0 = [("m", i) for i in range(m0_len)]
    nodes = [
        {"k": "fn", "name": "ask", "params": [{"n": "messages"}], "outs": ["query"], "beh": ["len", "messages"]},
        {"k": "fn", "name": "add_q", "params": [{"n": "messages"}, {"n": "query"}], "outs": ["messages"], "emit": ["q_done"], "beh": ["append", "messages", "query"]},
        {"k": "fn", "name": "reply", "params": [{"n": "query"}], "outs": ["response"], "beh": ["mark", "query", "r"]},
        {"k": "fn", "name": "add_r", "params": [{"n": "messages"}, {"n": "response"}], "outs": ["messages"], "wait": ["q_done"], "beh": ["append", "messages", "response"]},
        {"k": "route", "name": "cont", "params": [{"n": "messages"}], "targets": ["ask", "END"], "cond": ["lenlt", "messages", n_limit], "then": "ask", "else": "END"},
    ]
    spec = {"name": name, "nodes": nodes, "bind": {}}
    inputs = {"messages": list(m0)}
    trace = []
    m = list(m0)
    while len(m) < n_limit:
        q = len(m)
        trace.append(("ask", {"query": q}))
        m = m + [q]
        trace.append(("add_q", {"messages": m}))
        r = ("r", q)
        trace.append(("reply", {"response": r}))
        m = m + [r]
        trace.append(("add_r", {"messages": m}))
    vals = _fold(inputs, trace)
    vals.setdefault("messages", list(m0))
    ref = {"trace": None, "values": vals, "counts": _counts(trace), "singleton_steps": False, "steps": None, "uncounted": ["cont"]}
    return {"spec": spec, "inputs": inputs, "ref": ref, "template": "two-accumulators"}
