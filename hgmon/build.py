"""Builder: program spec (JSON-able dicts) -> real hypergraph objects, through the
public API only. Registers each generated function's behaviour in hgmon.rt.

Spec (see DESIGN.md section 3):
  Program {name, nodes:[...], bind:{}, select:[..]|None, entry:[..]|None, strict:bool}
  Fn      {k:'fn', name, params:[{n, d?}], outs:[..], emit:[..], wait:[..], cache, async, gen, src,
           rename_in:[{old:new}...], rename_out:[{old:new}...], rename_name: str?}
  IfElse  {k:'ifelse', name, params, t, f, open, table:[bool..], key: param used as selector, cache, emit, wait}
  Route   {k:'route', name, params, targets:[..|'END'], multi, fallback, open, table:[decision..], key, cache, emit, wait}
  Int     {k:'int', name, params, outs, handler: 'pause' | ['auto', value]}
  Sub     {k:'sub', name, prog, rename_in:[..], rename_out:[..], map:{over, mode, err, clone}?}
"""

from __future__ import annotations

from typing import Any

from hgmon import rt

END_TOKEN = "END"


def fid_of(path: str, name: str) -> str:
    return f"{path}/{name}" if path else name


class Built:
    def __init__(self, graph, spec, path):
        self.graph = graph
        self.spec = spec
        self.path = path
        self.nodes: dict[str, Any] = {}  # spec node name -> hypergraph node (before graph-level ops)
        self.subs: dict[str, "Built"] = {}


def _decision_value(d):
    from hypergraph import END

    if d == END_TOKEN:
        return END
    if isinstance(d, list):
        return [END if x == END_TOKEN else x for x in d]
    return d


def _mk_fn_behaviour(fid, ns):
    n_out = len(ns.get("outs", []))
    gen = bool(ns.get("gen"))
    if ns.get("beh"):
        from hgmon import beh as _b

        b = ns["beh"]
        return lambda kw, _bb=b: _b.apply(_bb, kw)

    if ns.get("none_out") and n_out == 1 and not gen:
        # the node's result IS the value None (a lookup that found nothing): a value like any other
        return lambda kw: None

    if ns.get("uncopyable") and n_out == 1 and not gen:
        # the output is a value that cannot be copied or pickled; equal to the ordinary term in every other respect
        return lambda kw, _fid=fid: rt.UTerm(rt.term(_fid, kw, 1, False))

    def beh(kw, _fid=fid, _n=n_out, _gen=gen):
        return rt.term(_fid, kw, _n, _gen)

    return beh


def _mk_gate_behaviour(ns):
    if ns.get("cond"):
        from hgmon import beh as _b

        c, kind = ns["cond"], ns["k"]
        th, el = ns.get("then"), ns.get("else")

        def cbeh(kw):
            r = _b.cond(c, kw)
            if kind == "ifelse":
                return bool(r)
            return _decision_value(th if r else el)

        return cbeh
    table = ns["table"]
    key = ns.get("key") or (ns["params"][0]["n"] if ns["params"] else None)
    kind = ns["k"]

    def beh(kw, _table=table, _key=key, _kind=kind):
        s = rt.sel(kw[_key]) if _key is not None else 0
        d = _table[s % len(_table)]
        if _kind == "ifelse":
            return bool(d)
        return _decision_value(d)

    return beh


def _mk_int_behaviour(ns):
    handler = ns.get("handler", "pause")

    def beh(kw, _h=handler):
        if _h == "pause":
            return None
        return _h[1]

    return beh


WARM = [False]


def _warm_node(node) -> None:
    from hypergraph import Graph

    try:
        Graph([node], name="warmup")
        node.inputs, node.outputs, node.definition_hash
        for p in node.inputs:
            node.has_default_for(p)
            node.get_input_type(p)
        if hasattr(node, "map_inputs_to_params"):
            node.map_inputs_to_params({p: None for p in node.inputs})
    except Exception:  # noqa: BLE001 - warm-up only
        pass


def apply_renames(node, ns):
    if WARM[0]:
        _warm_node(node)
    for batch in ns.get("rename_in", []) or []:
        node = node.with_inputs(dict(batch))
        if WARM[0]:
            _warm_node(node)
    for batch in ns.get("rename_out", []) or []:
        node = node.with_outputs(dict(batch))
        if WARM[0]:
            _warm_node(node)
    if ns.get("rename_name"):
        node = node.with_name(ns["rename_name"])
    return node


def build_node(ns: dict, path: str, built: Built, *, src_toggle=[0]):
    from hypergraph import END, FunctionNode, IfElseNode, InterruptNode, RouteNode

    k = ns["k"]
    name = ns["name"]
    fid = ns.get("fid") or fid_of(path, name)
    if k == "sub":
        was_warm = WARM[0]
        sub = build_program(ns["prog"], path=fid_of(path, name), warm_inputs=({} if was_warm else None))
        WARM[0] = was_warm
        built.subs[name] = sub
        node = sub.graph.as_node(name=name) if ns.get("as_name", True) else sub.graph.as_node()
        m = ns.get("map")
        batches = list(ns.get("rename_in") or [])
        if m and "at" in m and m["at"] < len(batches):
            # map_over is called after the first m["at"] rename batches, the remaining batches rename the MAPPING node;
            # m["over"] / a clone list are written in the final external names, as everywhere in the spec
            names0 = list(node.inputs)

            def fwd(bs):
                cur = {n: n for n in names0}
                for b in bs:
                    cur = {o: b.get(c, c) for o, c in cur.items()}
                return cur

            final_inv = {v: k for k, v in fwd(batches).items()}
            at_map = fwd(batches[: m["at"]])
            node = apply_renames(node, {"rename_in": batches[: m["at"]]})
            clone = m.get("clone", False)
            if isinstance(clone, list):
                clone = [at_map[final_inv[c]] for c in clone]
            node = node.map_over(*[at_map[final_inv[e]] for e in m["over"]], mode=m.get("mode", "zip"), error_handling=m.get("err", "raise"), clone=clone)
            return apply_renames(node, {**ns, "rename_in": batches[m["at"] :]})
        node = apply_renames(node, ns)
        if m and WARM[0]:
            _warm_node(node)
        if m:
            node = node.map_over(*m["over"], mode=m.get("mode", "zip"), error_handling=m.get("err", "raise"), clone=m.get("clone", False))
        return node
    params = ns.get("params", [])
    import zlib

    # half of the functions have retrievable source (source-hash branch of hash_definition),
    # half not (bytecode branch); decided by the function identity so that rebuilding a spec
    # yields functions with identical definition hashes
    with_source = ns.get("src", zlib.crc32(fid.encode()) % 2 == 0)
    shared = ns.get("shared_fn")  # reuse a function object built earlier (C09)
    if shared is not None and shared in built.shared_fns:
        fn = built.shared_fns[shared]
        fid = fn.__hgmon_fid__
    else:
        fn = rt.make_function(
            ns.get("pyname", name),
            fid,
            params,
            is_async=("coro" if ns.get("async") == "coro" and k == "fn" else bool(ns.get("async")) and k in ("fn", "int")),
            is_gen=bool(ns.get("gen")),
            with_source=with_source,
            ret_ann=ns.get("ret_ann"),
        )
        if shared is not None:
            built.shared_fns[shared] = fn
    emit = tuple(ns.get("emit", [])) or None
    wait = tuple(ns.get("wait", [])) or None
    # half of the nodes are made the way users make them - through the decorators (@node, @ifelse, @route,
    # @interrupt) - the other half through the node classes; decided by the function identity (stable across rebuilds)
    deco = fn.__name__ == name and zlib.crc32(("deco:" + fid).encode()) % 2 == 0
    if k == "fn":
        rt.KIND[fid] = "fn"
        if fid not in rt.BEH:
            rt.BEH[fid] = _mk_fn_behaviour(fid, ns)
        outs = ns.get("outs", [])
        output_name = None if not outs else (outs[0] if len(outs) == 1 else tuple(outs))
        if deco:
            from hypergraph import node as node_deco

            node = node_deco(output_name=output_name, cache=bool(ns.get("cache")), emit=emit, wait_for=wait)(fn)
        else:
            node = FunctionNode(fn, name=name, output_name=output_name, cache=bool(ns.get("cache")), emit=emit, wait_for=wait)
    elif k == "ifelse":
        rt.KIND[fid] = "gate"
        rt.BEH[fid] = _mk_gate_behaviour(ns)
        t = END if ns["t"] == END_TOKEN else ns["t"]
        f = END if ns["f"] == END_TOKEN else ns["f"]
        if deco:
            from hypergraph import ifelse as ifelse_deco

            node = ifelse_deco(when_true=t, when_false=f, cache=bool(ns.get("cache")), default_open=ns.get("open", True), name=name, emit=emit, wait_for=wait)(fn)
        else:
            node = IfElseNode(fn, when_true=t, when_false=f, cache=bool(ns.get("cache")), default_open=ns.get("open", True), name=name, emit=emit, wait_for=wait)
    elif k == "route":
        rt.KIND[fid] = "gate"
        rt.BEH[fid] = _mk_gate_behaviour(ns)
        targets = [END if t == END_TOKEN else t for t in ns["targets"]]
        fb = ns.get("fallback")
        fb = END if fb == END_TOKEN else fb
        rkw = dict(targets=targets, fallback=fb, multi_target=bool(ns.get("multi")), cache=bool(ns.get("cache")), default_open=ns.get("open", True), name=name, emit=emit, wait_for=wait)
        if deco:
            from hypergraph import route as route_deco

            node = route_deco(**rkw)(fn)
        else:
            node = RouteNode(fn, **rkw)
    elif k == "int":
        rt.KIND[fid] = "int-async" if ns.get("async") else "int"
        rt.BEH[fid] = _mk_int_behaviour(ns)
        outs = ns["outs"]
        output_name = outs[0] if len(outs) == 1 else tuple(outs)
        if deco:
            from hypergraph import interrupt as interrupt_deco

            node = interrupt_deco(output_name=output_name, emit=emit, wait_for=wait)(fn)
        else:
            node = InterruptNode(fn, name=name, output_name=output_name, emit=emit, wait_for=wait)
    else:
        raise ValueError(k)
    built.fids[name] = fid
    return apply_renames(node, ns)


def _warm_run(g, inputs) -> None:
    """Use an object before deriving from it: lazily computed state (cached properties,
    memo tables) gets filled, so that a derivation that forgets to invalidate it shows."""
    import asyncio

    from hypergraph import AsyncRunner

    saved = rt.CUR
    rt.CUR = rt.Rec()
    saved_sched = rt.SCHED
    rt.SCHED = None
    try:
        for attr in ("inputs", "controlled_by", "self_producers", "definition_hash", "outputs"):
            getattr(g, attr, None)
        import warnings

        with warnings.catch_warnings():
            warnings.simplefilter("ignore")
            try:
                asyncio.run(AsyncRunner().run(g, dict(inputs), error_handling="continue", max_iterations=50))
            except BaseException:  # noqa: BLE001 - warm-up only
                pass
    finally:
        rt.CUR = saved
        rt.SCHED = saved_sched


def build_program(spec: dict, path: str | None = None, warm_inputs: dict | None = None) -> Built:
    """Build the Graph of a program spec (recursively for nested programs).

    warm_inputs: when given, every object is *used* before anything is derived from
    it (nodes are placed in a throw-away graph before being renamed/mapped; the base
    graph is run once before bind/with_entrypoint/select are applied)."""
    from hypergraph import Graph

    path = spec["name"] if path is None else path
    built = Built(None, spec, path)
    built.fids = {}
    built.shared_fns = {}
    nodes = []
    WARM[0] = warm_inputs is not None
    for ns in spec["nodes"]:
        n = build_node(ns, path, built)
        built.nodes[ns["name"]] = n
        nodes.append(n)
    kw = {}
    if spec.get("edges") is not None:
        kw["edges"] = [tuple(e) for e in spec["edges"]]
    g = Graph(nodes, name=spec["name"], strict_types=bool(spec.get("strict")), **kw)
    if warm_inputs is not None:
        wi = dict(spec.get("bind") or {})
        wi.update(warm_inputs)
        _warm_run(g, wi)
    if spec.get("bind"):
        g = g.bind(**spec["bind"])
    if spec.get("entry"):
        g = g.with_entrypoint(*spec["entry"])
    if spec.get("select"):
        g = g.select(*spec["select"])
    built.graph = g
    return built


def all_fids(spec: dict, path: str | None = None) -> dict[str, dict]:
    """fid -> node spec for every leaf callable of a program (recursively)."""
    path = spec["name"] if path is None else path
    out = {}
    for ns in spec["nodes"]:
        if ns["k"] == "sub":
            out.update(all_fids(ns["prog"], fid_of(path, ns["name"])))
        else:
            out[ns.get("fid") or fid_of(path, ns["name"])] = ns
    return out
