"""Runtime side of the monitors: the unified ordered log (CallLog + StepTrace +
EventLog), generated node functions, the controlled asyncio scheduler and the
taps that are rebound from the harness (no edit to the repository).

Everything that is observed during one execution goes, in order, into one
``Rec`` so that oracles can reason about relative order of calls, steps and
events without trusting any clock.
"""

from __future__ import annotations

import asyncio
import sys
import contextvars
import itertools
import linecache
import threading
import zlib
from typing import Any

# --------------------------------------------------------------------------
# Unified log
# --------------------------------------------------------------------------


class Rec:
    """Ordered log of one execution (or one history of executions)."""

    __slots__ = ("ev", "inflight", "max_inflight", "lock", "inflight_fn", "max_inflight_fn")

    def __init__(self, lock: bool = False):
        self.ev: list[tuple] = []
        self.inflight = 0
        self.max_inflight = 0
        self.inflight_fn = 0  # function-node bodies only (C15)
        self.max_inflight_fn = 0
        self.lock = threading.Lock() if lock else None

    def add(self, *t) -> int:
        if self.lock is None:
            self.ev.append(t)
            return len(self.ev) - 1
        with self.lock:
            self.ev.append(t)
            return len(self.ev) - 1

    # -- call log ---------------------------------------------------------
    def enter(self, fid: str, kw: dict) -> None:
        counted = KIND.get(fid, "fn") in ("fn", "int-async")
        if self.lock is None:
            self.inflight += 1
            self.max_inflight = max(self.max_inflight, self.inflight)
            if counted:
                self.inflight_fn += 1
                self.max_inflight_fn = max(self.max_inflight_fn, self.inflight_fn)
            self.ev.append(("enter", fid, dict(kw), RUN.get(), TAG.get(), self.inflight_fn))
        else:
            with self.lock:
                self.inflight += 1
                self.max_inflight = max(self.max_inflight, self.inflight)
                if counted:
                    self.inflight_fn += 1
                    self.max_inflight_fn = max(self.max_inflight_fn, self.inflight_fn)
                self.ev.append(("enter", fid, dict(kw), RUN.get(), TAG.get(), self.inflight_fn))

    def leave(self, what: str, fid: str, payload: Any) -> None:
        counted = KIND.get(fid, "fn") in ("fn", "int-async")
        if self.lock is None:
            self.inflight -= 1
            if counted:
                self.inflight_fn -= 1
            self.ev.append((what, fid, payload, RUN.get(), TAG.get()))
        else:
            with self.lock:
                self.inflight -= 1
                if counted:
                    self.inflight_fn -= 1
                self.ev.append((what, fid, payload, RUN.get(), TAG.get()))

    # -- queries ----------------------------------------------------------
    def calls(self, fid: str | None = None) -> list[tuple]:
        return [e for e in self.ev if e[0] == "enter" and (fid is None or e[1] == fid)]

    def count(self, what: str) -> int:
        return sum(1 for e in self.ev if e[0] == what)

    def invocations(self) -> dict[str, list[dict]]:
        out: dict[str, list[dict]] = {}
        for e in self.ev:
            if e[0] == "enter":
                out.setdefault(e[1], []).append(e[2])
        return out


CUR: Rec = Rec()
RUN: contextvars.ContextVar = contextvars.ContextVar("hgmon_run", default=None)
TAG: contextvars.ContextVar = contextvars.ContextVar("hgmon_tag", default=None)

BEH: dict[str, Any] = {}  # fid -> callable(kwargs) -> result
FAIL: dict[str, BaseException] = {}  # fid -> exception object to raise
KIND: dict[str, str] = {}  # fid -> "fn" | "gate" | "int" | "int-async" (a handler coroutine: a body like a function node's)
HOOK: dict[str, Any] = {}  # fid -> callable(kwargs) run at enter (mutation workloads)
SCHED: "Sched | None" = None
_run_counter = itertools.count(1)

TAP_COUNT = {"ready": 0, "run": 0}


def new_rec(lock: bool = False) -> Rec:
    global CUR
    CUR = Rec(lock)
    return CUR


def reset_program() -> None:
    BEH.clear()
    FAIL.clear()
    FAIL_IF.clear()
    KIND.clear()
    HOOK.clear()


# --------------------------------------------------------------------------
# Symbolic values
# --------------------------------------------------------------------------


def term(fid: str, kw: dict, n_out: int = 1, gen: bool = False):
    """The value a generated function returns: it names its whole computation."""
    args = tuple(sorted(kw.items(), key=lambda kv: kv[0]))
    if n_out == 0:
        return None
    if gen:
        return [(f"{fid}@{i}", args) for i in range(2)]
    if n_out == 1:
        return (fid, args)
    return tuple((f"{fid}#{i}", args) for i in range(n_out))


class UTerm(tuple):
    """A term that cannot be copied or pickled (stands for a value owning a lock, socket, client, generator ...).
    It equals, hashes and prints like the plain tuple; only copy.copy / copy.deepcopy / pickle refuse it."""

    __slots__ = ()

    def __deepcopy__(self, memo):
        raise TypeError("cannot pickle '_thread.lock' object")

    def __copy__(self):
        raise TypeError("cannot pickle '_thread.lock' object")

    def __reduce_ex__(self, protocol):
        raise TypeError("cannot pickle '_thread.lock' object")


def sel(v: Any) -> int:
    """Deterministic integer selector of any value (hash-seed independent)."""
    if isinstance(v, bool):
        return int(v)
    if isinstance(v, int):
        return v
    return zlib.crc32(repr(v).encode())


# --------------------------------------------------------------------------
# Entry points called from generated function bodies
# --------------------------------------------------------------------------


SENTINEL = None  # hypergraph's emit sentinel object (set by install_taps)


class _Emit:
    """Harness-side stand-in for the ordering sentinel inside recorded arguments and terms."""

    def __repr__(self):
        return "<EMIT>"

    def __reduce__(self):
        return (_get_emit, ())


def _get_emit():
    return EMIT


EMIT = _Emit()


def _norm(kw: dict) -> dict:
    s = SENTINEL
    if s is not None:
        for v in kw.values():
            if v is s:
                return {k: (EMIT if x is s else x) for k, x in kw.items()}
    return kw


FAIL_IF: dict[str, Any] = {}  # fid -> (predicate(kwargs) -> bool, exception object)


def _body(fid: str, kw: dict):
    h = HOOK.get(fid)
    if h is not None:
        h(kw)
    exc = FAIL.get(fid)
    if exc is not None:
        raise exc
    fi = FAIL_IF.get(fid)
    if fi is not None and fi[0](kw):
        raise fi[1]
    return BEH[fid](kw)


def call(fid: str, kw: dict):
    rec = CUR
    kw = _norm(kw)
    rec.enter(fid, kw)
    try:
        res = _body(fid, kw)
    except BaseException as e:  # noqa: BLE001 - recorded and re-raised
        rec.leave("raise", fid, e)
        raise
    rec.leave("exit", fid, res)
    return res


async def acall(fid: str, kw: dict):
    rec = CUR
    kw = _norm(kw)
    rec.enter(fid, kw)
    try:
        s = SCHED
        if s is not None:
            await s.checkpoint(fid)
        res = _body(fid, kw)
    except BaseException as e:  # noqa: BLE001
        rec.leave("raise", fid, e)
        raise
    rec.leave("exit", fid, res)
    return res


def gcall(fid: str, kw: dict):
    rec = CUR
    kw = _norm(kw)
    rec.enter(fid, kw)
    try:
        res = _body(fid, kw)
        items = list(res)
    except BaseException as e:  # noqa: BLE001
        rec.leave("raise", fid, e)
        raise
    yield from items
    rec.leave("exit", fid, items)


async def agcall(fid: str, kw: dict):
    rec = CUR
    kw = _norm(kw)
    rec.enter(fid, kw)
    try:
        s = SCHED
        if s is not None:
            await s.checkpoint(fid)
        res = _body(fid, kw)
        items = list(res)
    except BaseException as e:  # noqa: BLE001
        rec.leave("raise", fid, e)
        raise
    for it in items:
        yield it
    rec.leave("exit", fid, items)


# --------------------------------------------------------------------------
# Function factory
# --------------------------------------------------------------------------

_fn_counter = itertools.count()


def make_function(
    pyname: str,
    fid: str,
    params: list[dict],
    *,
    is_async: bool = False,
    is_gen: bool = False,
    ret_ann: Any = None,
    with_source: bool = False,
):
    """Create a real Python function with the exact signature.

    params: [{"n": name, "d": default (optional key), "ann": annotation object (optional key)}]
    Half of the functions are registered in linecache (with_source) so that
    inspect.getsource succeeds (source-hash branch of hash_definition), the
    others take the bytecode branch.
    """
    import hgmon.rt as rtmod

    ns: dict[str, Any] = {"__rt": rtmod}
    sig = []
    for p in params:
        n = p["n"]
        s = n
        if "ann" in p:
            ns[f"__a_{n}"] = p["ann"]
            s += f": __a_{n}"
        if "d" in p:
            ns[f"__d_{n}"] = p["d"]
            s += f" = __d_{n}"
        sig.append(s)
    # a parameter without default after one with default is only legal keyword-only
    seen_default = False
    for i, p in enumerate(params):
        if "d" in p:
            seen_default = True
        elif seen_default:
            first = next(j for j, q in enumerate(params) if "d" in q)
            sig.insert(first, "*")
            break
    kw = "{" + ", ".join(f"{p['n']!r}: {p['n']}" for p in params) + "}"
    ret = ""
    if ret_ann is not None:
        ns["__r"] = ret_ann
        ret = " -> __r"
    if is_async == "coro" and not is_gen:
        # a plain `def` that RETURNS a coroutine (an async function behind a non-async decorator or wrapper): not a
        # coroutine function for inspect, yet its body suspends like one when the async runner awaits the result
        body = f"    return __rt.acall({fid!r}, {kw})\n"
        is_async = False
    elif is_async and is_gen:
        body = f"    async for __x in __rt.agcall({fid!r}, {kw}):\n        yield __x\n"
    elif is_async:
        body = f"    return await __rt.acall({fid!r}, {kw})\n"
    elif is_gen:
        body = f"    yield from __rt.gcall({fid!r}, {kw})\n"
    else:
        body = f"    return __rt.call({fid!r}, {kw})\n"
    src = f"{'async ' if is_async else ''}def {pyname}({', '.join(sig)}){ret}:\n{body}"
    filename = f"<hgmon-{next(_fn_counter)}-{pyname}>"
    code = compile(src, filename, "exec")
    if with_source:
        linecache.cache[filename] = (len(src), None, src.splitlines(True), filename)
    exec(code, ns)  # noqa: S102 - generated source, ours
    fn = ns[pyname]
    fn.__hgmon_fid__ = fid
    return fn


# --------------------------------------------------------------------------
# Controlled scheduler
# --------------------------------------------------------------------------


class Deadlock(Exception):
    pass


class Inconclusive(Exception):
    pass


class Sched:
    """Parks async node bodies and releases them one at a time at quiescence.

    choices: forced prefix of choice indices; beyond it ``default`` decides
    ("first", "last" or a random.Random instance). ``trace`` records
    (parked_count, chosen_index, chosen_fid) per release.
    """

    def __init__(self, choices=(), default="first", rng=None, max_passes=400_000, burst=None):
        # burst=(p, max_delay): with probability p a release is followed, `d` loop passes later (0 <= d <= max_delay,
        # NOT waiting for quiescence), by the release of a second parked body: completions a few turns apart, which is
        # what real bodies do and what exposes hand-over windows in permits and queues
        self.burst = burst
        self.pending: list[list] = []
        self.bursts = 0
        self.parked: list[tuple[str, asyncio.Future]] = []
        self.choices = list(choices)
        self.default = default
        self.rng = rng
        self.trace: list[tuple[int, int, str]] = []
        self.max_parked = 0
        self.quiescent_points = 0
        self.parked_sets: list[tuple[str, ...]] = []
        self.max_passes = max_passes
        self.passes = 0

    async def checkpoint(self, fid: str) -> None:
        fut = asyncio.get_running_loop().create_future()
        self.parked.append((fid, fut))
        self.max_parked = max(self.max_parked, len(self.parked))
        try:
            await fut
        finally:
            # cancelled while parked: drop the entry
            self.parked = [(f, x) for (f, x) in self.parked if x is not fut]

    @staticmethod
    def _quiescent(loop) -> bool:
        ready = getattr(loop, "_ready", None)
        sched = getattr(loop, "_scheduled", None)
        if ready is None:
            raise Inconclusive("event loop has no _ready queue; cannot detect quiescence")
        return len(ready) == 0 and not sched

    def _choose(self, k: int) -> int:
        pos = len(self.trace)
        if pos < len(self.choices):
            return self.choices[pos] % k
        if self.default == "first":
            return 0
        if self.default == "last":
            return k - 1
        return self.rng.randrange(k)

    async def drive(self, coro):
        loop = asyncio.get_running_loop()
        task = loop.create_task(coro)
        idle = 0
        try:
            while not task.done():
                await asyncio.sleep(0)
                self.passes += 1
                if self.passes > self.max_passes:
                    raise Inconclusive("scheduler watchdog: too many loop passes")
                if task.done():
                    break
                if self.pending:
                    for ent in list(self.pending):
                        ent[0] -= 1
                        if ent[0] <= 0:
                            self.pending.remove(ent)
                            if not ent[2].done():
                                ent[2].set_result(None)
                    idle = 0
                    continue
                if not self._quiescent(loop):
                    idle = 0
                    continue
                idle += 1
                if idle < 2:
                    continue
                idle = 0
                self.quiescent_points += 1
                if not self.parked:
                    raise Deadlock("loop quiescent, nothing parked, run not finished")
                self.parked_sets.append(tuple(sorted(f for f, _ in self.parked)))
                k = len(self.parked)
                c = self._choose(k)
                fid, fut = self.parked.pop(c)
                self.trace.append((k, c, fid))
                if not fut.done():
                    fut.set_result(None)
                if self.burst and self.parked and self.rng is not None and self.rng.random() < self.burst[0]:
                    c2 = self.rng.randrange(len(self.parked))
                    fid2, fut2 = self.parked.pop(c2)
                    self.pending.append([1 + self.rng.randint(0, self.burst[1]), fid2, fut2])
                    self.bursts += 1
        except BaseException:
            if not task.done():
                task.cancel()
                try:
                    await task
                except BaseException:  # noqa: BLE001
                    pass
            raise
        return await task


def next_choices(trace: list[tuple[int, int, str]]) -> list[int] | None:
    """Depth-first successor of a choice trace; None when the space is exhausted."""
    i = len(trace) - 1
    while i >= 0 and trace[i][1] + 1 >= trace[i][0]:
        i -= 1
    if i < 0:
        return None
    return [c for (_, c, _) in trace[:i]] + [trace[i][1] + 1]


def run_async(coro_factory, *, sched: Sched | None):
    """Run coro_factory() to completion on a fresh loop under ``sched`` (or naturally)."""
    global SCHED
    SCHED = sched
    try:
        if sched is None:
            return asyncio.run(coro_factory())
        return asyncio.run(sched.drive(coro_factory()))
    finally:
        SCHED = None


# --------------------------------------------------------------------------
# Taps (rebound from the harness; counted; a tap that never fires makes the
# checks that depend on it inconclusive)
# --------------------------------------------------------------------------

_taps_installed = False


TAPS_OK: dict[str, bool] = {}


def install_taps() -> None:
    """Rebind the tap targets. Every tap is optional: when a target no longer exists (a refactor renamed
    it) the tap is skipped, its counter stays zero and only the checks whose deciding monitor needs it
    become inconclusive - the others run unaffected."""
    global _taps_installed, SENTINEL
    if _taps_installed:
        return
    _taps_installed = True
    try:
        from hypergraph.nodes.base import _EMIT_SENTINEL

        SENTINEL = _EMIT_SENTINEL
    except Exception:  # noqa: BLE001
        SENTINEL = None
    try:
        import hypergraph.runners.async_.runner as ar
        import hypergraph.runners.sync.runner as sr
    except Exception:  # noqa: BLE001
        TAPS_OK.update(ready=False, step=False, run=False)
        return

    def wrap_ready(orig):
        def get_ready_nodes(graph, state, *a, **kw):
            r = orig(graph, state, *a, **kw)
            try:
                TAP_COUNT["ready"] += 1
                CUR.add(
                    "ready",
                    RUN.get(),
                    graph.name,
                    tuple(n.name for n in r),
                    dict(getattr(state, "versions", {})),
                    dict(getattr(state, "routing_decisions", {})),
                    frozenset(getattr(state, "node_executions", {})),
                )
            except Exception:  # noqa: BLE001 - a tap never disturbs the run
                pass
            return r

        return get_ready_nodes

    ok = True
    for mod in (sr, ar):
        if hasattr(mod, "get_ready_nodes"):
            mod.get_ready_nodes = wrap_ready(mod.get_ready_nodes)
        else:
            ok = False
    TAPS_OK["ready"] = ok

    def note_step(graph, ready_nodes):
        try:
            TAP_COUNT["step"] = TAP_COUNT.get("step", 0) + 1
            CUR.add("step", RUN.get(), graph.name, tuple(n.name for n in ready_nodes))
        except Exception:  # noqa: BLE001
            pass

    ok = True
    if hasattr(sr, "run_superstep_sync"):
        orig_ss = sr.run_superstep_sync

        def run_superstep_sync(graph, state, ready_nodes, *a, **kw):
            note_step(graph, ready_nodes)
            return orig_ss(graph, state, ready_nodes, *a, **kw)

        sr.run_superstep_sync = run_superstep_sync
    else:
        ok = False
    if hasattr(ar, "run_superstep_async"):
        orig_sa = ar.run_superstep_async

        async def run_superstep_async(graph, state, ready_nodes, *a, **kw):
            note_step(graph, ready_nodes)
            return await orig_sa(graph, state, ready_nodes, *a, **kw)

        ar.run_superstep_async = run_superstep_async
    else:
        ok = False
    TAPS_OK["step"] = ok

    ok = True
    if hasattr(getattr(sr, "SyncRunner", None), "_execute_graph_impl"):
        orig_sync = sr.SyncRunner._execute_graph_impl

        def _execute_graph_impl(self, graph, *a, **kw):
            tok = next(_run_counter)
            TAP_COUNT["run"] += 1
            parent = RUN.get()
            CUR.add("run_begin", tok, graph.name, parent, "sync")
            reset = RUN.set(tok)
            try:
                st = orig_sync(self, graph, *a, **kw)
                CUR.add("run_end", tok, "ok")
                return st
            except BaseException as e:  # noqa: BLE001
                CUR.add("run_end", tok, type(e).__name__)
                raise
            finally:
                RUN.reset(reset)

        sr.SyncRunner._execute_graph_impl = _execute_graph_impl
    else:
        ok = False
    if hasattr(getattr(ar, "AsyncRunner", None), "_execute_graph_impl_async"):
        orig_async = ar.AsyncRunner._execute_graph_impl_async

        async def _execute_graph_impl_async(self, graph, *a, **kw):
            tok = next(_run_counter)
            TAP_COUNT["run"] += 1
            parent = RUN.get()
            CUR.add("run_begin", tok, graph.name, parent, "async")
            reset = RUN.set(tok)
            try:
                st = await orig_async(self, graph, *a, **kw)
                CUR.add("run_end", tok, "ok")
                return st
            except BaseException as e:  # noqa: BLE001
                CUR.add("run_end", tok, type(e).__name__)
                raise
            finally:
                RUN.reset(reset)

        ar.AsyncRunner._execute_graph_impl_async = _execute_graph_impl_async
    else:
        ok = False
    TAPS_OK["run"] = ok


# --------------------------------------------------------------------------
# Event recorders
# --------------------------------------------------------------------------


def make_processors():
    """Recording processors (classes are created lazily: hypergraph must be pinned first)."""
    from hypergraph.events import AsyncEventProcessor, EventProcessor

    class _EqGroup:
        """Processors created with the same eq_group compare (and hash) equal although they are distinct objects -
        two collectors written as dataclasses with equal contents, say. Without a group: identity, as usual."""

        eq_group = None

        def __eq__(self, other):
            if self.eq_group is None:
                return self is other
            return type(other) is type(self) and other.eq_group == self.eq_group

        def __hash__(self):
            return id(self) if self.eq_group is None else hash(self.eq_group)

    class RecProc(_EqGroup, EventProcessor):
        def __init__(self, tag="p", eq_group=None):
            self.tag = tag
            self.eq_group = eq_group

        def on_event(self, event):
            CUR.add("ev", self.tag, event)

        def shutdown(self):
            CUR.add("shutdown", self.tag)

    class ARecProc(_EqGroup, AsyncEventProcessor):
        """Async recorder that turns every emission into 0..n extra suspension points."""

        def __init__(self, tag="ap", rng=None, max_yields=3, min_yields=0, eq_group=None):
            self.tag = tag
            self.eq_group = eq_group
            self.rng = rng
            self.max_yields = max_yields
            self.min_yields = min_yields

        def on_event(self, event):
            CUR.add("ev", self.tag, event)

        async def on_event_async(self, event):
            if self.rng is not None:
                for _ in range(self.rng.randrange(self.min_yields, self.max_yields + 1)):
                    await asyncio.sleep(0)
            CUR.add("ev", self.tag, event)

        def shutdown(self):
            CUR.add("shutdown", self.tag)

        async def shutdown_async(self):
            CUR.add("shutdown", self.tag)

    return RecProc, ARecProc


def events_of(rec: Rec, tag: str) -> list:
    return [e[2] for e in rec.ev if e[0] == "ev" and e[1] == tag]


# --------------------------------------------------------------------------
# Reach: which functions of the repository did the workload actually enter?
# --------------------------------------------------------------------------

REACHED: set = set()
_REACH_ON = [False]


def start_reach(src_root: str) -> bool:
    """sys.monitoring PY_START tap: records (file relative to src_root, qualname) of every repository function
    on its first entry and disables itself for that code object (cost ~ one callback per function)."""
    mon = getattr(sys, "monitoring", None)
    if mon is None or _REACH_ON[0]:
        return _REACH_ON[0]
    root = src_root.rstrip("/") + "/"
    tool = mon.PROFILER_ID
    try:
        mon.use_tool_id(tool, "hgmon-reach")
    except ValueError:
        return False

    def on_start(code, offset):
        fn = code.co_filename
        if fn.startswith(root):
            REACHED.add((fn[len(root):], code.co_qualname))
        return mon.DISABLE

    mon.register_callback(tool, mon.events.PY_START, on_start)
    mon.set_events(tool, mon.events.PY_START)
    _REACH_ON[0] = True
    return True
