"""C03 - gate routing: a gated node runs only while a controlling gate selects it."""

from __future__ import annotations

import copy

from hgmon import core, families, gen, loops, monitors, ref, rt

LEVEL = "exploration"
RULE = (
    "generated gated programs (if/else diamonds, multi-way single-/multi-target routes with fallback/None/END, two gates "
    "sharing a target, a gate targeting a gate, targets whose name is a prefix of a sibling's; default-open and "
    "closed-by-default; flat, nested one level, gate-driven loops, and feedback programs in which a branch output "
    "goes back into a gate that cannot decide again - it waits for a one-shot signal or sits under an outer gate that "
    "re-decides against it, programs entered at plain nodes with the gates upstream cut off, a target shared by a "
    "router and a closed gate that cannot decide yet), every selector swept over every table index "
    "(others random), on both runners with sampled completion orders. Trace rules on every execution: R1 a gated node "
    "(or nested graph node) starts only if some controlling gate's latest decision in that run names it or an "
    "undecided default-open gate allows it; R2 no step holds a gate and one of its targets; decisions taken from gate "
    "function returns and cross-checked against RouteDecisionEvents. In the deterministic sub-class (closed gates, or "
    "gates reading graph inputs only and not gated themselves) executed set and values must equal RefEval. "
    "Non-trivial: at least one gate decision and one gated start observed; distinct = (program shape, decision vector)."
    ' Directed part on every run: one instance of every loop template (gates with and without wait_for, exits, nested loops, gates on two signals) and a target shared by a default-open gate that has decided and a closed gate that has not (3 list orders x lags 1-3 x both selectors).'
    ' Also: whole gated / cyclic programs as one nested node (rules judged per nesting level); loops whose gate is cache=True on a backend shared by a history of runs, with exits by None / END / an exit node, compared run by run with the uncached run.'
)
ASSUMPTIONS = [
    "decisions are observed at the gate function boundary (return value) and, when a processor is attached, as RouteDecisionEvent",
    "step boundaries come from the get_ready_nodes tap (counted; zero => inconclusive)",
]
DECIDING = ["r1_checked", "r2_checked", "decisions"]
THOROUGH_SHARDS = 12


def nest(spec: dict, rng) -> dict:
    """Wrap the gated program as a nested graph node inside a small outer DAG."""
    inner = copy.deepcopy(spec)
    inner["name"] = "inner"
    outer_nodes = [{"k": "sub", "name": "inner", "prog": inner}]
    outs = [e for ns in inner["nodes"] for e in ref.data_output_names(ns)]
    ren = {}
    if outs and rng.random() < 0.5:
        # the nested node's outputs under other names: what a non-selected branch would have produced must stay absent
        # one level up under the new name too (nobody outside may start on it)
        picked = sorted(set(rng.sample(outs, rng.randint(1, min(3, len(outs))))))
        ren = {o: f"{o}_x" for o in picked}
        outer_nodes[0]["rename_out"] = [ren]
    if outs:
        o = rng.choice(sorted(ren) if ren and rng.random() < 0.7 else outs)
        outer_nodes.append({"k": "fn", "name": "post", "params": [{"n": ren.get(o, o)}], "outs": ["post_out"]})
    return {"name": "outer", "nodes": outer_nodes, "bind": {}, "inputs": spec["inputs"], "selectors": spec["selectors"], "deterministic": spec["deterministic"]}


def check_events(ctx, rec, spec, case):
    """Cross-check: every RouteDecisionEvent matches the gate's function return in that run."""
    fidx = monitors.fid_index(spec)
    by_gate: dict[str, list] = {}
    for e in rec.ev:
        if e[0] == "exit" and e[1] in fidx and fidx[e[1]][0]["k"] in ("ifelse", "route"):
            by_gate.setdefault(fidx[e[1]][0]["name"], []).append(monitors.decision_token(fidx[e[1]][0], e[2]))
    from hypergraph import END
    from hypergraph.events import RouteDecisionEvent

    evs: dict[str, list] = {}
    for ev in rt.events_of(rec, "p"):
        if isinstance(ev, RouteDecisionEvent):
            d = ev.decision
            d = [("END" if x is END else x) for x in d] if isinstance(d, list) else ("END" if d is END else d)
            evs.setdefault(ev.node_name, []).append(d)
    for g, ds in by_gate.items():
        ctx.obs["decision_events_crosschecked"] += len(ds)
        exp = list(ds)
        if evs.get(g, []) != exp:
            ctx.violation("C03:event-mismatch", f"gate {g}: function returns map to {exp} but RouteDecisionEvents say {evs.get(g, [])}", case)


def one(ctx, spec, inputs, runner, sched, label, with_proc=False, loop_ref=None, max_iterations=None):
    case = {"spec": spec, "inputs": inputs, "runner": runner, "variant": label}
    s = core.with_async(spec, runner == "async", ctx.rng)
    procs = None
    if with_proc:
        Rec, _ = rt.make_processors()
        procs = [Rec("p")]
    o = core.execute(s, inputs, runner, sched=sched, processors=procs, max_iterations=max_iterations)
    if max_iterations is not None and type(o.exc).__name__ == "InfiniteLoopError":
        # feedback programs may legitimately never settle; the trace rules are judged on what ran
        o.exc = None
        ctx.obs["feedback_runs_capped"] += 1
    if o.deadlock:
        ctx.violation("C03:deadlock", "logical deadlock", case)
        return o
    if o.inconclusive:
        ctx.inconc(o.inconclusive)
        return o
    if o.exc is not None:
        ctx.violation("C03:raised:" + type(o.exc).__name__, f"run raised {o.exc!r}", case)
        return o
    bad, n = monitors.gate_rules(o.rec, spec)
    for k, v in n.items():
        ctx.obs[k] += v
    for key, what in bad[:2]:
        ctx.violation(key, f"{label}: {what}", case)
    if with_proc:
        check_events(ctx, o.rec, spec, case)
    if loop_ref is None and spec.get("deterministic"):
        try:
            R = ref.ref_eval(spec, inputs)
        except ref.Ambiguous:
            ctx.obs["ref_ambiguous"] += 1
            return o
        exp = ref.visible_values(spec, R)
        ran = set(o.rec.invocations())
        ctx.obs["deterministic_compared"] += 1
        if ran != set(R.args):
            ctx.violation(
                "C03:executed-set",
                f"{label}: executed {sorted(ran)} but exactly the selected branches are {sorted(R.args)} (extra={sorted(ran - set(R.args))}, missing={sorted(set(R.args) - ran)}); decisions={R.decisions}",
                case,
            )
        elif o.values != exp:
            ctx.violation("C03:values", f"{label}: values {core.short(o.values)} differ from selected-branch evaluation {core.short(exp)}", case)
        else:
            for fid, calls in o.rec.invocations().items():
                if len(calls) != 1:
                    ctx.violation("C03:ran-twice", f"{label}: {fid} ran {len(calls)} times in an acyclic gated program", case)
                    break
    if loop_ref is not None:
        ctx.obs["loop_compared"] += 1
        if o.values != loop_ref["values"]:
            ctx.violation("C03:loop-values", f"{label}: loop values {core.short(o.values)} differ from sequential loop {core.short(loop_ref['values'])}", case)
    return o


def entry_variant(ctx, spec, base):
    """The same gated program entered at 1-2 plain nodes (with_entrypoint): gates upstream of the entry points are cut
    off and never decide, so their closed-by-default targets must stay closed and R1 holds as on the full graph."""
    from hgmon.build import build_program

    rng = ctx.rng
    fnodes = [ns["name"] for ns in spec["nodes"] if ns["k"] == "fn"]
    if not fnodes:
        return
    s = copy.deepcopy(spec)
    s["entry"] = rng.sample(fnodes, rng.randint(1, min(2, len(fnodes))))
    s["deterministic"] = False  # only the trace rules apply
    try:
        rt.reset_program()
        contract = build_program(s).graph.inputs
    except Exception:  # noqa: BLE001 - a configuration the API rejects is not a configuration
        ctx.obs["entry_config_rejected"] += 1
        return
    provided = {}
    for r_ in list(contract.required) + [p for ps in list(contract.entrypoints.values())[:1] for p in ps]:
        provided[r_] = base.get(r_, f"caller:{r_}")
    for o_ in contract.optional:
        if o_ in base:
            provided[o_] = base[o_]
    for runner in ("sync", "async"):
        o = core.execute(core.with_async(s, runner == "async", rng), provided, runner, sched=rt.Sched(default="rand", rng=rng) if runner == "async" else None, max_iterations=60)
        ctx.obs["entry_variant_runs"] += 1
        case = {"spec": s, "inputs": provided, "runner": runner, "variant": "entry-points"}
        if o.deadlock or o.inconclusive or o.exc is not None:
            continue  # rejected / unsatisfiable configurations are C08's and C16's business
        bad, n_ = monitors.gate_rules(o.rec, s)
        for k, v in n_.items():
            ctx.obs[k] += v
        for key, what in bad[:2]:
            ctx.violation(key, f"entry-points {s['entry']} ({runner}): {what}", case)


def cached_gate_loops(ctx):
    """A loop whose gate is served from a cache: the decision a hit restores is the gate's most recent decision like
    any other, in particular the decision to route NOWHERE (None without a fallback) or to END. Histories of runs on
    one backend - the first run stores the exit decision, a later run meets it again at the end of its loop - are
    compared run by run with the same run without a cache (values and the invocations of the body nodes)."""
    from hypergraph import InMemoryCache

    rng = ctx.rng
    for N in (1, 2, 3):
        for exit_kind in ("none", "end", "node"):
            for body_cached in (False, True):
                body = {"k": "fn", "name": "b0", "params": [{"n": "count"}], "outs": ["count"], "beh": ["inc", "count"]}
                if body_cached:
                    body["cache"] = True
                targets = {"none": ["b0", "idle"], "end": ["b0", "END"], "node": ["b0", "fin"]}[exit_kind]
                gate = {"k": "route", "name": "gate", "params": [{"n": "count"}], "targets": targets, "cond": ["lt", "count", N], "then": "b0", "else": {"none": None, "end": "END", "node": "fin"}[exit_kind], "open": rng.random() < 0.5, "cache": True}
                nodes = [body, gate]
                if exit_kind == "none":
                    nodes.append({"k": "fn", "name": "idle", "params": [{"n": "count"}], "outs": ["idled"], "beh": ["mark", "count", "idle"]})
                if exit_kind == "node":
                    nodes.append({"k": "fn", "name": "fin", "params": [{"n": "count"}], "outs": ["result"], "beh": ["mark", "count", "done"]})
                rng.shuffle(nodes)
                spec = {"name": "cloop", "nodes": nodes, "bind": {}, "selectors": []}
                history = [N, 0] + [rng.randint(0, N) for _ in range(2)]
                for runner in ("sync", "async"):
                    cache = InMemoryCache()
                    for step, c0 in enumerate(history):
                        s_ = core.with_async(spec, runner == "async", rng)
                        sched = rt.Sched(default="rand", rng=rng) if runner == "async" else None
                        o = core.execute(s_, {"count": c0}, runner, sched=sched, cache=cache, max_iterations=60)
                        u = core.execute(s_, {"count": c0}, runner, max_iterations=60)
                        ctx.obs["cached_gate_loop_runs"] += 1
                        case = {"spec": spec, "inputs": {"count": c0}, "runner": runner, "variant": f"cached-gate-loop step {step} of {history}"}
                        if o.deadlock or o.inconclusive or u.deadlock or u.inconclusive:
                            ctx.inconc(o.inconclusive or u.inconclusive or "deadlock")
                            continue
                        body_calls = lambda x: sorted((e[1], repr(e[2])) for e in x.rec.ev if e[0] == "enter" and not e[1].endswith("/gate") and not (body_cached and e[1].endswith("/b0")))  # noqa: E731
                        if (o.status, o.values) != (u.status, u.values) or body_calls(o) != body_calls(u):
                            ctx.violation("C03:cached-gate-run-differs", f"{runner}: run {step} (count={c0}) of history {history} on one cache: {o.status} {core.short(o.values)} with body invocations {body_calls(o)[:6]}; without a cache {u.status} {core.short(u.values)} {body_calls(u)[:6]}", case)
                            break
                ctx.case({"cached-gate-loop": N, "exit": exit_kind, "body_cached": body_cached}, True)


def mirrored_cached_gates(ctx):
    """Two cached if/else gates around ONE predicate with mirrored branches (when_true / when_false swapped), run one
    after the other on one cache with equal inputs: each gate's decision is its own - the branch that its predicate
    result names runs, the other one does not."""
    import asyncio

    from hypergraph import AsyncRunner, FunctionNode, Graph, IfElseNode, InMemoryCache, SyncRunner

    ran = []

    def pred(n):
        return n > 10

    def mk(name):
        def f(n):
            ran.append(name)
            return (name, n)

        f.__name__ = name
        return FunctionNode(f, name=name, output_name=name + "_out")

    for runner_kind in ("sync", "async"):
        for first in (0, 1):
            cache = InMemoryCache()
            runner = SyncRunner(cache=cache) if runner_kind == "sync" else AsyncRunner(cache=cache)
            graphs = [
                Graph([IfElseNode(pred, when_true="big", when_false="small", cache=True, default_open=False, name="pick"), mk("big"), mk("small")], name="m0"),
                Graph([IfElseNode(pred, when_true="small", when_false="big", cache=True, default_open=False, name="pick"), mk("big"), mk("small")], name="m1"),
            ]
            order = [first, 1 - first, first, 1 - first]
            for step, gi in enumerate(order):
                for n in (50, 5):
                    del ran[:]
                    r = runner.run(graphs[gi], {"n": n}) if runner_kind == "sync" else asyncio.run(runner.run(graphs[gi], {"n": n}))
                    ctx.obs["mirrored_cached_gate_runs"] += 1
                    want = ("big" if n > 10 else "small") if gi == 0 else ("small" if n > 10 else "big")
                    if ran != [want] or set(r.values) != {want + "_out"}:
                        ctx.violation("C03:cached-gate-run-differs", f"{runner_kind}: mirrored cached if/else gates on one cache, step {step} (graph m{gi}, n={n}): executed {ran}, values {sorted(r.values)}; the gate's own decision names {want!r}", {"program": "mirrored cached if/else gates", "order": order, "runner": runner_kind})
                        break
    ctx.case({"directed": "mirrored-cached-gates"}, True)


def grown_graph_gates(ctx):
    """A graph that was already RUN (its lazily derived routing tables exist) is grown with add_nodes(<a gate whose
    targets are nodes of the graph>): in the grown graph the gate controls its targets like in a graph built in one go -
    exactly the selected branch runs. If/else and route gates, open and closed by default, both runners."""
    import asyncio

    from hypergraph import AsyncRunner, FunctionNode, Graph, IfElseNode, RouteNode, SyncRunner

    log = []

    def mk(tag):
        def body(x):
            log.append(tag)
            return (tag, x)

        body.__name__ = tag
        return body

    for kind in ("ifelse", "route"):
        for open_ in (True, False):
            for touch in ("run", "controlled_by", "none"):
                for runner in ("sync", "async"):
                    small, large = FunctionNode(mk("small"), name="small", output_name="s_out"), FunctionNode(mk("large"), name="large", output_name="l_out")
                    base = Graph([small, large], name="grown")
                    if touch == "run":
                        SyncRunner().run(base, {"x": 1})
                    elif touch == "controlled_by":
                        _ = base.controlled_by
                    if kind == "ifelse":
                        gate = IfElseNode(lambda x: x > 10, when_true="large", when_false="small", name="pick", default_open=open_)
                    else:
                        gate = RouteNode(lambda x: "large" if x > 10 else "small", targets=["small", "large"], name="pick", default_open=open_)
                    try:
                        grown = base.add_nodes(gate)
                    except Exception as e:  # noqa: BLE001
                        ctx.violation("C03:grown-graph:rejected", f"add_nodes(gate) raised {e!r}", {"program": "grown graph", "gate": kind})
                        continue
                    for x, want in ((1, "small"), (50, "large")):
                        log.clear()
                        r = SyncRunner().run(grown, {"x": x}) if runner == "sync" else asyncio.run(AsyncRunner().run(grown, {"x": x}))
                        ctx.obs["grown_graph_runs"] += 1
                        ctx.obs["deterministic_compared"] += 1
                        # a default-open gate that decides in step 1 together with its targets still decides first
                        if log != [want] or set(r.values) != {want[0] + "_out"}:
                            ctx.violation("C03:executed-set:grown-graph", f"{runner}: {kind} gate (default_open={open_}) added with add_nodes() after the base graph was {touch if touch != 'none' else 'never used'}: x={x} selects {want}, executed {log}, values {sorted(r.values)}", {"program": "graph grown by add_nodes(gate)", "gate": kind, "default_open": open_, "base_used": touch, "runner": runner, "x": x})
                            break
    ctx.case({"directed": "grown-graph-gates"}, True)


def run(ctx):
    n = 60 if ctx.tier == "quick" else 1300
    if ctx.replay:
        c = ctx.replay["case"]
        one(ctx, c["spec"], c["inputs"], c["runner"], rt.Sched(default="rand", rng=ctx.rng) if c["runner"] == "async" else None, "replay")
        ctx.case("r1")
        ctx.case("r2")
        return
    if ctx.shard[0] == 0:
        cached_gate_loops(ctx)
        mirrored_cached_gates(ctx)
        grown_graph_gates(ctx)
    # directed part: every loop template (gates with and without wait_for, exits, nested, two-signal gates ...)
    sysn = 0
    for N in (1, 3) if ctx.tier == "quick" else (0, 1, 2, 3, 5):
        for t in loops.systematic_templates(N):
            sysn += 1
            if ctx.shard[0] != sysn % ctx.shard[1] or t.get("mechanism") or t["template"].startswith("const-feed"):
                # (the equal-value-reproduction template belongs to C04, where its known finding is recorded)
                continue
            spec, base, loop_ref = t["spec"], t["inputs"], t["ref"]
            spec.setdefault("selectors", [])
            for runner in ("sync", "async"):
                one(ctx, spec, base, runner, rt.Sched(default="rand", rng=ctx.rng) if runner == "async" else None, f"loop-{runner}", loop_ref=loop_ref)
            ctx.obs["systematic_loop_templates"] += 1
            ctx.case({"loop": t["template"], "N": N, "directed": True}, True)
    # directed part: a target shared by an open gate that has decided and a closed gate that has not
    for order in (0, 1, 2):
        for lag, kind in ((1, "route"), (2, "route"), (2, "ifelse"), (3, "route")):
            sysn += 1
            if ctx.shard[0] != sysn % ctx.shard[1]:
                continue
            spec = gen.mixed_open_gates(order, lag, kind)
            for sv in (0, 1):
                for av in (0, 1):
                    inputs = {"s": sv, "a": av, "x": "run:x"}
                    for runner in ("sync", "async"):
                        one(ctx, spec, inputs, runner, rt.Sched(default="rand", rng=ctx.rng) if runner == "async" else None, f"mixed-open-{runner}")
                        ctx.obs["mixed_open_gate_runs"] += 1
            ctx.case({"mixed-open": order, "lag": lag, "kind": kind}, True)
    for i in range(n):
        rng = ctx.rng
        r = rng.random()
        if r < 0.15:
            t = loops.gen_loop(rng)
            spec, base, loop_ref = t["spec"], t["inputs"], t["ref"]
            spec.setdefault("selectors", [])
            for runner in ("sync", "async"):
                one(ctx, spec, base, runner, rt.Sched(default="rand", rng=rng) if runner == "async" else None, f"loop-{runner}", with_proc=rng.random() < 0.5, loop_ref=loop_ref)
            ctx.case({"loop": t["template"], "in": base}, True)
            continue
        if r < 0.22:
            # a target shared by an entry router and a closed gate that cannot decide before the target ran
            spec = gen.gen_late_closed_gate(rng)
            for sv in range(spec["table_len"]):
                inputs = {"s": sv, "x": "run:x"}
                for runner in ("sync", "async"):
                    o = one(ctx, spec, inputs, runner, rt.Sched(default="rand", rng=rng) if runner == "async" else None, f"late-closed-{runner}", max_iterations=24)
                    ctx.obs["late_closed_runs"] += 1
                    if o is not None and o.exc is None and not o.deadlock and not o.inconclusive:
                        router = next(ns for ns in spec["nodes"] if ns["name"] == "router")
                        chosen = monitors.decision_token(router, router["table"][sv % len(router["table"])])
                        ran = {f.rsplit("/", 1)[-1] for f in o.rec.invocations()}
                        if isinstance(chosen, str) and chosen != "END" and chosen not in ran:
                            ctx.violation("C03:selected-branch-never-ran", f"late-closed-{runner}: the router decided {chosen!r}; its function never ran although its inputs are plain graph inputs (another, closed gate of that target has not decided yet); executed {sorted(ran)}", {"spec": spec, "inputs": inputs, "runner": runner, "variant": "late-closed"})
                ctx.case({"s": gen.shape_of(spec), "lc": sv}, True)
            continue
        if r < 0.3:
            spec = gen.gen_feedback_gated(rng)
            for x in range(spec["table_len"]):
                inputs = {"x": x, "seed": "run:seed", "flag": "run:flag"}
                inputs = {k_: v for k_, v in inputs.items() if k_ in spec["inputs"]}
                for runner in ("sync", "async"):
                    one(ctx, spec, inputs, runner, rt.Sched(default="rand", rng=rng) if runner == "async" else None, f"feedback-{runner}", with_proc=rng.random() < 0.3, max_iterations=24)
                ctx.obs["feedback_runs"] += 2
                ctx.case({"s": gen.shape_of(spec), "fb": spec["feedback"], "x": x}, True)
            continue
        if r < 0.38:
            # a whole gated / cyclic program as ONE nested node of an outer graph (depth 1-2, fed and consumed by outer
            # nodes, a sibling in flight): the trace rules are judged per nesting level
            from hgmon import families

            fam = families.compose(rng, families.pick(rng, ["gated", "gated", "loop", "lateclosed", "early-shared"]))
            spec, base = fam["spec"], fam["inputs"]
            spec.setdefault("selectors", [])
            vectors = [dict(base)]
            for k_, v_ in base.items():
                if isinstance(v_, int) and not isinstance(v_, bool):
                    for alt in range(3):
                        if alt != v_:
                            vectors.append({**base, k_: alt})
            for inputs in vectors[:7]:
                for runner in ("sync", "async"):
                    one(ctx, spec, inputs, runner, rt.Sched(default="rand", rng=rng) if runner == "async" else None, f"compose-{runner}", with_proc=rng.random() < 0.3, max_iterations=200)
                    ctx.obs["compose_runs"] += 1
            ctx.case({"s": gen.shape_of(spec), "compose": fam["template"]}, True)
            continue
        spec = gen.gen_gated(rng, deterministic=rng.random() < 0.6)
        if r < 0.5:
            spec = nest(spec, rng)
        elif r < 0.62:
            spec = gen.with_explicit_edges(spec)
        base = gen.gated_inputs(rng, spec)
        lens = selector_sizes(spec)
        vectors = [dict(base)]
        for s_name in spec["selectors"]:
            for v in range(lens.get(s_name, 2)):
                d = dict(base)
                d[s_name] = v
                vectors.append(d)
        for _ in range(3):
            vectors.append(gen.gated_inputs(rng, spec))
        if "prog" not in spec["nodes"][0] and rng.random() < 0.5:
            entry_variant(ctx, spec, rng.choice(vectors))
        seen_dec = set()
        for inputs in vectors:
            for runner in ("sync", "async"):
                sched = rt.Sched(default="rand", rng=rng) if runner == "async" else None
                o = one(ctx, spec, inputs, runner, sched, runner, with_proc=rng.random() < 0.3)
            dec = tuple(sorted((s, inputs[s] % lens.get(s, 1)) for s in spec["selectors"]))
            if dec not in seen_dec:
                seen_dec.add(dec)
                ctx.case({"s": gen.shape_of(spec), "dec": dec}, True, sample={"spec": spec, "inputs": inputs} if i < 2 and len(seen_dec) == 1 else None)


def selector_sizes(spec):
    out = {}

    def walk(p):
        for ns in p["nodes"]:
            if ns["k"] == "sub":
                walk(ns["prog"])
            elif ns["k"] in ("ifelse", "route") and ns.get("table"):
                key = ns.get("key") or ns["params"][0]["n"]
                out[key] = max(out.get(key, 1), len(ns["table"]))

    walk(spec)
    return out
