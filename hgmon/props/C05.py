"""C05 - composition: a nested graph behaves exactly like its nodes inlined."""

from __future__ import annotations

import copy

from hgmon import core, gen, ref, rt
from hgmon.build import all_fids, build_program

LEVEL = "exploration"
RULE = (
    "seeded random DAGs; a random convex (dependency-closed) group of nodes is wrapped into a nested graph node, "
    "repeatedly to depth 1-3 (at the top level or inside an existing nested graph), with bindings moved to the inner "
    "level (names private to the group), inner select hiding outputs nobody outside needs, and wrapper "
    "with_inputs/with_outputs renames (the same alpha-renaming is applied to the flat side so names are equal; also "
    "wrappers whose outputs are renamed onto each other's names in one call). Every "
    "(flat, nested) pair is built through the public API, 25% of the time deriving from objects that were already "
    "used; compared: required/optional input sets, returned values on both runners, last-invocation arguments of every "
    "inner function, and both against RefEval; plus pairs whose wrapped nodes mutate a default-valued mutable argument, "
    "built once and run three times each (run k of the nested build = run k of the flat build). Non-trivial: the group has >= 1 value crossing the boundary in each "
    "direction or a binding/rename/select at the boundary; distinct = canonical shape of the nested spec."
    ' Also: a binding pushed into the inner graph of one of two sibling wrappers (1-3 levels deep) that consume the same name (the reference lifts nested bindings to the enclosing level as InputSpec.bound does).'
    ' Also: values that are None or falsy addressed to inputs, None bound at the top level, and outside nodes whose result is None feeding a nested graph.'
)
ASSUMPTIONS = [
    "inner-level bindings are only placed on names private to the wrapped group (anything else is a different program)",
    "outputs hidden by an inner select are compared on the exposed set only",
]
DECIDING = ["pairs_compared", "values_compared", "args_compared"]
THOROUGH_SHARDS = 12


def leaf(fid):
    return fid.rsplit("/", 1)[-1]


def hidden_names(spec):
    """External names hidden by inner selects anywhere in the spec (top-level names)."""
    hid = set()
    for ns in spec["nodes"]:
        if ns["k"] == "sub":
            inner = ns["prog"]
            exposed = set(ref.sub_outputs(inner))
            allo = set()
            for x in inner["nodes"]:
                for _, e in ref.node_outputs(x):
                    allo.add(e)
            hid |= allo - exposed
            hid |= hidden_names(inner)
    return hid


def nest_deep(rng, spec, depth):
    pairs = []
    cur = spec
    for d in range(depth):
        subs = [ns for ns in cur["nodes"] if ns["k"] == "sub" and len(ns["prog"]["nodes"]) >= 3]
        if subs and rng.random() < 0.4:
            # nest inside an existing nested program
            target = rng.choice(subs)
            res = gen.nest_once(rng, target["prog"], f"deep{d}", allow_rename=False, allow_select=False, allow_bind=False)
            if not res:
                continue
            fl, ne, info = res
            A = copy.deepcopy(cur)
            B = copy.deepcopy(cur)
            for X, prog in ((A, fl), (B, ne)):
                for ns in X["nodes"]:
                    if ns["k"] == "sub" and ns["name"] == target["name"]:
                        ns["prog"] = prog
            pairs.append((A, B, info))
            cur = B
        else:
            res = gen.nest_once(rng, cur, f"sub{d}")
            if not res:
                continue
            fl, ne, info = res
            pairs.append((fl, ne, info))
            cur = ne
    return pairs


def _none_variants(ctx, A, B):
    """The same pair with (a) one top-level binding turned into None and/or (b) one single-output function node that
    stays OUTSIDE every nested graph and feeds something returning the value None - applied to both builds alike."""
    rng = ctx.rng
    A, B = copy.deepcopy(A), copy.deepcopy(B)
    changed = False
    common = sorted(set(A.get("bind") or {}) & set(B.get("bind") or {}))
    if common and rng.random() < 0.5:
        k_ = rng.choice(common)
        A["bind"][k_] = B["bind"][k_] = None
        changed = True
    # (c) one signature default, (d) one binding made at ANY nesting level becomes None - wherever that very value occurs
    # in either build (a None default / a None binding is a fallback value like any other)
    def progs(P):
        yield P
        for ns in P["nodes"]:
            if ns["k"] == "sub":
                yield from progs(ns["prog"])

    def defaults(P):
        return {q["d"] for X in progs(P) for ns in X["nodes"] if ns["k"] != "sub" for q in ns.get("params", []) if isinstance(q.get("d"), str)}

    def bound_vals(P):
        return {v for X in progs(P) for v in (X.get("bind") or {}).values() if isinstance(v, str)}

    dv = sorted(defaults(A) & defaults(B))
    if dv and rng.random() < 0.6:
        v_ = rng.choice(dv)
        for P in (A, B):
            for X in progs(P):
                for ns in X["nodes"]:
                    if ns["k"] != "sub":
                        for q in ns.get("params", []):
                            if q.get("d") == v_:
                                q["d"] = None
        changed = True
    bv = sorted(bound_vals(A) & bound_vals(B))
    if bv and rng.random() < 0.6:
        v_ = rng.choice(bv)
        for P in (A, B):
            for X in progs(P):
                for k2, v2 in list((X.get("bind") or {}).items()):
                    if v2 == v_:
                        X["bind"][k2] = None
        changed = True
    topB = {ns["name"] for ns in B["nodes"] if ns["k"] == "fn" and len(ns.get("outs", [])) == 1 and not ns.get("gen") and not ns.get("beh")}
    cand = [ns["name"] for ns in A["nodes"] if ns["k"] == "fn" and ns["name"] in topB and len(ns.get("outs", [])) == 1 and not ns.get("gen") and not ns.get("beh")]
    if cand and rng.random() < 0.7:
        nm = rng.choice(cand)
        for X in (A, B):
            for ns in X["nodes"]:
                if ns["k"] == "fn" and ns["name"] == nm:
                    ns["none_out"] = True
        changed = True
    return (A, B) if changed else None


def compare_pair(ctx, A, B, info, depth_label, _variant=False):
    if not _variant and ctx.rng.random() < 0.3:
        nv = _none_variants(ctx, A, B)
        if nv is not None:
            ctx.obs["none_variants"] += 1
            compare_pair(ctx, nv[0], nv[1], info, depth_label + "/none-variant", _variant=True)
    case = {"flat": A, "nested": B, "info": info}
    warm = ctx.rng.random() < 0.3
    try:
        rt.reset_program()
        bA = build_program(A)
        specA = bA.graph.inputs
        bB = build_program(B, warm_inputs=({} if warm else None))
        specB = bB.graph.inputs
    except Exception as e:  # noqa: BLE001
        ctx.violation("C05:build:" + type(e).__name__, f"building flat/nested pair failed: {e!r}", case)
        return False
    ctx.obs["pairs_compared"] += 1
    if set(specA.required) != set(specB.required) or set(specA.optional) != set(specB.optional):
        ctx.violation(
            "C05:input-sets",
            f"{depth_label}: flat required={sorted(specA.required)} optional={sorted(specA.optional)}; nested required={sorted(specB.required)} optional={sorted(specB.optional)}",
            case,
        )
    # reference contract as the third voice
    reqR, optR = ref.ref_inputs(A)
    if set(reqR) != set(specA.required) or set(optR) != set(specA.optional):
        ctx.violation("C05:input-sets-vs-ref", f"flat graph reports required={sorted(specA.required)} optional={sorted(specA.optional)}, the documented rule gives {sorted(reqR)} / {sorted(optR)}", case)
    if set(specA.bound) != set(specB.bound):
        # bound names must be the same set at the top level too (inner private bindings surface by name)
        ctx.obs["bound_set_differs"] += 1
    provided = {r: f"run:{r}" for r in reqR}
    for o in optR:
        if ctx.rng.random() < 0.4:
            provided[o] = f"run:{o}"
    # values that are None or falsy are values: a quarter of the executions address one to some input
    if provided and ctx.rng.random() < 0.25:
        k_ = ctx.rng.choice(sorted(provided))
        provided[k_] = ctx.rng.choice([None, None, 0, "", (), False])
        ctx.obs["none_or_falsy_provided"] += 1
    hid = hidden_names(B)
    try:
        RA = ref.ref_eval(A, provided)
        RB = ref.ref_eval(B, provided)
    except ref.Ambiguous:
        ctx.obs["ref_ambiguous"] += 1
        return False
    for runner in ("sync", "async"):
        oA = core.execute(core.with_async(A, runner == "async", ctx.rng), provided, runner)
        oB = core.execute(core.with_async(B, runner == "async", ctx.rng), provided, runner, warm=warm)
        c2 = {**case, "provided": provided, "runner": runner}
        if oA.exc is not None or oB.exc is not None:
            ctx.violation("C05:raised", f"{depth_label}/{runner}: flat -> {oA.exc!r}; nested -> {oB.exc!r}", c2)
            continue
        expA = ref.visible_values(A, RA)
        vis_flat = {k: v for k, v in oA.values.items() if k not in hid}
        ctx.obs["values_compared"] += len(oB.values)
        if oB.values != vis_flat:
            diff = sorted(k for k in set(oB.values) | set(vis_flat) if oB.values.get(k, "<absent>") != vis_flat.get(k, "<absent>"))
            ctx.violation(
                "C05:values",
                f"{depth_label}/{runner}: nested values differ from the flat graph on {diff}: nested {core.short({k: oB.values.get(k, '<absent>') for k in diff}, 500)} flat {core.short({k: vis_flat.get(k, '<absent>') for k in diff}, 500)}",
                c2,
            )
        if oA.values != expA:
            ctx.violation("C05:flat-vs-ref", f"{depth_label}/{runner}: flat values differ from RefEval", c2)
        expB = {k: v for k, v in ref.visible_values(B, RB).items()}
        if oB.values != expB:
            diff = sorted(k for k in set(oB.values) | set(expB) if oB.values.get(k, "<absent>") != expB.get(k, "<absent>"))
            ctx.violation("C05:nested-vs-ref", f"{depth_label}/{runner}: nested values differ from RefEval on {diff}: got {core.short({k: oB.values.get(k, '<absent>') for k in diff}, 400)} expected {core.short({k: expB.get(k, '<absent>') for k in diff}, 400)}", c2)
        # every inner function received what was addressed to it
        lastA = {leaf(f): calls[-1] for f, calls in oA.rec.invocations().items()}
        lastB = {leaf(f): calls[-1] for f, calls in oB.rec.invocations().items()}
        for nme, a in lastB.items():
            ctx.obs["args_compared"] += 1
            if nme not in lastA:
                ctx.violation("C05:extra-run", f"{depth_label}/{runner}: {nme} ran in the nested build only", c2)
            elif lastA[nme] != a:
                ctx.violation("C05:args", f"{depth_label}/{runner}: {nme} received {core.short(a)} in the nested build but {core.short(lastA[nme])} in the flat one", c2)
        for nme in lastA:
            if nme not in lastB:
                ctx.violation("C05:missing-run", f"{depth_label}/{runner}: {nme} ran in the flat build only", c2)
    return True


def permuted_outputs_pair(rng):
    """The wrapper renames its outputs onto each other's names (swap / rotation in ONE with_outputs call); the
    flat side renames every producer individually, so both sides expose the same names for the same values."""
    k = rng.randint(2, 3)
    outs = [f"o{j}" for j in range(k)]
    pi = {outs[j]: outs[(j + 1) % k] for j in range(k)}
    inner_nodes = [{"k": "fn", "name": f"f{j}", "fid": f"f{j}", "params": [{"n": "x"}] + ([{"n": outs[j - 1]}] if j and rng.random() < 0.5 else []), "outs": [outs[j]]} for j in range(k)]
    consumer = {"k": "fn", "name": "h", "fid": "h", "params": [{"n": o} for o in outs], "outs": ["out"]}
    flat_nodes = copy.deepcopy(inner_nodes)
    for ns in flat_nodes:
        ns["rename_out"] = [{ns["outs"][0]: pi[ns["outs"][0]]}]
        # an inner consumer keeps reading the ORIGINAL value of its producer
        ren = {p["n"]: pi[p["n"]] for p in ns["params"] if p["n"] in pi}
        if ren:
            ns["rename_in"] = [ren]
    flat = {"name": "g", "nodes": flat_nodes + [copy.deepcopy(consumer)], "bind": {}}
    sub = {"k": "sub", "name": "box", "prog": {"name": "box", "nodes": copy.deepcopy(inner_nodes), "bind": {}}, "rename_out": [dict(pi)]}
    cur = sub
    if rng.random() < 0.4:
        cur = {"k": "sub", "name": "box2", "prog": {"name": "box2", "nodes": [sub], "bind": {}}}
    nested = {"name": "g", "nodes": [cur, copy.deepcopy(consumer)], "bind": {}}
    return flat, nested, {"renames": [pi], "S": [n["name"] for n in inner_nodes], "permuted_outputs": True}


def two_level_binding_pair(rng):
    """The same input bound on the inner graph AND on the graph containing the wrapper: the enclosing graph's
    binding wins (as bind(k=inner).bind(k=outer) does on the flat graph), at depth 1-2, with or without a renamed
    wrapper input and a sibling consumer outside."""
    ren = rng.random() < 0.5
    kx = "k_ext" if ren else "k"
    inner_nodes = [{"k": "fn", "name": "f0", "fid": "f0", "params": [{"n": "k"}, {"n": "x"}], "outs": ["o0"]}]
    if rng.random() < 0.5:
        inner_nodes.append({"k": "fn", "name": "f1", "fid": "f1", "params": [{"n": "o0"}, {"n": "k"}], "outs": ["o1"]})
    outside = [{"k": "fn", "name": "g", "fid": "g", "params": [{"n": kx}, {"n": "o0"}], "outs": ["og"]}] if rng.random() < 0.6 else []
    flat_nodes = copy.deepcopy(inner_nodes)
    if ren:
        for ns in flat_nodes:
            ns["rename_in"] = [{"k": kx}]
    flat = {"name": "g", "nodes": flat_nodes + copy.deepcopy(outside), "bind": {kx: "bound:outer"}}
    sub = {"k": "sub", "name": "box", "prog": {"name": "box", "nodes": copy.deepcopy(inner_nodes), "bind": {"k": "bound:inner"}}}
    if ren:
        sub["rename_in"] = [{"k": kx}]
    cur = sub
    if rng.random() < 0.4:
        cur = {"k": "sub", "name": "box2", "prog": {"name": "box2", "nodes": [sub], "bind": ({kx: "bound:middle"} if rng.random() < 0.5 else {})}}
    nested = {"name": "g", "nodes": [cur] + copy.deepcopy(outside), "bind": {kx: "bound:outer"}}
    return flat, nested, {"inner_bind": True, "S": [n["name"] for n in inner_nodes], "two_level_binding": True}


def sibling_binding_pair(rng):
    """Flat: scale(x,k), shift(y,k), total(...) with bind(k).  Nested: scale and shift each in their OWN wrapper and
    the binding pushed down into the inner graph of one of them only (1-2 levels deep): `k` is still one bound,
    optional input of the composed graph and reaches both wrappers, as it reaches both nodes of the flat graph."""
    scale = {"k": "fn", "name": "scale", "fid": "scale", "params": [{"n": "x"}, {"n": "k"}], "outs": ["scaled"]}
    shift = {"k": "fn", "name": "shift", "fid": "shift", "params": [{"n": "y"}, {"n": "k"}], "outs": ["shifted"]}
    total = {"k": "fn", "name": "total", "fid": "total", "params": [{"n": "scaled"}, {"n": "shifted"}], "outs": ["total"]}
    flat = {"name": "g", "nodes": copy.deepcopy([scale, shift, total]), "bind": {"k": "bound:k"}}
    left = {"k": "sub", "name": "left", "prog": {"name": "left", "nodes": [copy.deepcopy(scale)], "bind": {"k": "bound:k"}}}
    for level in range(rng.randint(0, 2)):
        left = {"k": "sub", "name": f"left{level}", "prog": {"name": f"left{level}", "nodes": [left], "bind": {}}}
    right = {"k": "sub", "name": "right", "prog": {"name": "right", "nodes": [copy.deepcopy(shift)], "bind": {}}}
    if rng.random() < 0.3:
        right = {"k": "sub", "name": "right1", "prog": {"name": "right1", "nodes": [right], "bind": {}}}
    nodes = [left, right, copy.deepcopy(total)]
    rng.shuffle(nodes)
    nested = {"name": "g", "nodes": nodes, "bind": {}}
    return flat, nested, {"inner_bind": True, "S": ["scale", "shift"], "sibling_binding": True}


RUN_OPTION_NAMES = ["max_iterations", "select", "entrypoint", "error_handling", "on_missing", "on_internal_override", "max_concurrency", "values", "event_processors", "graph", "self"]


def option_named_input_pair(rng):
    """An inner input whose NAME is also the name of an option of runner.run() (max_iterations, select, values ...):
    it is an input like any other - supplied by the caller, bound or defaulted - and must cross the wrapper
    boundary as a value, at depth 1-2."""
    nm = rng.choice(RUN_OPTION_NAMES)
    other = rng.choice([n for n in RUN_OPTION_NAMES if n != nm])
    f = {"k": "fn", "name": "solve", "fid": "solve", "params": [{"n": "y"}, {"n": nm, "d": f"def:{nm}"}], "outs": ["z"]}
    g = {"k": "fn", "name": "post", "fid": "post", "params": [{"n": "z"}, {"n": other}], "outs": ["w"]}
    flat = {"name": "g", "nodes": copy.deepcopy([f, g]), "bind": {}}
    inner_nodes = [copy.deepcopy(f)] + ([copy.deepcopy(g)] if rng.random() < 0.5 else [])
    sub = {"k": "sub", "name": "box", "prog": {"name": "box", "nodes": inner_nodes, "bind": {}}}
    if rng.random() < 0.4:
        sub = {"k": "sub", "name": "box2", "prog": {"name": "box2", "nodes": [sub], "bind": {}}}
    rest = [] if len(inner_nodes) == 2 else [copy.deepcopy(g)]
    nested = {"name": "g", "nodes": [sub] + rest, "bind": {}}
    if rng.random() < 0.3 and nm != "self":
        # (Graph.bind(self, **values) cannot take a keyword called `self`: a limit of the call syntax that hits the
        # flat and the nested build alike - not a composition matter, so that one name is never bound here)
        flat["bind"] = {nm: f"bound:{nm}"}
        nested["bind"] = {nm: f"bound:{nm}"}
    return flat, nested, {"S": [n["name"] for n in inner_nodes], "option_named_input": nm}


def mutable_default_pair(rng):
    """Flat DAG with 1-2 nodes that mutate a default-valued mutable argument in place, and the same program
    with those nodes wrapped (depth 1-2, optionally with a renamed wrapper input; sometimes two wrappers around
    nodes sharing one function object)."""
    base = gen.gen_dag(rng, n_nodes=(2, 4), n_inputs=(1, 2), p_default_input=0.0, p_default_edge=0.0, p_gen=0.0, name="g")
    for ns in base["nodes"]:
        ns["fid"] = ns["name"]
    src = gen.consumed_inputs(base)[0]
    muts = []
    for j in range(rng.randint(1, 2)):
        d, b = rng.choice([(["seed"], "append_mut"), ({"items": ["seed"]}, "nested_mut"), ({"seed": 0}, "setitem_mut")])
        muts.append({"k": "fn", "name": f"mut{j}", "fid": f"mut{j}", "params": [{"n": src}, {"n": f"acc{j}", "d": copy.deepcopy(d)}], "outs": [f"hist{j}"], "beh": [b, f"acc{j}", src]})
    if rng.random() < 0.5:
        # a second inner consumer of the SAME defaulted parameter, running after the mutating one: in the flat graph
        # every consumer gets its own copy of the default
        d0 = muts[0]["params"][1]["d"]
        muts.append({"k": "fn", "name": "peek0", "fid": "peek0", "params": [{"n": "hist0"}, {"n": "acc0", "d": copy.deepcopy(d0)}], "outs": ["peeked0"], "beh": ["snapshot", "acc0"]})
    flat = {"name": "g", "nodes": copy.deepcopy(base["nodes"] + muts), "bind": {}}
    cur = muts
    for d in range(rng.randint(1, 2)):
        sub = {"k": "sub", "name": f"box{d}", "prog": {"name": f"box{d}", "nodes": cur, "bind": {}}}
        cur = [sub]
    nested = {"name": "g", "nodes": copy.deepcopy(base["nodes"]) + cur, "bind": {}}
    ren = None
    if rng.random() < 0.4:
        ren = {"acc0": "acc0_ext"}
        cur[0]["rename_in"] = [ren]
        for ns in flat["nodes"]:
            if any(p_["n"] == "acc0" for p_ in ns.get("params", [])):
                ns["rename_in"] = [ren]
    return flat, nested, src


def compare_repeat(ctx, A, B, src):
    """Inner signature defaults stay per-run fresh copies when the node sits inside a nested graph: the k-th
    run of the nested build returns what the k-th run of the flat build returns."""
    case = {"flat": A, "nested": B, "info": {"mutable_defaults": True}}
    rt.reset_program()
    bA = build_program(A)
    bB = build_program(B)
    if set(bA.graph.inputs.required) != set(bB.graph.inputs.required) or set(bA.graph.inputs.optional) != set(bB.graph.inputs.optional):
        ctx.violation("C05:input-sets", f"mutable-defaults: flat {sorted(bA.graph.inputs.required)}/{sorted(bA.graph.inputs.optional)} nested {sorted(bB.graph.inputs.required)}/{sorted(bB.graph.inputs.optional)}", case)
    req = list(bA.graph.inputs.required)
    for k in range(3):
        provided = {r: f"run{k}:{r}" for r in req}
        runner = ctx.rng.choice(["sync", "async"])
        oA = core.execute(bA, dict(provided), runner)
        oB = core.execute(bB, dict(provided), runner)
        ctx.obs["repeat_runs_compared"] += 1
        if oA.exc is not None or oB.exc is not None:
            ctx.violation("C05:raised", f"mutable-defaults run {k}/{runner}: flat -> {oA.exc!r}; nested -> {oB.exc!r}", case)
            return
        ctx.obs["values_compared"] += len(oB.values)
        if oA.values != oB.values:
            diff = sorted(k_ for k_ in set(oA.values) | set(oB.values) if oA.values.get(k_, "<absent>") != oB.values.get(k_, "<absent>"))
            ctx.violation("C05:values:repeat-run", f"run {k} ({runner}) of the same objects: nested values differ from the flat graph on {diff}: nested {core.short({x: oB.values.get(x) for x in diff})} flat {core.short({x: oA.values.get(x) for x in diff})}", case)
            return


def run(ctx):
    n = 300 if ctx.tier == "quick" else 4000
    if ctx.replay:
        c = ctx.replay["case"]
        if c.get("info", {}).get("mutable_defaults"):
            compare_repeat(ctx, c["flat"], c["nested"], None)
        else:
            compare_pair(ctx, c["flat"], c["nested"], c.get("info", {}), "replay")
        ctx.case("r1")
        ctx.case("r2")
        return
    for i in range(n):
        rng = ctx.rng
        if i % 12 == 3:
            A, B, info = permuted_outputs_pair(rng)
            ok = compare_pair(ctx, A, B, info, "permuted-outputs")
            ctx.obs["permuted_output_pairs"] += 1
            ctx.case({"s": gen.shape_of(B), "perm": True}, ok)
            continue
        if i % 12 == 9:
            A, B, info = two_level_binding_pair(rng)
            ok = compare_pair(ctx, A, B, info, "two-level-binding")
            ctx.obs["two_level_binding_pairs"] += 1
            ctx.case({"s": gen.shape_of(B), "bind2": True}, ok)
            continue
        if i % 12 == 7:
            A, B, info = option_named_input_pair(rng)
            ok = compare_pair(ctx, A, B, info, "option-named-input")
            ctx.obs["option_named_input_pairs"] += 1
            ctx.case({"s": gen.shape_of(B), "opt": info["option_named_input"]}, ok)
            continue
        if i % 12 == 1:
            A, B, info = sibling_binding_pair(rng)
            ok = compare_pair(ctx, A, B, info, "sibling-binding")
            ctx.obs["sibling_binding_pairs"] += 1
            ctx.case({"s": gen.shape_of(B), "sibbind": True}, ok)
            continue
        if i % 6 == 5:
            A, B, src = mutable_default_pair(rng)
            compare_repeat(ctx, A, B, src)
            ctx.case({"s": gen.shape_of(B), "mut": True}, True)
            continue
        spec = gen.gen_dag(rng, n_nodes=(3, 9), p_default_edge=0.08, p_emit=0.1 if rng.random() < 0.3 else 0.0)
        bind, _ = gen.assign_sources(rng, spec)
        spec["bind"] = bind
        for ns in spec["nodes"]:
            ns["fid"] = ns["name"]  # function identity independent of where the node ends up
        pairs = nest_deep(rng, spec, rng.randint(1, 3))
        for d, (A, B, info) in enumerate(pairs):
            ok = compare_pair(ctx, A, B, info, f"depth{d + 1}")
            boundary = bool(info.get("renames") or info.get("inner_bind") or info.get("inner_select")) or len(info.get("S", [])) >= 2
            ctx.case({"s": gen.shape_of(B)}, ok and boundary, sample={"flat": A, "nested": B, "info": info} if i < 2 and d == 0 else None)
