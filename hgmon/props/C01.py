"""C01 - acyclic dataflow equals the dependency-order evaluation."""

from __future__ import annotations

import copy

from hgmon import core, gen, ref, rt

LEVEL = "exploration"
RULE = (
    "seeded random layered DAGs (3-10 nodes; fan-in/out, diamonds, multi-output, side-effect-only and generator "
    "nodes; every graph input gets a random non-empty combination of run-time value x binding x signature default; "
    "run-time select narrowing leaves nodes unsatisfiable; in half of the programs some nodes have their own input "
    "names permuted by with_inputs - a swap or 3-cycle in one call or through a temporary name - and their outputs "
    "swapped, defaults moved along; a quarter of the programs have one dependency-closed group wrapped as a nested "
    "graph, with the narrowing then configured by select() on the graph as often as passed to run(); every eighth "
    "program is a mapping node around a small DAG whose inner graph binds a broadcast input that the caller "
    "overrides or not; plus chains whose default and upstream value are equal but not the same value - 1, 1.0, True), each run in original and shuffled node order under the "
    "sync and async runner and compared with RefEval (values, last-invocation arguments, exactly-once set, "
    "never-run set). A case is non-trivial when at least 2 node functions were observed entering and the "
    "result has at least one value; distinct = distinct canonical shape (kinds, arities, wiring, defaults, bindings, "
    "provided set, selection)."
    ' Also: two or three readers of ONE input name whose signature defaults compare equal but are different values (1 / True / 1.0, [1] / [True]), nobody supplying the name, every node order, one reader optionally nested: each node is evaluated with its own default.'
    ' Acyclic gate-free programs WITH ordering signals (emit / wait_for), a third of the upstream-fed parameters defaulted (known finding: a waiter that ran on a provisional value is not re-run). Identity sentinels as signature defaults (object(), None, Ellipsis, Enum member, class, function, empty tuple): a parameter left out must reach the function as its own default object, flat, nested and behind a renamed input.'
)
ASSUMPTIONS = [
    "generated node functions are pure symbolic-term constructors; RefEval never imports hypergraph",
    "run-time/bound values are only given for names the program spec classifies as graph inputs",
]
DECIDING = ["enter_events", "values_compared"]
THOROUGH_SHARDS = 12


def check_case(ctx, spec, provided, select, runner, label):
    try:
        R = ref.ref_eval(spec, provided)
    except ref.Ambiguous:
        ctx.obs["ref_ambiguous"] += 1
        return None
    exp_values = ref.visible_values(spec, R, select)
    run_spec = core.with_async(spec, runner == "async", ctx.rng)
    warm = ctx.rng.random() < 0.4
    ctx.obs["warm_derive_after_use"] += int(warm)
    case = {"spec": spec, "provided": provided, "select": select, "runner": runner, "variant": label}
    try:
        out = core.execute(run_spec, provided, runner, select=(select if select is not None else core.UNSET), warm=warm)
    except Exception as e:  # noqa: BLE001
        if not (type(e).__module__ or "").startswith("hypergraph"):
            raise
        ctx.violation("C01:rejected:" + type(e).__name__, f"a valid acyclic program was rejected at construction: {type(e).__name__}: {str(e)[:200]}", case)
        return None
    inv = out.rec.invocations()
    early_waiters, early_outs = _early_waiters(spec)
    ctx.obs["enter_events"] += sum(len(v) for v in inv.values())
    ctx.obs["steps"] += out.rec.count("ready")
    if out.exc is not None:
        ctx.violation("C01:raised:" + type(out.exc).__name__, f"run raised {type(out.exc).__name__}: {out.exc}", case)
        return out
    if out.status != "completed":
        ctx.violation("C01:status", f"status {out.status}", case)
        return out
    ctx.obs["values_compared"] += len(exp_values)
    if out.values != exp_values:
        missing = sorted(set(exp_values) - set(out.values))
        extra = sorted(set(out.values) - set(exp_values))
        wrong = sorted(k for k in exp_values if k in out.values and out.values[k] != exp_values[k])
        key = "C01:values:" + ("missing" if missing else "extra" if extra else "wrong")
        if early_outs and not missing and not extra and set(wrong) <= early_outs:
            # known finding: only outputs of (or downstream of) a WAITING node that has a defaulted upstream-fed input
            key += ":waiter-ran-early-on-default"
        ctx.violation(key, f"values differ from dependency-order evaluation: missing={missing} extra={extra} wrong={wrong}; got={core.short(out.values)} expected={core.short(exp_values)}", case)
    fids = set(core_all_fids(spec))
    for fid in fids:
        calls = inv.get(fid, [])
        if fid in R.args:
            if not calls:
                ctx.violation("C01:not-run", f"runnable node {fid} was never invoked", case)
                continue
            ctx.obs["args_compared"] += 1
            if calls[-1] != R.args[fid]:
                ctx.violation("C01:args" + (":waiter-ran-early-on-default" if fid.rsplit("/", 1)[-1] in early_waiters else ""), f"{fid} last invoked with {core.short(calls[-1])}, dependency-order evaluation gives {core.short(R.args[fid])}", case)
            if fid in R.once:
                ctx.obs["once_checked"] += 1
                if len(calls) != 1:
                    ctx.violation("C01:once", f"{fid} must run exactly once, ran {len(calls)} times", case)
        else:
            ctx.obs["unsat_checked"] += 1
            if calls:
                ctx.violation("C01:unsat-ran", f"{fid} cannot be satisfied but was invoked {len(calls)} times with {core.short(calls[0])}", case)
    return out


def _early_waiters(spec):
    """(names, outputs) of the top-level WAITING function nodes that can run on a provisional value - through an own
    defaulted parameter that another node produces, or downstream of a node that has one (such a node runs early on its
    default and again on the real value) - together with everything downstream of those waiters."""
    nodes = [ns for ns in spec["nodes"] if ns["k"] == "fn"]
    produced = {e for ns in spec["nodes"] for e in ref.data_output_names(ns)}

    def closure(seed):
        hit = set(seed)
        outs = {e for ns in nodes if ns["name"] in hit for e in ns.get("outs", [])}
        grew = True
        while grew:
            grew = False
            for ns in nodes:
                if ns["name"] not in hit and any(q["n"] in outs for q in ns.get("params", [])):
                    hit.add(ns["name"])
                    outs |= set(ns.get("outs", []))
                    grew = True
        return hit, outs

    provisional, _ = closure({ns["name"] for ns in nodes if any("d" in q and q["n"] in produced for q in ns.get("params", []))})
    waiters = {ns["name"] for ns in nodes if ns.get("wait") and ns["name"] in provisional}
    if not waiters:
        return set(), set()
    return closure(waiters)


def waiting_dags(ctx, i):
    """Acyclic, gate-free programs with ordering signals (emit / wait_for on signals and on data names), a third of the
    upstream-fed parameters carrying a signature default: the same dependency-order evaluation applies."""
    rng = ctx.rng
    spec = gen.gen_wait_dag(rng, False, p_default_edge=rng.choice([0.0, 0.3, 0.5]))
    if any(ns["k"] != "fn" for ns in spec["nodes"]):
        spec["nodes"] = [ns for ns in spec["nodes"] if ns["k"] == "fn" and ns["name"] != "after_gate"]
    spec["bind"] = {}
    for ns in spec["nodes"]:
        ns["fid"] = f"g/{ns['name']}"
    provided = {k: f"run:{k}" for k in ref.ref_inputs(spec)[0]}
    ok = False
    for runner in ("sync", "async"):
        out = check_case(ctx, spec, provided, None, runner, "waiting-dag")
        ok = ok or (out is not None and bool(out.values))
    ctx.obs["waiting_dag_programs"] += 1
    ctx.obs["waiting_dag_early_waiter_programs"] += int(bool(_early_waiters(spec)[0]))
    ctx.case({"s": gen.shape_of(spec), "wait": True}, ok)


def core_all_fids(spec):
    from hgmon.build import all_fids

    return all_fids(spec)


import enum


class _Colour(str, enum.Enum):
    RED = "1"


EQUALS = [1, True, 1.0, 0, False, 0.0, "1", (), "", 2]
# pairs that are always run (upstream value, default): equal values of a type and its SUBCLASS in both directions
# (int/bool, str/str-Enum), and an upstream value that IS None while the parameter has a default or is falsy
ALWAYS = [(True, 1), (1, True), (False, 0), (0, False), (_Colour.RED, "1"), ("1", _Colour.RED), (1.0, 1), (1, 1.0),
          (None, "dflt"), (None, 0), (None, ()), (None, 2)]


def equal_but_different(ctx):
    """prod(x)->a, mid(a=<default>)->b (passes a through), last(b)->c = repr(b): `mid` first runs on its default and
    again when `a` arrives. When the default and the upstream value are EQUAL but not the same value (1, 1.0, True)
    the final c must still be computed from the final b."""
    from hypergraph import AsyncRunner, FunctionNode, Graph, SyncRunner
    import asyncio

    rng = ctx.rng
    pairs = [(x, d) for x in EQUALS for d in EQUALS]
    if ctx.tier == "quick":
        pairs = rng.sample(pairs, 30)
    # equal CONTAINERS of one type whose ELEMENTS differ in type: change detection compares with == and the
    # top-level type only (see known finding C01:values:wrong:equal-container-element-types)
    nested = [([0.0], [0]), ((True,), (1,)), ({"k": 1.0}, {"k": 1}), ([[2.0]], [[2]])]
    pairs = ALWAYS + pairs + nested
    for x, d in pairs:
        rt.reset_program()
        fns = {}
        for name, params in (("prod", [{"n": "x"}]), ("mid", [{"n": "a", "d": d}]), ("last", [{"n": "b"}])):
            fid = f"eq/{name}"
            fns[name] = rt.make_function(name, fid, params)
            rt.KIND[fid] = "fn"
        rt.BEH["eq/prod"] = lambda kw: kw["x"]
        rt.BEH["eq/mid"] = lambda kw: kw["a"]
        rt.BEH["eq/last"] = lambda kw: repr(kw["b"])
        g = Graph([FunctionNode(fns["prod"], name="prod", output_name="a"), FunctionNode(fns["mid"], name="mid", output_name="b"), FunctionNode(fns["last"], name="last", output_name="c")], name="eq")
        for runner in ("sync", "async"):
            rt.new_rec()
            r = SyncRunner().run(g, {"x": x}) if runner == "sync" else asyncio.run(AsyncRunner().run(g, {"x": x}))
            ctx.obs["equal_value_chains"] += 1
            ctx.obs["values_compared"] += 3
            exp = {"a": x, "b": x, "c": repr(x)}
            got = {k: r.values.get(k) for k in exp}
            if repr(got) != repr(exp):
                mech = ""
                if type(x) is type(d) and isinstance(x, (list, tuple, dict)) and x == d and repr(x) != repr(d) and repr(got.get("a")) == repr(x) and repr(got.get("b")) == repr(x):
                    # a and b carry the upstream value; only the node downstream of the re-run kept the stale result
                    mech = ":equal-container-element-types"
                ctx.violation("C01:values:wrong" + mech, f"{runner}: prod({x!r})->a, mid(a={d!r})->b, last(b)->repr: got {got!r}, dependency-order evaluation gives {exp!r}", {"program": "equal-but-different chain", "x": repr(x), "default": repr(d), "runner": runner})
    ctx.case({"directed": "equal-but-different"}, True)


SHARED_DEFAULTS = [(1, True), (True, 1), (1, 1.0), (1.0, 1, True), (0, False), ([1], [True]), ((1.0,), (1,)), ({"k": 1}, {"k": True}), ("1", _Colour.RED), (0.0, 0, False)]


def shared_equal_defaults(ctx):
    """Two or three nodes read ONE input name and each declares its own signature default for it; the defaults compare
    equal (so the graph is accepted) but are different values (1 / True / 1.0, [1] / [True]). Nobody supplies the
    name: every node must be evaluated with the default written in ITS signature, in every node order, flat or with one
    of the readers inside a nested graph."""
    import asyncio
    import itertools

    from hypergraph import AsyncRunner, FunctionNode, Graph, SyncRunner

    rng = ctx.rng
    combos = SHARED_DEFAULTS
    for defaults in combos:
        for nested_at in (None, rng.randrange(len(defaults))):
            orders = list(itertools.permutations(range(len(defaults))))
            for order in orders if len(orders) <= 2 else rng.sample(orders, 3):
                rt.reset_program()
                nodes = {}
                for j, d in enumerate(defaults):
                    fid = f"sd/r{j}"
                    fn = rt.make_function(f"r{j}", fid, [{"n": "x"}, {"n": "k", "d": d}])
                    rt.KIND[fid] = "fn"
                    rt.BEH[fid] = lambda kw: (repr(kw["k"]), type(kw["k"]).__name__)
                    nd = FunctionNode(fn, name=f"r{j}", output_name=f"o{j}")
                    if j == nested_at:
                        nd = Graph([nd], name=f"box{j}").as_node()
                    nodes[j] = nd
                case = {"program": "shared input name, equal-but-different signature defaults", "defaults": repr(defaults), "order": list(order), "nested_reader": nested_at}
                try:
                    g = Graph([nodes[j] for j in order], name="sd")
                except Exception as e:  # noqa: BLE001
                    ctx.violation("C01:valid-graph-rejected", f"defaults {defaults!r} compare equal, yet the graph was rejected: {e!r}", case)
                    continue
                exp = {f"o{j}": (repr(d), type(d).__name__) for j, d in enumerate(defaults)}
                for runner in ("sync", "async"):
                    rt.new_rec()
                    r = SyncRunner().run(g, {"x": "run:x"}) if runner == "sync" else asyncio.run(AsyncRunner().run(g, {"x": "run:x"}))
                    ctx.obs["shared_default_runs"] += 1
                    ctx.obs["values_compared"] += len(exp)
                    got = {k: r.values.get(k) for k in exp}
                    if got != exp:
                        ctx.violation("C01:values:wrong:shared-name-own-default", f"{runner}: readers of k with defaults {defaults!r} in order {list(order)} (nested reader: {nested_at}): got {got}, each node evaluated with its own default gives {exp}", {**case, "runner": runner})
    ctx.case({"directed": "shared-equal-defaults"}, True)


def identity_sentinel_defaults(ctx):
    """The usual `_MISSING = object()` idiom: a function tells 'argument left out' from 'argument given' by IDENTITY with
    its own signature default. Evaluating the function in dependency order with the default gives the 'left out'
    answer; so must a run that supplies nothing for the parameter (flat, nested, behind a renamed input, both runners,
    two runs in a row). Sentinels: a bare object(), None, Ellipsis, an Enum member, a class, a function, the empty
    tuple."""
    import asyncio
    import enum

    from hypergraph import AsyncRunner, FunctionNode, Graph, SyncRunner

    class Flag(enum.Enum):
        UNSET = 0

    class Marker:
        """a class used as the sentinel itself (not an instance)"""

    def helper():
        return None

    sentinels = {"object()": object(), "None": None, "Ellipsis": ..., "enum member": Flag.UNSET, "class": Marker, "function": helper, "()": ()}
    for label, sent in sentinels.items():
        for shape in ("flat", "nested", "nested-renamed"):

            def pick(x, opt=sent, _s=sent):
                return ("left out" if opt is _s else "given", x)

            nd = FunctionNode(pick, name="pick", output_name="o")
            if shape != "flat":
                gn = Graph([nd], name="box").as_node()
                if shape == "nested-renamed":
                    gn = gn.with_inputs(opt="opt_outer")
                nd = gn
            g = Graph([nd], name="sent")
            for runner in ("sync", "async"):
                for rep in range(2):
                    r = SyncRunner().run(g, {"x": 1}) if runner == "sync" else asyncio.run(AsyncRunner().run(g, {"x": 1}))
                    ctx.obs["identity_sentinel_runs"] += 1
                    ctx.obs["values_compared"] += 1
                    if r.values.get("o") != ("left out", 1):
                        ctx.violation("C01:values:wrong:identity-sentinel-default", f"{runner}, {shape}: a parameter whose signature default is the sentinel {label} was left out, yet the function did not receive its default object (`opt is SENTINEL` is False): {r.values!r}", {"program": f"pick(x, opt=<{label}>) {shape}", "runner": runner, "run": rep})
                        break
    ctx.case({"directed": "identity-sentinel-defaults"}, True)


def sibling_bound_graphs(ctx):
    """Several graphs derived with bind() from ONE ancestor (siblings and a chain) exist before any of them is used; each
    is then run, in several orders, and must evaluate with exactly its own bindings (other arguments from run-time
    values and signature defaults) - whatever its relatives were given."""
    import itertools

    spec = {"name": "sb", "nodes": [
        {"k": "fn", "name": "f", "params": [{"n": "x"}, {"n": "k"}], "outs": ["y"]},
        {"k": "fn", "name": "g", "params": [{"n": "y"}, {"n": "j", "d": "def:j"}], "outs": ["z"]},
    ], "bind": {}}
    binds = {"g1": {"k": "b1:k"}, "g2": {"k": "b2:k", "j": "b2:j"}, "g3": {"k": "b1:k", "j": "b3:j"}, "base": {}}
    orders = list(itertools.permutations(["g1", "g2", "g3", "base"]))
    for order in [orders[0], orders[5], orders[9], orders[14], orders[23]]:
        for runner in ("sync", "async"):
            rt.reset_program()
            from hgmon.build import build_program

            built = build_program(spec)
            base = built.graph
            fam = {"base": base}
            fam["g1"] = base.bind(k="b1:k")
            fam["g2"] = base.bind(k="b2:k", j="b2:j")
            fam["g3"] = fam["g1"].bind(j="b3:j")  # a chain: derived from g1 before g1 was ever used
            for name in order:
                sp = {**spec, "bind": dict(binds[name])}
                provided = {"x": "run:x"} if name != "base" else {"x": "run:x", "k": "run:k"}
                R = ref.ref_eval(sp, provided)
                exp = ref.visible_values(sp, R)
                built.graph = fam[name]
                o = core.execute(built, provided, runner, keep_program=True, warm=False)
                ctx.obs["sibling_bound_graph_runs"] += 1
                ctx.obs["values_compared"] += len(exp)
                if o.exc is not None or o.values != exp:
                    ctx.violation("C01:values:wrong:sibling-bound-graphs", f"{runner}: {name} (bindings {binds[name]}) run in order {list(order)}: {o.status} {o.exc!r} {core.short(o.values, 300)}; dependency-order evaluation with its own bindings gives {core.short(exp, 300)}", {"spec": spec, "order": list(order), "graph": name, "runner": runner})
                    break
    ctx.case({"directed": "sibling-bound-graphs"}, True)


def run(ctx):
    n = 450 if ctx.tier == "quick" else 9000
    if ctx.replay:
        c = ctx.replay["case"]
        if "spec" not in c:
            equal_but_different(ctx)
            ctx.case("replay2")
            return
        check_case(ctx, c["spec"], c["provided"], c["select"], c["runner"], "replay")
        ctx.case(gen.shape_of(c["spec"]))
        ctx.case("replay2")
        return
    if ctx.shard[0] == 0:
        equal_but_different(ctx)
        shared_equal_defaults(ctx)
        identity_sentinel_defaults(ctx)
        sibling_bound_graphs(ctx)
        # directed: a nested graph with its own binding that the selection does not need but that can still run
        for sel_kind in ("graph", "runtime"):
            for sel in (["p"], ["p", "m"]):
                nodes = [
                    {"k": "fn", "name": "up", "params": [{"n": "a"}], "outs": ["m"]},
                    {"k": "sub", "name": "inner", "prog": {"name": "inner", "nodes": [{"k": "fn", "name": "f", "params": [{"n": "m"}, {"n": "k"}], "outs": ["o"]}], "bind": {"k": "bound:K"}}},
                    {"k": "fn", "name": "other", "params": [{"n": "m"}], "outs": ["p"]},
                ]
                dspec = {"name": "g", "nodes": nodes, "bind": {}}
                if sel_kind == "graph":
                    dspec["select"] = list(sel)
                for runner in ("sync", "async"):
                    check_case(ctx, dspec, {"a": "run:a"}, None if sel_kind == "graph" else list(sel), runner, f"directed-unselected-bound-subgraph-{sel_kind}")
        ctx.case({"directed": "unselected-bound-subgraph"}, True)
        # directed: a parameter bound on the graph that only nodes OUTSIDE the graph-level selection consume: the
        # selection narrows what is returned and validated, every satisfiable node still runs - with the bound value
        for sel in (["p"], ["p", "m"]):
            for order in (0, 1):
                nodes = [
                    {"k": "fn", "name": "up", "params": [{"n": "a"}], "outs": ["m"]},
                    {"k": "fn", "name": "store", "params": [{"n": "m"}, {"n": "k"}], "outs": ["stored"]},
                    {"k": "fn", "name": "audit", "params": [{"n": "k"}], "outs": []},
                    {"k": "fn", "name": "other", "params": [{"n": "m"}], "outs": ["p"]},
                ]
                if order:
                    nodes.reverse()
                dspec = {"name": "g", "nodes": nodes, "bind": {"k": "bound:K"}, "select": list(sel)}
                for runner in ("sync", "async"):
                    check_case(ctx, dspec, {"a": "run:a"}, None, runner, "directed-bound-consumed-outside-selection")
                    check_case(ctx, {**dspec, "select": None}, {"a": "run:a"}, list(sel), runner, "directed-bound-consumed-outside-runtime-selection")
        ctx.case({"directed": "bound-consumed-outside-selection"}, True)
        # directed: a nested group whose wrapper output is renamed several times and ends on a name it had before
        # (a->b->c->b, a->b->a->b): the value still arrives under the final name and feeds the outside consumer
        for hist in ([{"m": "b"}, {"b": "c"}, {"c": "b"}], [{"m": "b"}, {"b": "m"}, {"m": "b"}], [{"m": "b"}, {"b": "c"}, {"c": "d"}, {"d": "c"}]):
            final = ref.forward_map(["m"], hist)["m"]
            dspec = {"name": "g", "nodes": [
                {"k": "sub", "name": "grp", "prog": {"name": "grp", "nodes": [{"k": "fn", "name": "mk", "params": [{"n": "a"}], "outs": ["m"]}], "bind": {}}, "rename_out": [dict(b) for b in hist]},
                {"k": "fn", "name": "use", "params": [{"n": final}], "outs": ["p"]},
            ], "bind": {}}
            for runner in ("sync", "async"):
                check_case(ctx, dspec, {"a": "run:a"}, None, runner, "directed-nested-output-renamed-back")
        ctx.case({"directed": "nested-output-renamed-back"}, True)
    for i in range(n):
        rng = ctx.rng
        if i % 8 == 3:
            waiting_dags(ctx, i)
            continue
        if i % 8 == 7:
            # a mapping node around a small DAG whose inner graph binds a broadcast input; the caller overrides the
            # binding in 60% of the cases (run-time value > bound value, also through the map pipeline)
            from hgmon import families

            fam = families.mapped(rng, err="raise")
            sub = fam["spec"]["nodes"][0]
            bcast = [k for k in fam["inputs"] if k not in fam["over"]]
            if not bcast:
                # always have a broadcast input next to the mapped ones
                ns0 = next(ns for ns in sub["prog"]["nodes"] if ns["k"] == "fn")
                ns0["params"].append({"n": "bk"})
                fam["inputs"]["bk"] = "run:bk"
                bcast = ["bk"]
            if i % 16 == 7:
                for k in fam["over"]:
                    if not fam["inputs"][k]:
                        fam["inputs"][k] = [f"{k}:0", f"{k}:1"]
            provided = dict(fam["inputs"])
            if bcast:
                b = rng.choice(bcast)
                sub["prog"].setdefault("bind", {})[b] = f"bound:{b}"
                if i % 16 != 7 and rng.random() < 0.5:
                    del provided[b]
                else:
                    ctx.obs["mapped_inner_binding_overridden"] += 1
            ok = False
            for runner in ("sync", "async"):
                out = check_case(ctx, fam["spec"], provided, None, runner, "mapped")
                ok = ok or (out is not None and bool(out.values))
            ctx.obs["mapped_programs"] += 1
            ctx.case({"s": gen.shape_of(fam["spec"]), "p": sorted(provided), "mapped": True}, ok)
            continue
        spec = gen.gen_dag(rng)
        bind, provided = gen.assign_sources(rng, spec)
        spec["bind"] = bind
        if rng.random() < 0.5:
            ctx.obs["programs_with_permuted_wiring"] += 1 if gen.permute_wiring(rng, spec) else 0
        graph_level_select = False
        if rng.random() < 0.25:
            # one dependency-closed group wrapped as a nested graph (bindings may move inside): still acyclic and
            # gate-free, every argument still comes from edge > run-time value > binding > default
            res = gen.nest_once(rng, spec, "grp", allow_select=False)
            if res:
                spec = res[1]
                ctx.obs["programs_with_nested_group"] += 1
                graph_level_select = rng.random() < 0.5
                req0, opt0 = ref.ref_inputs(spec)
                provided = {k: v for k, v in provided.items() if k in req0 or k in opt0}
                for r in req0:
                    provided.setdefault(r, f"run:{r}")
        select = None
        if rng.random() < (0.6 if graph_level_select else 0.35):
            outs = [e for ns in spec["nodes"] for e in ref.data_output_names(ns)]
            subs_bound = [ns for ns in spec["nodes"] if ns["k"] == "sub" and ns["prog"].get("bind")]
            if subs_bound and rng.random() < 0.7:
                # narrow to outputs produced OUTSIDE a nested graph that carries its own binding: the nested graph
                # is then unselected but may still run, and its bound input must still resolve
                outside = [e for ns in spec["nodes"] if ns["k"] != "sub" for e in ref.data_output_names(ns)]
                outs = outside or outs
                graph_level_select = True
            if outs:
                select = rng.sample(outs, rng.randint(1, min(2, len(outs))))
                req, opt = ref.ref_inputs(spec, select)
                # keep only what the narrowed contract needs (plus a random part of the rest)
                provided = {k: v for k, v in provided.items() if k in req or k in opt or rng.random() < 0.3}
                for r in req:
                    if r not in provided and r not in bind:
                        provided[r] = f"run:{r}"
        if graph_level_select and select:
            # the same narrowing configured on the graph (select()) instead of passed to run()
            spec = {**spec, "select": list(select)}
            select = None
            ctx.obs["graph_level_select"] += 1
        variants = [("orig", spec), ("shuffled", gen.shuffled(rng, spec))]
        nontrivial = False
        for label, s in variants:
            for runner in ("sync", "async"):
                out = check_case(ctx, s, provided, select, runner, label)
                if out is not None and out.values and len(out.rec.invocations()) >= 2:
                    nontrivial = True
        shape = {"s": gen.shape_of(spec), "p": sorted(provided), "sel": sorted(select) if select else None}
        ctx.case(shape, nontrivial, sample={"spec": spec, "provided": provided, "select": select} if i < 2 else None)
