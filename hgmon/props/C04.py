"""C04 - loops iterate exactly as the gate dictates and always terminate."""

from __future__ import annotations

from hgmon import core, loops, monitors, ref, rt

LEVEL = "exploration"
RULE = (
    "loop templates x parameters: counter loop with body chain 1-3, route or if/else gate, exit via END or an exit "
    "node, default-open/closed gate, entry at every listed entry point (run-time values or with_entrypoint); "
    "self-accumulating chat loop; gate synchronised on an emit of the last body node (counter and chat form, open "
    "and closed); the counter loop nested 1-3 levels inside a DAG; iteration counts 0..9, start values 0..3; both "
    "runners. Oracle: a plain Python while-loop over the same user functions (final values, per-node execution "
    "counts); step count per run from the step tap must be <= max_iterations; max_iterations swept from 1 past the "
    "needed number of steps: below it the run must report InfiniteLoopError (raised or collected) whose partial values "
    "equal the sequential state after exactly that many single-node steps, at/above it the run must complete "
    "identically. Non-trivial: >= 1 body execution or a cap below the needed steps; distinct = (template, parameters, cap)."
    ' Also: a gate synchronised on TWO signals emitted by parallel body branches of different length (interval loop) and two exit gates that share one exit node, in both gate list orders.'
    ' Also: every non-nested template once more declared through Graph(edges=[...]) with producer->consumer, self, signal and gate->target arrows; fan-out/join cycles (one and two loop values) and a three-stage turn whose gate reads the first stage and waits for the last.'
    " Every template (size 1 and 3) also with all function nodes and/or gates cache=True, three runs on one cache backend (cold, warm, warm): values of the sequential loop each time, no node more often than in it. Template with two writers of one name in exclusive branches taking turns next to the counter cycle."
)
ASSUMPTIONS = [
    "the sequential reference shares only the user functions (hgmon.beh) with the program, no framework semantics",
    "partial-state exactness is only demanded when the observed steps were single-node steps in the reference order",
]
DECIDING = ["runs_compared", "counts_compared", "cap_runs"]
THOROUGH_SHARDS = 12
REPLAY_BY_SEED = True  # histories are regenerated from the seed; see main.py


def counts_of(rec, prefix):
    out = {}
    for e in rec.ev:
        if e[0] == "enter":
            out[e[1]] = out.get(e[1], 0) + 1
    return out


def top_steps(rec):
    """Ready sets of the top-level run, in order (non-empty ones are executed steps)."""
    top = None
    steps = []
    for e in rec.ev:
        if e[0] == "run_begin" and e[3] is None and top is None:
            top = e[1]
        elif e[0] == "step" and e[1] == top:
            steps.append(e[3])
    return steps


def check_template(ctx, t, sweep=True):
    spec, inputs, R = t["spec"], t["inputs"], t["ref"]
    base_case = {"template": t["template"], "spec": spec, "inputs": inputs}
    S_by_runner = {}
    for runner in ("sync", "async"):
        case = {**base_case, "runner": runner}
        sched = rt.Sched(default="rand", rng=ctx.rng) if runner == "async" else None
        s = core.with_async(spec, runner == "async", ctx.rng)
        o = core.execute(s, inputs, runner, sched=sched)
        ctx.obs["runs_compared"] += 1
        if o.deadlock:
            ctx.violation("C04:deadlock", "run neither returned nor reported an error (logical deadlock)", case)
            continue
        if o.inconclusive:
            ctx.inconc(o.inconclusive)
            continue
        if o.exc is not None:
            ctx.violation("C04:raised:" + type(o.exc).__name__, f"run raised {o.exc!r}; sequential loop gives {core.short(R['values'])}", case)
            continue
        # classifier of the known finding: a node fed by a value that is re-produced EQUAL in every iteration is not
        # re-triggered (versions advance on change only); witness: only that consumer's count / output deviates
        def eq_mech(names):
            return ":equal-value-reproduction" if R.get("mechanism") == "equal-value-reproduction" and set(names) <= {"acc", "total"} else ""

        if o.values != R["values"]:
            diffk = [k for k in set(o.values or {}) | set(R["values"]) if (o.values or {}).get(k, "<absent>") != R["values"].get(k, "<absent>")]
            ctx.violation("C04:values" + eq_mech(diffk), f"{runner}: final values {core.short(o.values)} differ from the sequential while-loop {core.short(R['values'])}", case)
        got = counts_of(o.rec, spec["name"])
        for n, c in R["counts"].items():
            fid = f"{spec['name']}/{n}"
            ctx.obs["counts_compared"] += 1
            if got.get(fid, 0) != c:
                ctx.violation(
                    "C04:count:" + ("fewer" + eq_mech([n]) if got.get(fid, 0) < c else "more"),
                    f"{runner}: {fid} executed {got.get(fid, 0)} times, the while-loop executes it {c} times (all counts: got {got}, expected {R['counts']})",
                    case,
                )
                break
        for f in got:
            if f.split("/", 1)[1] not in R["counts"] and f.split("/", 1)[1] not in R.get("uncounted", ()):
                ctx.violation("C04:unexpected-node", f"{runner}: {f} executed {got[f]} times but never runs in the sequential loop", case)
        for run, nsteps in monitors.steps_per_run(o.rec).items():
            ctx.obs["cap_checked_runs"] += 1
            if nsteps > 1000:
                ctx.violation("C04:cap-exceeded", f"run executed {nsteps} steps with the default cap 1000", case)
        steps = [x for x in top_steps(o.rec) if x]
        S_by_runner[runner] = steps
    if not sweep or R.get("trace") is None:
        return
    if not rt.TAPS_OK.get("step"):
        ctx.inconc("superstep tap target missing: the max_iterations sweep cannot be decided")
        return
    # ---- max_iterations sweep ----
    for runner in ("sync", "async"):
        steps = S_by_runner.get(runner)
        if steps is None:
            continue
        S = len(steps)
        singleton = all(len(x) == 1 for x in steps) and [x[0] for x in steps] == [n for n, _ in R["trace"]]
        caps = sorted(set([0, 1, 2, max(1, S - 1), S, S + 1, S + 3] + [ctx.rng.randint(1, max(1, S)) for _ in range(2)]))
        for cap in caps:
            for mode in ("continue", "raise"):
                case = {**base_case, "runner": runner, "max_iterations": cap, "error_handling": mode}
                s = core.with_async(spec, runner == "async", ctx.rng)
                o = core.execute(s, inputs, runner, max_iterations=cap, error_handling=mode)
                ctx.obs["cap_runs"] += 1
                for run, nsteps in monitors.steps_per_run(o.rec).items():
                    if nsteps > cap:
                        ctx.violation("C04:cap-exceeded", f"{runner}: {nsteps} steps executed with max_iterations={cap}", case)
                err = o.error
                if cap >= S:
                    if o.status != "completed" or o.values != R["values"]:
                        ctx.violation("C04:cap-sufficient-but-failed", f"{runner}: needs {S} steps, max_iterations={cap}: status {o.status} error {err!r} values {core.short(o.values)}", case)
                    continue
                ctx.case({"t": t["template"], "in": inputs, "cap": cap, "r": runner}, True)
                if err is None or type(err).__name__ != "InfiniteLoopError":
                    ctx.violation("C04:no-error-at-cap", f"{runner}: needs {S} steps, max_iterations={cap}: expected InfiniteLoopError, got status {o.status} error {err!r}", case)
                    continue
                if mode == "raise":
                    if not o.status.startswith("raised"):
                        ctx.violation("C04:cap-not-raised", f"{runner}: InfiniteLoopError not raised in raise mode (status {o.status})", case)
                    continue
                if o.status != "failed":
                    ctx.violation("C04:cap-status", f"{runner}: status {o.status} with InfiniteLoopError", case)
                    continue
                if singleton:
                    exp = {}
                    declared = {e for ns in spec["nodes"] for _, e in ref.node_outputs(ns)}
                    for k, v in inputs.items():
                        if k in declared:
                            exp[k] = v
                    for n, outs in R["trace"][:cap]:
                        exp.update(outs)
                    ctx.obs["partial_exact_checked"] += 1
                    if o.values != exp:
                        ctx.violation("C04:partial-state", f"{runner}: InfiniteLoopError after {cap} steps carries {core.short(o.values)}, the sequential state after {cap} single-node steps is {core.short(exp)}", case)
                else:
                    ctx.obs["partial_exact_skipped"] += 1


def explicit_variant(ctx, t):
    """The same loop declared through Graph(edges=[...]) with every arrow of the diagram spelled out: producer ->
    consumer pairs (the self-arrow of a node that consumes its own output included), signal producer -> waiter, and
    gate -> each of its targets. The loop must iterate exactly as with inferred edges."""
    from hgmon import gen

    if any(ns["k"] == "sub" for ns in t["spec"]["nodes"]) or t["ref"].get("mechanism"):
        return
    t2 = {**t, "spec": gen.with_explicit_edges(t["spec"], self_edges=True), "template": t["template"] + "+explicit-edges"}
    ctx.obs["explicit_edge_templates"] += 1
    check_template(ctx, t2, sweep=False)


def cached_variant(ctx, t):
    """The same loop with every function node and gate marked cache=True, run three times on ONE cache backend (cold,
    then twice warm - results, routing decisions and ordering signals replayed from the cache): each run must end with
    the values of the sequential while-loop and no node may execute more often than in it."""
    import copy

    from hypergraph import InMemoryCache

    if any(ns["k"] in ("sub", "int") or ns.get("gen") for ns in t["spec"]["nodes"]) or t["ref"].get("mechanism"):
        return
    spec = copy.deepcopy(t["spec"])
    skip = ctx.rng.choice([None, None, "gates", "fns"])  # everything cached, or only one kind
    for ns in spec["nodes"]:
        if (ns["k"] == "fn" and skip != "fns") or (ns["k"] in ("route", "ifelse") and skip != "gates"):
            ns["cache"] = True
    R = t["ref"]
    for runner in ("sync", "async"):
        cache = InMemoryCache()
        for k in range(3):
            s = core.with_async(spec, runner == "async", ctx.rng)
            o = core.execute(s, t["inputs"], runner, cache=cache, max_iterations=400, sched=rt.Sched(default="rand", rng=ctx.rng) if runner == "async" else None)
            ctx.obs["cached_template_runs"] += 1
            case = {"template": t["template"] + "+cache", "spec": spec, "inputs": t["inputs"], "runner": runner, "run": k, "uncached_kind": skip}
            if o.deadlock or o.inconclusive:
                ctx.inconc(o.inconclusive or "deadlock")
                break
            if o.exc is not None:
                ctx.violation("C04:raised:" + type(o.exc).__name__, f"{runner}, run {k} on one cache: raised {o.exc!r}; sequential loop gives {core.short(R['values'])}", case)
                break
            if o.values != R["values"]:
                ctx.violation("C04:values:cached", f"{runner}, run {k} on one cache ({'cold' if k == 0 else 'warm'}): final values {core.short(o.values)} differ from the sequential while-loop {core.short(R['values'])}", case)
                break
            got = counts_of(o.rec, spec["name"])
            over = {f: c for f, c in got.items() if c > R["counts"].get(f.split("/", 1)[1], 0) and f.split("/", 1)[1] not in R.get("uncounted", ())}
            if over:
                ctx.violation("C04:count:more", f"{runner}, run {k} on one cache: {over} exceed the while-loop's counts {R['counts']}", case)
                break


def run(ctx):
    if ctx.replay:
        c = ctx.replay["case"]
        t = {"spec": c["spec"], "inputs": c["inputs"], "template": c["template"], "ref": None}
        ctx.inconc("replay of C04 cases needs the template parameters; re-run the tier with the recorded seed")
        return
    n = 160 if ctx.tier == "quick" else 4000
    # systematic part: every iteration count for the core templates
    sysn = 0
    for N in range(0, 10 if ctx.tier == "thorough" else 6):
        for mk in (
            lambda: loops.counter_loop(N, 0, 1, "route"),
            lambda: loops.counter_loop(N, 1, 2, "ifelse", True),
            lambda: loops.counter_loop(N, 0, 1, "route", True, exit_name="b0_done"),
            lambda: loops.accumulator_loop(N, 0),
            lambda: loops.signal_loop(N, 0, "counter"),
            lambda: loops.signal_loop(N, 1, "chat"),
            lambda: loops.nested_loop(N, 0, 1, "route", 1),
            lambda: loops.two_acc_loop(N, 0),
            lambda: loops.lagged_signal_loop(N, N % 3),
            lambda: loops.const_feed_loop(N, N % 2),
            lambda: loops.interval_loop(2 * N + 1, N % 3),
            lambda: loops.two_exit_loop(N % 2, 100, 2 * N + 1, "conv"),
            lambda: loops.two_exit_loop(N % 2, 100, 2 * N + 1, "budget"),
            lambda: loops.two_exit_loop(0, 2 * N, 100, "budget"),
            lambda: loops.fanout_join_loop(4 * N, N % 2, "empty"),
            lambda: loops.early_read_signal_loop(N, 0, "route"),
            lambda: loops.early_read_signal_loop(N + 1, 1, "ifelse"),
            lambda: loops.fanout_join_pair_loop(5 * N, N % 2),
            lambda: loops.fanout_join_loop(4 * N, 0, "empty", True),
            lambda: loops.alternating_writers_loop(N + 1, N % 2),
        ):
            if ctx.shard[0] != sysn % ctx.shard[1]:
                sysn += 1
                continue
            sysn += 1
            t = mk()
            check_template(ctx, t)
            explicit_variant(ctx, t)
            if N in (1, 3):
                cached_variant(ctx, t)
            ctx.case({"t": t["template"], "in": t["inputs"], "N": N}, sum(t["ref"]["counts"].values()) > 1, sample={"template": t["template"], "inputs": t["inputs"], "spec": t["spec"], "expected": t["ref"]["values"]} if N == 2 else None)
    for i in range(n):
        t = loops.gen_loop(ctx.rng)
        check_template(ctx, t, sweep=ctx.rng.random() < 0.5)
        if ctx.rng.random() < 0.4:
            explicit_variant(ctx, t)
        ctx.case({"t": t["template"], "in": t["inputs"], "n": str(t["ref"]["counts"])}, sum(t["ref"]["counts"].values()) > 1)
