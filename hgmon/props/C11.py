"""C11 - errors surface unwrapped; partial results are exactly the completed work."""

from __future__ import annotations

import copy

from hgmon import core, gen, ref, rt
from hgmon.build import all_fids

LEVEL = "fault_enumeration"
RULE = (
    "for every generated program (DAG, deterministic gated program, the DAG with groups nested to depth 1-3) EACH leaf "
    "callable (function nodes and gates, also inside nested graphs) is made the failing one in turn, plus sampled pairs "
    "failing together; the injected exceptions are of several classes (plain Exception, subclasses of ValueError, "
    "KeyError and RuntimeError, instances with an empty message); error_handling raise and continue (collected errors "
    "also with an explicit selection naming outputs the failure prevents, under every on_missing policy); sync runner and async runner under a random completion "
    "order; and mapped forms: runner.map and a map_over nested-graph node where chosen items fail, raise and continue "
    "mode, several max_concurrency values. Oracle: identity (`is`) with the one pre-built exception object of the node "
    "that fails first in (step, node-list) order; FAILED values must contain every value completed in an earlier step "
    "(RefEval levels), no output of the failing node or of anything downstream of it, and no value different from the "
    "fault-free evaluation; same-step siblings may or may not be present. Non-trivial: the failing node has >= 1 "
    "upstream or downstream node; distinct = (program shape, failing node position, mode)."
    ' A third of the programs have outputs that cannot be copied or pickled (UTerm); exception classes include falsy objects (__bool__ False, __len__ 0) and one whose __str__ itself raises; the classes are used in turn for the map cases.'
    " Exception classes include the library's own (MissingInputError, IncompatibleRunnerError, GraphConfigError, InfiniteLoopError) raised by a node function. Cyclic programs whose exit node fails after the loop (two writers of one name in exclusive branches taking turns; counter loops): the FAILED result carries the latest value of every name."
    " Also: an exception class whose __str__ itself raises; FAILED items of runner.map(error_handling='continue') must carry what a single failing run on that item had completed."
)
ASSUMPTIONS = [
    "programs have no fallback on upstream-fed parameters here, so each node runs in exactly one step (levels are exact)",
    "interrupt handlers are not failure points (their errors are wrapped in RuntimeError by documented design)",
]
DECIDING = ["faults_injected", "identity_checked", "partial_checked"]
THOROUGH_SHARDS = 12


class Boom(Exception):
    pass


class BoomValue(ValueError):
    """A domain error deriving from a builtin the library itself raises and catches."""


class BoomKey(KeyError):
    pass


class BoomRuntime(RuntimeError):
    pass


class BoomFalsy(Exception):
    """An exception object that is falsy (a collection-like error with __len__ == 0 / __bool__ False)."""

    def __bool__(self):
        return False


class BoomEmptyLen(Exception):
    def __len__(self):
        return 0


class BoomNoStr(Exception):
    """An exception whose own __str__ fails (a message template over an attribute that was never set)."""

    def __str__(self):
        return "failed on item %d" % self.args[0]  # args[0] is a str: TypeError


# Lib*: the library's OWN exception classes raised by a node function (a node that drives a sub-workflow through its own
# runner, or builds a graph on the fly, re-raises exactly these)
EXC_KINDS = ["Boom", "BoomValue", "BoomKey", "BoomRuntime", "BoomValue-empty", "Assertion-empty", "Boom", "BoomFalsy", "BoomEmptyLen", "BoomNoStr", "LibMissingInput", "LibIncompatibleRunner", "LibGraphConfig", "LibInfiniteLoop"]


MAP_KIND_ORDER = ["BoomFalsy", "BoomEmptyLen", "BoomNoStr", "LibMissingInput", "Boom", "LibGraphConfig", "BoomKey", "BoomValue-empty", "LibIncompatibleRunner", "BoomRuntime", "Assertion-empty", "LibInfiniteLoop", "BoomValue"]


def make_exc(kind, msg):
    """Exceptions of several classes, some with an EMPTY message (str(e) == '')."""
    if kind == "BoomValue":
        return BoomValue(msg)
    if kind == "BoomKey":
        return BoomKey(msg)
    if kind == "BoomRuntime":
        return BoomRuntime(msg)
    if kind == "BoomValue-empty":
        return BoomValue()
    if kind == "Assertion-empty":
        return AssertionError()
    if kind == "BoomFalsy":
        return BoomFalsy(msg)
    if kind == "BoomEmptyLen":
        return BoomEmptyLen(msg)
    if kind == "BoomNoStr":
        return BoomNoStr(msg)
    if kind.startswith("Lib"):
        from hypergraph.exceptions import IncompatibleRunnerError, InfiniteLoopError, MissingInputError
        from hypergraph.graph.validation import GraphConfigError

        if kind == "LibMissingInput":
            return MissingInputError(["inner_x"], ["inner_y"], msg)
        if kind == "LibIncompatibleRunner":
            return IncompatibleRunnerError(msg, node_name="inner_node")
        if kind == "LibGraphConfig":
            return GraphConfigError(msg)
        return InfiniteLoopError(7, msg)
    return Boom(msg)


def top_owner(spec, fid):
    """Top-level node name that contains the leaf callable fid."""
    for ns in spec["nodes"]:
        if ns["k"] == "sub":
            if _contains(ns["prog"], fid):
                return ns["name"]
        elif (ns.get("fid") or f"{spec['name']}/{ns['name']}") == fid:
            return ns["name"]
    return None


def _contains(prog, fid):
    for ns in prog["nodes"]:
        if ns["k"] == "sub":
            if _contains(ns["prog"], fid):
                return True
        elif ns.get("fid") == fid:
            return True
    return False


def order_key(spec, fid, R0):
    """(levels from the top, list positions from the top) of a leaf in the fault-free evaluation."""
    pos = []

    def walk(prog):
        for i, ns in enumerate(prog["nodes"]):
            if ns["k"] == "sub":
                if _contains(ns["prog"], fid):
                    pos.append(i)
                    walk(ns["prog"])
                    return True
            elif ns.get("fid") == fid:
                pos.append(i)
                return True
        return False

    walk(spec)
    lv = R0.fid_level.get(fid)
    return (lv, tuple(pos))


def expected_first(spec, fids, R0):
    """Which failing callable is reported: the one reached first in (step, list order),
    compared level by level from the top."""
    best = None
    for f in fids:
        lv, pos = order_key(spec, f, R0)
        if lv is None:
            continue  # never reached in the fault-free run
        key = tuple(x for pair in zip(lv, pos) for x in pair)
        if best is None or key < best[0]:
            best = (key, f)
    return best[1] if best else None


def check_failed_result(ctx, spec, inputs, fids, excs, o, label, case):
    R0 = ref.ref_eval(spec, inputs)
    first = expected_first(spec, fids, R0)
    if first is None:
        ctx.obs["fault_not_reached"] += 1
        if o.status != "completed":
            ctx.violation("C11:spurious-failure", f"{label}: failing node is never reached, yet status {o.status} ({o.error!r})", case)
        return
    ctx.obs["identity_checked"] += 1
    err = o.exc if o.exc is not None else o.error
    if err is not excs[first]:
        wrapped = " (the node's exception is in its __cause__/__context__ chain: it was wrapped)" if _chain_has(err, excs[first]) else ""
        other = [f for f in fids if err is excs.get(f)]
        ctx.violation(
            "C11:identity" + (":wrapped" if wrapped else ":other-node" if other else ""),
            f"{label}: surfaced {err!r} (type {type(err).__name__}) is not the object raised by {first}{wrapped}{' but the one of ' + other[0] if other else ''}",
            case,
        )
        return
    if o.exc is not None:
        return  # raise mode: nothing more to inspect
    if o.status != "failed":
        ctx.violation("C11:status", f"{label}: error collected but status is {o.status}", case)
        return
    # ---- partial values ----
    Rf = ref.ref_eval(spec, inputs, fail=set(fids))
    owner = top_owner(spec, first)
    L = R0.level.get(owner)
    full = ref.visible_values(spec, R0)
    sel = spec.get("select")
    must, forbidden, allowed = {}, set(), set()
    # Nodes of an earlier step must be present; same-step siblings may be; the failing node and
    # every node of a later step (which includes everything that depends on it) cannot have
    # completed. A name is forbidden only if no node that may have completed produces it
    # (exclusive branches share output names).
    for ns in spec["nodes"]:
        nm = ref.node_name(ns)
        outs = [e for e in ref.data_output_names(ns)]
        lv = R0.level.get(nm)
        if nm == owner or lv is None or lv > L:
            forbidden.update(outs)
        else:
            allowed.update(outs)
            if lv < L:
                for e in outs:
                    if e in full and nm in R0.values_by_node and e in R0.values_by_node[nm]:
                        must[e] = full[e]
    forbidden -= allowed
    ctx.obs["partial_checked"] += 1
    vals = o.values or {}
    for k, v in must.items():
        if k not in vals:
            ctx.violation("C11:partial-missing", f"{label}: {k} was completed in an earlier step than the failure of {first} but is missing from the FAILED result {sorted(vals)}", case)
            return
    for k in vals:
        if k in forbidden:
            ctx.violation("C11:partial-downstream", f"{label}: FAILED result contains {k}, an output of the failing node {first} or of something downstream of it", case)
            return
        if k not in full:
            ctx.violation("C11:partial-undeclared", f"{label}: FAILED result contains {k}, which the fault-free run does not return", case)
            return
        if vals[k] != full[k]:
            ctx.violation("C11:partial-wrong-value", f"{label}: FAILED result has {k}={core.short(vals[k])}, the completed work gives {core.short(full[k])}", case)
            return


def _chain_has(err, target):
    seen = 0
    e = err
    while e is not None and seen < 8:
        if e is target:
            return True
        e = e.__cause__ or e.__context__
        seen += 1
    return False


def inject_all(ctx, spec, inputs, label):
    fids = [f for f, ns in all_fids(spec).items() if ns["k"] in ("fn", "ifelse", "route")]
    try:
        R0 = ref.ref_eval(spec, inputs)
    except ref.Ambiguous:
        return 0
    reached = [f for f in fids if f in R0.fid_level]
    combos = [[f] for f in fids]
    if len(reached) >= 2:
        for _ in range(min(4, len(reached))):
            combos.append(ctx.rng.sample(reached, 2))
    n = 0
    for combo in combos:
        kind = ctx.rng.choice(EXC_KINDS)
        ctx.obs["exc_kind:" + kind] += 1
        excs = {f: make_exc(kind, f"boom in {f}") for f in combo}
        for mode in ("raise", "continue"):
            for runner in ("sync", "async"):
                s = core.with_async(spec, runner == "async", ctx.rng)
                sched = rt.Sched(default="rand", rng=ctx.rng) if runner == "async" else None
                # a third of the executions are observed by a recording processor: what the events layer does with
                # the exception (its text, its type) must not change what surfaces
                observed = ctx.rng.random() < 0.34 or kind == "BoomNoStr"
                procs = None
                if observed:
                    Rec_, ARec_ = rt.make_processors()
                    procs = [Rec_("p")] if runner == "sync" else [ARec_("p", ctx.rng, 1)]
                    ctx.obs["observed_fault_runs"] += 1
                o = core.execute(s, inputs, runner, sched=sched, fail=excs, error_handling=mode, processors=procs)
                ctx.obs["faults_injected"] += 1
                n += 1
                case = {"spec": spec, "inputs": inputs, "failing": combo, "mode": mode, "runner": runner, "program": label, "exc_kind": kind, "with_processor": observed}
                if o.deadlock or o.inconclusive:
                    ctx.inconc(o.inconclusive or "deadlock under fault injection")
                    continue
                check_failed_result(ctx, spec, inputs, combo, excs, o, f"{label}/{runner}/{mode}", case)
                if mode == "continue" and len(combo) == 1 and ctx.rng.random() < 0.4:
                    n += selected_failed(ctx, spec, inputs, combo, excs, s, runner, R0, f"{label}/{runner}/continue+select", case)
    return n


def selected_failed(ctx, spec, inputs, combo, excs, s, runner, R0, label, case):
    """error_handling='continue' with an explicit selection that names outputs the failure prevents, under every
    on_missing policy: still a FAILED result carrying the node's own exception (the policy is about completed runs)."""
    first = expected_first(spec, combo, R0)
    if first is None or spec.get("select"):
        return 0
    full = ref.visible_values(spec, R0)
    names = sorted(full)
    if not names:
        return 0
    n = 0
    for pol in ("error", "warn", "ignore"):
        sel = ctx.rng.sample(names, ctx.rng.randint(1, min(3, len(names))))
        sched = rt.Sched(default="rand", rng=ctx.rng) if runner == "async" else None
        o = core.execute(s, inputs, runner, sched=sched, fail=excs, error_handling="continue", select=sel, on_missing=pol)
        ctx.obs["faults_injected"] += 1
        ctx.obs["selected_failed_runs"] += 1
        n += 1
        c2 = {**case, "select": sel, "on_missing": pol}
        if o.deadlock or o.inconclusive:
            continue
        if o.exc is not None:
            ctx.violation("C11:continue-mode-raised", f"{label} select={sel} on_missing={pol}: errors are collected, yet the call raised {o.exc!r} instead of returning a FAILED result carrying {excs[first]!r}", c2)
        elif o.status != "failed" or o.error is not excs[first]:
            ctx.violation("C11:identity", f"{label} select={sel} on_missing={pol}: status {o.status}, error {o.error!r}; expected FAILED with the node's own exception object", c2)
        elif any(k not in sel for k in (o.values or {})):
            ctx.violation("C11:partial-undeclared", f"{label} select={sel}: FAILED result contains {sorted(set(o.values) - set(sel))} outside the selection", c2)
    return n


def map_faults(ctx, i):
    """Failing items under runner.map and under a map_over nested-graph node."""
    rng = ctx.rng
    inner = gen.gen_dag(rng, n_nodes=(2, 4), n_inputs=(1, 2), p_default_input=0.0, p_default_edge=0.0, p_gen=0.0, name="inner")
    for ns in inner["nodes"]:
        ns["fid"] = f"inner/{ns['name']}"
    ins = gen.consumed_inputs(inner)
    over = ins[0]
    n_items = rng.randint(1, 4)
    items = [f"item{j}" for j in range(n_items)]
    bad_items = set(rng.sample(items, rng.randint(1, max(1, n_items // 2 + 1))))
    consumers = [ns for ns in inner["nodes"] if any(p["n"] == over for p in ns["params"])]
    victim = rng.choice(consumers)
    vfid = victim["fid"]
    mkind = MAP_KIND_ORDER[ctx.obs["map_fault_cases"] % len(MAP_KIND_ORDER)]  # every class in turn, the unusual ones first
    ctx.obs["map_fault_cases"] += 1
    excs = {it: make_exc(mkind, f"boom on {it}") for it in items}
    case = {"inner": inner, "over": over, "items": items, "bad": sorted(bad_items), "victim": vfid}

    first_bad = next(it for it in items if it in bad_items)
    base_inputs = {k: f"run:{k}" for k in ins if k != over}
    for runner in ("sync", "async"):
        for mode in ("raise", "continue"):
            for k in ((None,) if runner == "sync" else (None, 1, 2)):
                rt.reset_program()
                from hgmon.build import build_program

                built = build_program(core.with_async(inner, runner == "async", rng))
                rt.FAIL_IF[vfid] = _FailItems(over, bad_items, excs)
                sched = rt.Sched(default="rand", rng=rng) if runner == "async" else None
                o = core.execute(built, {**base_inputs, over: list(items)}, runner, sched=sched, map_over=over, error_handling=mode, max_concurrency=k)
                ctx.obs["faults_injected"] += 1
                c2 = {**case, "runner": runner, "mode": mode, "max_concurrency": k, "form": "runner.map"}
                if o.deadlock or o.inconclusive:
                    ctx.inconc(o.inconclusive or "deadlock under fault injection (map)")
                    continue
                ctx.obs["identity_checked"] += 1
                if mode == "raise":
                    if o.exc is not excs[first_bad]:
                        ctx.violation("C11:map-identity", f"runner.map/{runner}/k={k}: raised {o.exc!r}, expected the first failing item's own exception object {excs[first_bad]!r}", c2)
                else:
                    if o.exc is not None or not isinstance(o.result, list) or len(o.result) != len(items):
                        ctx.violation("C11:map-continue", f"runner.map/{runner}/k={k}: continue mode gave {o.exc!r} / {type(o.result).__name__}", c2)
                        continue
                    for it, r in zip(items, o.result):
                        if it in bad_items:
                            if r.error is not excs[it] or r.status.value != "failed":
                                ctx.violation("C11:map-item-identity", f"runner.map/{runner}/k={k}: item {it}: status {r.status.value} error {r.error!r}, expected its own exception object", c2)
                                break
                            # the FAILED item carries what a single failing run on that item carries: everything the
                            # synchronous runner had completed when it stopped at the failing node
                            rt.reset_program()
                            single_built = build_program(core.with_async(inner, False))
                            rt.FAIL_IF[vfid] = _FailItems(over, bad_items, excs)
                            single = core.execute(single_built, {**base_inputs, over: it}, "sync", error_handling="continue")
                            ctx.obs["map_item_partials_checked"] += 1
                            ctx.obs["partial_checked"] += 1
                            lost = {k_: v_ for k_, v_ in (single.values or {}).items() if k_ not in (r.values or {}) or r.values[k_] != v_}
                            if single.status == "failed" and lost:
                                ctx.violation("C11:map-item-partial-missing", f"runner.map/{runner}/k={k}: FAILED item {it} carries {core.short(r.values)}; a single failing run on that item had completed {core.short(single.values)}", c2)
                                break
                        elif r.status.value != "completed":
                            ctx.violation("C11:map-item-status", f"runner.map/{runner}/k={k}: healthy item {it} has status {r.status.value} ({r.error!r})", c2)
                            break
            # the same through a mapping nested-graph node, at depth 1 and 2
            for depth in (1, 2):
                sub = {"k": "sub", "name": "inner", "prog": copy.deepcopy(inner), "map": {"over": [over], "mode": "zip", "err": mode}}
                for d in range(1, depth):
                    sub = {"k": "sub", "name": f"wrap{d}", "prog": {"name": f"wrap{d}", "nodes": [sub], "bind": {}}}
                outer = {"name": "outer", "nodes": [sub], "bind": {}}
                rt.reset_program()
                from hgmon.build import build_program

                built = build_program(core.with_async(outer, runner == "async", rng))
                rt.FAIL_IF[vfid] = _FailItems(over, bad_items, excs)
                sched = rt.Sched(default="rand", rng=rng) if runner == "async" else None
                o = core.execute(built, {**base_inputs, over: list(items)}, runner, sched=sched, error_handling="continue")
                ctx.obs["faults_injected"] += 1
                c2 = {**case, "runner": runner, "mode": mode, "depth": depth, "form": "map_over node"}
                if o.deadlock or o.inconclusive:
                    ctx.inconc(o.inconclusive or "deadlock under fault injection (map node)")
                    continue
                ctx.obs["identity_checked"] += 1
                if mode == "raise":
                    if o.error is not excs[first_bad]:
                        ctx.violation("C11:mapnode-identity" + (":wrapped" if _chain_has(o.error, excs[first_bad]) else ""), f"map_over node depth {depth}/{runner}: outer run reports {o.error!r}, expected the first failing item's own exception object", c2)
                else:
                    if o.status != "completed":
                        ctx.violation("C11:mapnode-continue", f"map_over node (continue) depth {depth}/{runner}: outer status {o.status} error {o.error!r}", c2)
    ctx.case({"map": gen.shape_of(inner), "n": n_items, "bad": len(bad_items)}, True, sample=case if i < 1 else None)


class _FailItems:
    """FAIL_IF entry: behaves like a (predicate, exception) pair choosing the item's own exception."""

    def __init__(self, over, bad, excs):
        self.over, self.bad, self.excs = over, bad, excs
        self._cur = None

    def __getitem__(self, i):
        if i == 0:
            return self._pred
        return self._cur

    def _pred(self, kw):
        it = kw.get(self.over)
        if it in self.bad:
            self._cur = self.excs[it]
            return True
        return False


def loop_faults(ctx):
    """Cyclic programs whose EXIT node fails (it runs once, alone in its step, after the loop has finished): the FAILED
    result must carry the LATEST value of every name the completed iterations wrote - also of a name with two writers in
    exclusive branches that take turns - and the seed-fed cycle name; both runners, run and single-item map."""
    from hgmon import loops

    progs = []
    for N, c0 in ((4, 1), (3, 0), (5, 2), (2, 1), (6, 1)):
        progs.append((loops.alternating_writers_loop(N, c0), "altw/fin", "result"))
    for N, L, g in ((3, 1, "route"), (4, 2, "ifelse"), (2, 3, "route")):
        progs.append((loops.counter_loop(N, 0, L, g, True), "loop/done", "result"))
    for t, fid, out in progs:
        spec, inputs = t["spec"], t["inputs"]
        for ns in spec["nodes"]:
            ns.setdefault("fid", f"{spec['name']}/{ns['name']}")
        expected = {k: v for k, v in t["ref"]["values"].items() if k != out}
        for runner in ("sync", "async"):
            kind = EXC_KINDS[ctx.obs["loop_fault_runs"] % len(EXC_KINDS)]
            exc = make_exc(kind, f"boom in {fid}")
            s = core.with_async(spec, runner == "async", ctx.rng)
            o = core.execute(s, inputs, runner, fail={fid: exc}, error_handling="continue", sched=rt.Sched(default="rand", rng=ctx.rng) if runner == "async" else None)
            ctx.obs["faults_injected"] += 1
            ctx.obs["loop_fault_runs"] += 1
            case = {"spec": spec, "inputs": inputs, "failing": [fid], "mode": "continue", "runner": runner, "program": t["template"], "exc_kind": kind, "loop": True}
            if o.deadlock or o.inconclusive:
                ctx.inconc(o.inconclusive or "deadlock under fault injection")
                continue
            ctx.obs["identity_checked"] += 1
            err = o.exc if o.exc is not None else o.error
            if err is not exc:
                ctx.violation("C11:identity" + (":wrapped" if _chain_has(err, exc) else ""), f"{t['template']}/{runner}: surfaced {err!r} is not the object raised by the exit node", case)
                continue
            if o.exc is not None or o.status != "failed":
                ctx.violation("C11:status", f"{t['template']}/{runner}: errors are collected, yet the call {'raised' if o.exc is not None else 'returned ' + str(o.status)}", case)
                continue
            ctx.obs["partial_checked"] += 1
            if (o.values or {}) != expected:
                ctx.violation("C11:partial-wrong-value", f"{t['template']}/{runner}: FAILED result {core.short(o.values, 300)}; the completed iterations left {core.short(expected, 300)}", case)
        ctx.case({"p": "loop-exit-fault", "t": t["template"], "n": len(t["ref"]["counts"])}, True)


def run(ctx):
    n = 50 if ctx.tier == "quick" else 900
    core.WARM_P = 0.1
    if ctx.replay:
        c = ctx.replay["case"]
        if "spec" in c:
            excs = {f: make_exc(c.get("exc_kind", "Boom"), f"boom in {f}") for f in c["failing"]}
            s = core.with_async(c["spec"], c["runner"] == "async", ctx.rng)
            o = core.execute(s, c["inputs"], c["runner"], fail=excs, error_handling=c["mode"])
            check_failed_result(ctx, c["spec"], c["inputs"], c["failing"], excs, o, "replay", c)
        ctx.case("r1")
        ctx.case("r2")
        return
    if ctx.shard[0] == 0:
        loop_faults(ctx)
    for i in range(n):
        rng = ctx.rng
        r = rng.random()
        if i % 5 == 0:
            map_faults(ctx, i)
            continue
        r = 0.2 + 0.8 * r
        if r < 0.45:
            spec = gen.gen_gated(rng, deterministic=True)
            inputs = gen.gated_inputs(rng, spec)
            label = "gated"
            for ns in spec["nodes"]:
                ns["fid"] = f"g/{ns['name']}"
        else:
            spec = gen.gen_dag(rng, n_nodes=(3, 8), p_default_edge=0.0, p_gen=0.03)
            for ns in spec["nodes"]:
                ns["fid"] = f"g/{ns['name']}"
            label = "dag"
            if r > 0.65:
                cur = spec
                for d in range(rng.randint(1, 3)):
                    res = gen.nest_once(rng, cur, f"sub{d}", allow_rename=rng.random() < 0.5, allow_select=False)
                    if res:
                        cur = res[1]
                        label = f"nested{d + 1}"
                spec = cur
            bind, provided = gen.assign_sources(rng, spec)
            spec["bind"] = {**(spec.get("bind") or {}), **{k: v for k, v in bind.items() if k not in (spec.get("bind") or {})}}
            inputs = {k: f"run:{k}" for k in ref.ref_inputs(spec)[0]}
        if rng.random() < 0.35:
            # outputs that cannot be copied or pickled (locks, clients, generators inside): the FAILED result still
            # carries them, and the node's own exception still surfaces
            pool = [ns for ns in all_fids(spec).values() if ns["k"] == "fn" and len(ns.get("outs", [])) == 1 and not ns.get("gen")]
            for ns in rng.sample(pool, min(len(pool), rng.randint(1, 2))):
                ns["uncopyable"] = True
                ctx.obs["uncopyable_outputs"] += 1
        k = inject_all(ctx, spec, inputs, label)
        ctx.case({"p": label, "s": gen.shape_of(spec)}, k > 0 and len(spec["nodes"]) >= 2, sample={"spec": spec, "inputs": inputs} if i < 2 else None)
