"""C16 - scoping: entry points limit what runs; results hold only requested outputs."""

from __future__ import annotations

import copy
import warnings

from hgmon import core, families, gen, loops, ref, rt
from hgmon.build import all_fids

LEVEL = "exploration"
RULE = (
    "all program families (DAG, gated, loops, nested, mapped, wait_for DAGs with emits, signals read as plain inputs "
    "with the entry point downstream of the emitter, a name that is a data output of one exclusive branch and the signal of the other, cached nodes and cached gates "
    "with emits run twice on one cache) x entry-point sets (1-3 non-gate nodes) x selections at graph level, run time "
    "and inside nested graphs x on_missing in {ignore, warn, error}; results of completed, failed (continue) and paused "
    "runs; some function nodes return None (a produced value); 25% of the graphs are derived (with_entrypoint/select/bind) from objects that were already run. Oracle: (a) "
    "every function invocation belongs to an entry node or a node downstream of one on the spec's data+control+ordering "
    "relation; (b) every key of values is a declared data output inside the effective selection (run-time select "
    "overrides the graph default), never a plain input, an emit name, the sentinel (by identity or by type), or an "
    "internal '__...__' key; (c) a nested graph exposes exactly its selection; (d) a selected but unproduced name is "
    "silently ignored / warned about with UserWarning / raises ValueError according to on_missing, while a selected name that WAS produced (a "
    "None-valued one preferred) is returned with its value and fires no policy. Non-trivial: an "
    "entry point or a selection is configured; distinct = (program shape, configuration)."
    ' Run-time selections are given as list or tuple; a plain input named in the selection (list, tuple, str, alone or next to an output) must be rejected or at least never returned.'
    ' Also: the unproduced name inside selections that list several or EVERY output of the graph (both orders) under all three on_missing policies.'
)
ASSUMPTIONS = ["'downstream' is computed on the program spec, independently of the library's own graph"]
DECIDING = ["runs_checked", "keys_checked"]
THOROUGH_SHARDS = 12


def declared_outputs(spec):
    data, emits = set(), set()
    for ns in spec["nodes"]:
        d = set(ref.data_output_names(ns))
        data |= d
        emits |= {e for _, e in ref.node_outputs(ns)} - d
    return data, emits - data


def check_values(ctx, spec, vals, effective_sel, label, case):
    from hypergraph.nodes.base import _EMIT_SENTINEL

    data, emits = declared_outputs(spec)
    for k, v in (vals or {}).items():
        ctx.obs["keys_checked"] += 1
        if v is _EMIT_SENTINEL or type(v) is object:
            ctx.violation("C16:sentinel-leak", f"{label}: values[{k!r}] is an ordering sentinel object", case)
        elif k.startswith("__") and k.endswith("__"):
            ctx.violation("C16:internal-key-leak", f"{label}: internal bookkeeping key {k!r} in values", case)
        elif k in emits:
            ctx.violation("C16:emit-name-leak", f"{label}: ordering-only name {k!r} in values ({v!r})", case)
        elif k not in data:
            ctx.violation("C16:undeclared-key", f"{label}: {k!r} is not a declared output of the graph (declared {sorted(data)})", case)
        elif effective_sel is not None and k not in effective_sel:
            ctx.violation("C16:outside-selection", f"{label}: {k!r} returned although the effective selection is {effective_sel}", case)


def check_scope(ctx, spec, rec, label, case):
    entry = spec.get("entry")
    if not entry:
        return
    allowed_nodes = set(entry) | ref.descendants(spec, set(entry))
    allowed = set()
    for ns in spec["nodes"]:
        if ref.node_name(ns) in allowed_nodes:
            if ns["k"] == "sub":
                allowed |= set(all_fids(ns["prog"], path=f"{spec['name']}/{ns['name']}"))
            else:
                allowed.add(ns.get("fid") or f"{spec['name']}/{ns['name']}")
    for e in rec.ev:
        if e[0] == "enter":
            ctx.obs["scope_checked"] += 1
            if e[1] not in allowed:
                ctx.violation("C16:ran-upstream-of-entry", f"{label}: {e[1]} executed although the entry points are {entry} (allowed: entry nodes and downstream {sorted(allowed_nodes)})", case)
                return


def nested_exposure(ctx, built, spec, case):
    for ns in spec["nodes"]:
        if ns["k"] == "sub" and ns["prog"].get("select"):
            node = built.graph.nodes.get(ns["name"])
            if node is None:
                continue
            fm = ref.forward_map(list(ns["prog"]["select"]), ns.get("rename_out"))
            want = tuple(fm[x] for x in ns["prog"]["select"])
            ctx.obs["nested_exposure_checked"] += 1
            if tuple(node.outputs) != want:
                ctx.violation("C16:nested-exposes-unselected", f"nested graph {ns['name']} selects {ns['prog']['select']} but its node exposes {node.outputs}", case)


def one(ctx, fam, i):
    rng = ctx.rng
    spec = copy.deepcopy(fam["spec"])
    inputs = dict(fam["inputs"])
    data, emits = declared_outputs(spec)
    # a produced value may legitimately BE None: produced-ness is membership, not truthiness
    if fam["family"] != "loop" and rng.random() < 0.35:
        cands = [ns for ns in spec["nodes"] if ns["k"] == "fn" and not ns.get("beh") and not ns.get("gen") and len(ns.get("outs", [])) == 1]
        for ns in rng.sample(cands, min(len(cands), rng.randint(1, 2))):
            ns["beh"] = ["const", None]
            ctx.obs["none_valued_outputs"] += 1
    # configuration
    fnodes = [ns["name"] for ns in spec["nodes"] if ns["k"] not in ("ifelse", "route")]
    cfg = {}
    if spec.get("entry"):
        pass  # the family fixed the entry points
    elif fnodes and rng.random() < 0.5 and fam["family"] not in ("loop",):
        spec["entry"] = rng.sample(fnodes, rng.randint(1, min(3, len(fnodes))))
    if data and rng.random() < 0.5:
        spec["select"] = rng.sample(sorted(data), rng.randint(1, min(2, len(data))))
    rsel = rng.sample(sorted(data), rng.randint(1, min(2, len(data)))) if data and rng.random() < 0.4 else None
    # inner selection on a nested graph: keep what outside consumers need
    for ns in spec["nodes"]:
        if ns["k"] == "sub" and not ns.get("map") and rng.random() < 0.4:
            outs = ref.sub_outputs(ns["prog"])
            consumed = {e for o in spec["nodes"] if o is not ns for _, e in ref.node_inputs(o)}
            fm = ref.forward_map(outs, ns.get("rename_out"))
            keep = [o for o in outs if fm[o] in consumed and o not in ref.sub_emit_only(ns["prog"])]
            extra = [o for o in outs if o not in keep and o not in ref.sub_emit_only(ns["prog"])]
            sel = keep + (rng.sample(extra, rng.randint(0, len(extra))) if extra else [])
            if sel and len(sel) < len([o for o in outs if o not in ref.sub_emit_only(ns["prog"])]):
                ns["prog"]["select"] = sel
                if ns.get("rename_out"):
                    ns["rename_out"] = [{k: v for k, v in b.items() if k in sel} for b in ns["rename_out"]]
                    ns["rename_out"] = [b for b in ns["rename_out"] if b]
    data, emits = declared_outputs(spec)
    if spec.get("select"):
        spec["select"] = [s for s in spec["select"] if s in data] or None
    if rsel:
        rsel = [s for s in rsel if s in data] or None
    effective = rsel if rsel else spec.get("select")
    case = {"family": fam["family"], "spec": spec, "inputs": core.jsonable(inputs), "runtime_select": rsel}
    # inputs: with entry points upstream values come from the caller
    rt.reset_program()
    from hgmon.build import build_program

    warm = rng.random() < 0.25
    try:
        built = build_program(spec, warm_inputs=(dict(inputs) if warm else None))
    except Exception as e:  # noqa: BLE001
        ctx.obs["config_rejected"] += 1
        return
    try:
        g = built.graph.select(*rsel) if rsel else built.graph
        contract = g.inputs
    except Exception:  # noqa: BLE001
        ctx.obs["config_rejected"] += 1
        return
    provided = {}
    for r in list(contract.required) + [p for ps in list(contract.entrypoints.values())[:1] for p in ps]:
        provided[r] = inputs.get(r, f"caller:{r}")
    for o in contract.optional:
        if o in inputs and rng.random() < 0.5:
            provided[o] = inputs[o]
    if fam["family"] == "loop":
        provided = dict(inputs)
    nested_exposure(ctx, built, spec, case)
    cache = None
    tmpdir = None
    if fam["family"] == "cached" or any(ns.get("cache") for ns in spec["nodes"]):
        from hypergraph import DiskCache, InMemoryCache

        if rng.random() < 0.4:
            import os
            import tempfile

            os.makedirs(os.path.join(core.VERIF, ".work"), exist_ok=True)
            tmpdir = tempfile.mkdtemp(prefix="hgc16-", dir=os.path.join(core.VERIF, ".work"))
            cache = DiskCache(tmpdir)
            ctx.obs["disk_cache_programs"] += 1
        else:
            cache = InMemoryCache()
    kw = {"select": rsel} if rsel else {}
    if emits and fam["family"] in ("emit-entry", "waitdag", "cached") and rng.random() < 0.5:
        # an ordering signal's name explicitly selected next to data names: still never a value
        sig = rng.choice(sorted(emits))
        kw = {"select": list(rsel or sorted(data)[:1]) + [sig]}
        if not rsel:
            effective = kw["select"][:-1]
        ctx.obs["signal_name_selected"] += 1
    if "select" in kw and rng.random() < 0.4:
        kw["select"] = tuple(kw["select"])  # a tuple of names means what the list means
        ctx.obs["tuple_selects"] += 1
    fids = [f for f, ns in all_fids(spec).items() if ns["k"] == "fn"]
    plain_inputs = sorted(k for k in provided if k not in data)
    for runner in ("sync", "async"):
        if runner == "sync" and any(ns["k"] == "int" for ns in spec["nodes"]):
            continue
        if plain_inputs and rng.random() < 0.3:
            # a plain input named in the run-time selection, in every accepted container form: rejected, or at least never returned
            pin = rng.choice(plain_inputs)
            d0 = sorted(data)[0] if data else pin
            for form in ([pin], (pin,), pin, [d0, pin], (d0, pin), {pin}, frozenset([d0, pin]), iter([pin]), {pin: 1}.keys(), (x for x in [d0, pin])):
                o = core.execute(built, provided, runner, select=form, error_handling="continue", max_iterations=100)
                ctx.obs["input_name_selected_probes"] += 1
                c2 = {**case, "provided": core.jsonable(provided), "select": core.jsonable(form)}
                if o.exc is None and o.values is not None and pin in o.values:
                    ctx.violation("C16:plain-input-returned", f"{runner}: select={form!r} returned the plain input {pin!r}: {core.short(o.values)}", c2)
        if rng.random() < 0.3:
            # an EMPTY run-time selection (a computed list that matched nothing) requests nothing: completed, failed
            # and paused results alike hold no value - it overrides the graph's default selection like any other
            for form in ([], ()):
                for fail_ in (None, ({rng.choice(fids): RuntimeError("boom")} if fids else None)):
                    k3 = {"fail": fail_} if fail_ else {}
                    o = core.execute(built, provided, runner, select=form, error_handling="continue", max_iterations=100, **k3)
                    ctx.obs["empty_selection_probes"] += 1
                    if o.exc is None and o.values:
                        ctx.violation("C16:unselected-key", f"{runner}: select={form!r} (nothing requested) returned {core.short(o.values)} with status {o.status}", {**case, "provided": core.jsonable(provided), "select": core.jsonable(form)})
        for rep in range(2 if cache is not None else 1):
            for fail in (None, ({rng.choice(fids): RuntimeError("boom")} if fids and rng.random() < 0.4 else None)):
                sched = rt.Sched(default="rand", rng=rng) if runner == "async" else None
                k2 = dict(kw)
                if fail:
                    k2["fail"] = fail
                o = core.execute(built, provided, runner, sched=sched, cache=cache, error_handling="continue", max_iterations=100, **k2)
                label = f"{runner}{'-rerun' if rep else ''}{'-failing' if fail else ''}"
                c2 = {**case, "provided": core.jsonable(provided), "variant": label}
                if o.deadlock or o.inconclusive:
                    ctx.inconc(o.inconclusive or "deadlock")
                    continue
                if o.exc is not None:
                    if type(o.exc).__name__ in ("MissingInputError", "ValueError", "GraphConfigError"):
                        ctx.obs["run_rejected"] += 1
                    else:
                        ctx.violation("C16:raised:" + type(o.exc).__name__, f"{label}: {o.exc!r}", c2)
                    continue
                ctx.obs["runs_checked"] += 1
                ctx.obs["status:" + o.status] += 1
                check_values(ctx, spec, o.values, effective, label, c2)
                check_scope(ctx, spec, o.rec, label, c2)
    if tmpdir:
        import shutil

        try:
            cache._cache.close()
        except Exception:  # noqa: BLE001
            pass
        shutil.rmtree(tmpdir, ignore_errors=True)
    # on_missing policy for a selected name that is not produced
    produced_probe = core.execute(built, provided, "sync" if not any(ns["k"] == "int" for ns in spec["nodes"]) else "async", error_handling="continue", max_iterations=100)
    if produced_probe.exc is None and produced_probe.status == "completed":
        allv = produced_probe_all(ctx, built, provided, spec)
        allp = set(allv) if allv is not None else None
        missing = sorted(data - allp) if allp is not None else []
        present = sorted(data & allp) if allp is not None else []
        if present:
            # a selected name that WAS produced is returned, whatever its value, and no policy fires
            m = rng.choice([k for k in present if allv[k] is None] or present)
            runner = "sync" if not any(ns["k"] == "int" for ns in spec["nodes"]) else "async"
            for pol in ("warn", "error"):
                o = core.execute(built, provided, runner, select=[m], on_missing=pol, max_iterations=100)
                ctx.obs["produced_selected_checked"] += 1
                uw = [w for w in o.warnings if issubclass(w.category, UserWarning) and "not found" in str(w.message)]
                c2 = {**case, "provided": core.jsonable(provided), "select": [m], "on_missing": pol}
                if o.exc is not None or uw:
                    ctx.violation("C16:on_missing-fired-for-produced-name", f"select=[{m}] on_missing={pol}: {m} is produced (value {core.short(allv[m])}) yet exc={o.exc!r} warnings={[str(w.message)[:60] for w in uw]}", c2)
                elif o.status == "completed" and (m not in (o.values or {}) or o.values[m] != allv[m]):
                    ctx.violation("C16:selected-produced-name-absent", f"select=[{m}] on_missing={pol}: {m} is produced (value {core.short(allv[m])}) but the result holds {core.short(o.values)}", c2)
        if missing:
            m = rng.choice(missing)
            runner = "sync" if not any(ns["k"] == "int" for ns in spec["nodes"]) else "async"
            # the unproduced name alone, next to produced ones, and inside a selection that lists EVERY output of the
            # graph (in declaration order and reversed): the policy is owed whatever else is selected
            g_outs = [x for x in getattr(built.graph, "outputs", ()) if isinstance(x, str)]
            sels = [[m]]
            if len(data) > 1:
                sels.append(sorted(data))
            if m in g_outs and len(g_outs) > 1:
                sels.append(list(g_outs))
                sels.append(list(reversed(g_outs)))
            for pol, sel_ in [(p_, s_) for p_ in ("ignore", "warn", "error") for s_ in sels]:
                o = core.execute(built, provided, runner, select=list(sel_), on_missing=pol, max_iterations=100)
                ctx.obs["on_missing_checked"] += 1
                ctx.obs["on_missing_full_selection"] += int(len(sel_) > 1 and set(sel_) == set(g_outs))
                uw = [w for w in o.warnings if issubclass(w.category, UserWarning) and "not found" in str(w.message)]
                c2 = {**case, "provided": core.jsonable(provided), "select": list(sel_), "on_missing": pol}
                if pol == "ignore" and (o.exc is not None or uw):
                    ctx.violation("C16:on_missing-ignore", f"on_missing=ignore for unproduced {m}: exc={o.exc!r} warnings={[str(w.message)[:60] for w in uw]}", c2)
                if pol == "warn" and (o.exc is not None or not uw):
                    ctx.violation("C16:on_missing-warn", f"on_missing=warn for unproduced {m}: exc={o.exc!r}, {len(uw)} UserWarning", c2)
                if pol == "error" and not isinstance(o.exc, ValueError):
                    ctx.violation("C16:on_missing-error", f"on_missing=error for unproduced {m}: expected ValueError, got status {o.status} {o.exc!r}", c2)
                if o.exc is None and o.values:
                    check_values(ctx, spec, o.values, list(sel_), f"on_missing={pol}", c2)
    ctx.case({"f": fam["family"], "s": gen.shape_of(spec), "e": spec.get("entry"), "sel": spec.get("select"), "rs": rsel}, bool(spec.get("entry") or effective), sample=case if i < 2 else None)


def produced_probe_all(ctx, built, provided, spec):
    runner = "sync" if not any(ns["k"] == "int" for ns in spec["nodes"]) else "async"
    o = core.execute(built, provided, runner, select="**", error_handling="continue", max_iterations=100)
    if o.exc is not None or o.status != "completed":
        return None
    return dict(o.values or {})


def cached_gate_emit(rng):
    """A cached gate and a cached function node, both with emits, feeding waiters."""
    spec = gen.gen_gated(rng, deterministic=True, n_blocks=(1, 3))
    for ns in spec["nodes"]:
        if ns["k"] in ("ifelse", "route") and rng.random() < 0.7:
            ns["cache"] = True
        elif ns["k"] == "fn" and rng.random() < 0.5:
            ns["cache"] = True
            if rng.random() < 0.6 and not ns.get("emit"):
                ns["emit"] = [f"em_{ns['name']}"]
    return {"family": "cached", "spec": spec, "inputs": gen.gated_inputs(rng, spec), "kw": {}}


def emit_entry_family(rng):
    """An ordering signal that is also consumed as a plain input, with the entry point placed downstream of the
    emitting node: the caller supplies the signal's name, which is no more a result than the sentinel is."""
    k = rng.randint(1, 2)
    nodes = [{"k": "fn", "name": "emitter", "params": [{"n": "a"}], "outs": ["ev"], "emit": ["sig"]}]
    names = []
    for j in range(k):
        nodes.append({"k": "fn", "name": f"reader{j}", "params": [{"n": "sig"}] + ([{"n": "ev"}] if rng.random() < 0.4 else []), "outs": [f"dv{j}"]})
        names.append(f"reader{j}")
    if rng.random() < 0.6:
        nodes.append({"k": "fn", "name": "waiter", "params": [{"n": "b"}], "outs": ["wv"], "wait": ["sig"]})
        names.append("waiter")
    nodes.append({"k": "fn", "name": "tail", "params": [{"n": "dv0"}], "outs": ["tv"]})
    rng.shuffle(nodes)
    spec = {"name": "g", "nodes": nodes, "bind": {}, "entry": rng.sample(names, rng.randint(1, len(names)))}
    return {"family": "emit-entry", "spec": spec, "inputs": {"a": "run:a", "b": "run:b"}, "kw": {}}


def emit_data_alias_family(rng):
    """One name that is a DATA output of one exclusive branch and an ordering signal (emit) of the other: whichever
    branch runs, the result holds a value under that name or nothing, never the signal's marker."""
    kind = rng.choice(["ifelse", "route"])
    if kind == "ifelse":
        gate = {"k": "ifelse", "name": "pick", "params": [{"n": "s"}], "t": "as_data", "f": "as_signal", "table": [True, False]}
    else:
        gate = {"k": "route", "name": "pick", "params": [{"n": "s"}], "targets": ["as_data", "as_signal"], "table": ["as_data", "as_signal"]}
    gate["open"] = rng.random() < 0.5
    nodes = [
        gate,
        {"k": "fn", "name": "as_data", "params": [{"n": "x"}], "outs": ["ready"]},
        {"k": "fn", "name": "as_signal", "params": [{"n": "x"}], "outs": ["summary"], "emit": ["ready"]},
        {"k": "fn", "name": "after", "params": [{"n": "y"}], "outs": ["details"], "wait": ["ready"]},
    ]
    if rng.random() < 0.5:
        rng.shuffle(nodes)
    spec = {"name": "g", "nodes": nodes, "bind": {}}
    return {"family": "emit-data-alias", "spec": spec, "inputs": {"s": rng.randint(0, 1), "x": "run:x", "y": "run:y"}, "kw": {}}


def interrupt_family(rng):
    """DAG with 1-2 pausing interrupts: exercises PAUSED results."""
    from hgmon.props import C14

    spec = gen.gen_dag(rng, n_nodes=(3, 7), p_default_edge=0.0, p_gen=0.0, p_emit=0.2)
    C14.make_interrupts(rng, spec, rng.randint(1, 2))
    C14.rename_consumers_fix(spec)
    inputs = {k: f"run:{k}" for k in gen.consumed_inputs(spec)}
    return {"family": "interrupt", "spec": spec, "inputs": inputs, "kw": {}}


def map_on_missing(ctx):
    """runner.map with a selection that includes a branch-specific output, over items that take different branches:
    on_missing is decided PER ITEM - 'warn' warns once for every item that does not produce a selected name, 'error'
    fails exactly those items (continue mode), 'ignore' is silent; the produced names are returned for every item."""
    import asyncio
    import warnings

    from hypergraph import AsyncRunner, FunctionNode, Graph, IfElseNode, SyncRunner

    def pos(x):
        return x > 0

    def big(x):
        return ("big", x)

    def small(x):
        return ("small", x)

    def tail(x):
        return ("tail", x)

    g = Graph([IfElseNode(pos, when_true="big", when_false="small", name="pos", default_open=False), FunctionNode(big, name="big", output_name="b"), FunctionNode(small, name="small", output_name="s"), FunctionNode(tail, name="tail", output_name="t")], name="mom")
    for xs in ([1, -1], [-1, 1, -2], [1, 2, 3], [-1, -2]):
        missing_b = sum(1 for x in xs if x <= 0)
        for runner_kind, k in (("sync", None), ("async", None), ("async", 1), ("async", 2)):
            for pol in ("ignore", "warn", "error", "ignore:graph-select", "warn:graph-select", "error:graph-select"):
                # the selection is passed to map(), or it is the graph's own default (graph.select) and map() gets none
                pol, _, how = pol.partition(":")
                gg = g.select("b", "t") if how else g
                with warnings.catch_warnings(record=True) as wl:
                    warnings.simplefilter("always")
                    kw = {"map_over": "x", "on_missing": pol, "error_handling": "continue", **({} if how else {"select": ["b", "t"]})}
                    try:
                        res = SyncRunner().map(gg, {"x": list(xs)}, **kw) if runner_kind == "sync" else asyncio.run(AsyncRunner().map(gg, {"x": list(xs)}, max_concurrency=k, **kw))
                    except Exception as e:  # noqa: BLE001
                        ctx.violation("C16:on_missing-map", f"{runner_kind}/k={k} map(on_missing={pol!r}, continue) over {xs} raised {e!r}", {"program": "map on_missing", "xs": xs, "policy": pol})
                        continue
                nw = sum(1 for w in wl if issubclass(w.category, UserWarning) and "not found" in str(w.message))
                ctx.obs["on_missing_checked"] += 1
                ctx.obs["map_on_missing_calls"] += 1
                failed = sum(1 for r in res if r.status.value == "failed")
                case = {"program": "map on_missing", "xs": xs, "policy": pol, "runner": runner_kind, "max_concurrency": k, "selection": how or "run-time"}
                want_w = missing_b if pol == "warn" else 0
                want_f = missing_b if pol == "error" else 0
                if nw != want_w or failed != want_f or len(res) != len(xs):
                    ctx.violation("C16:on_missing-" + pol, f"{runner_kind}/k={k}: map over {xs} selecting ['b', 't'] with on_missing={pol!r}: {nw} warnings, {failed} failed items; {missing_b} item(s) do not produce 'b', so {want_w} warnings and {want_f} failed items are owed", case)
                    continue
                for x, r in zip(xs, res):
                    if r.status.value == "completed":
                        exp = {"t": ("tail", x), **({"b": ("big", x)} if x > 0 else {})}
                        if r.values != exp:
                            ctx.violation("C16:unselected-key", f"{runner_kind}/k={k}: item x={x} returned {r.values}, the selection gives {exp}", case)
                            break
    ctx.case({"directed": "map-on-missing"}, True)


def run(ctx):
    n = 400 if ctx.tier == "quick" else 12000
    core.WARM_P = 0.0
    if ctx.replay:
        c = ctx.replay["case"]
        one(ctx, {"family": c["family"], "spec": c["spec"], "inputs": c["inputs"]}, 99)
        ctx.case("r2")
        return
    if ctx.shard[0] == 0:
        map_on_missing(ctx)
    for i in range(n):
        fam = cached_gate_emit(ctx.rng) if i % 5 == 4 else interrupt_family(ctx.rng) if i % 7 == 3 else emit_entry_family(ctx.rng) if i % 11 == 6 else emit_data_alias_family(ctx.rng) if i % 13 == 8 else families.rich(ctx.rng)
        one(ctx, fam, i)
