"""C09 - caching is transparent, even with eviction, corruption or a torn write."""

from __future__ import annotations

import copy
import os
import pickle as real_pickle
import shutil
import tempfile
from collections import OrderedDict

from hgmon import core, gen, monitors, ref, rt
from hgmon.build import all_fids, build_program

LEVEL = "fault_enumeration"
RULE = (
    "programs (DAGs, gated programs) with a random subset of function nodes and gates cacheable, including one function "
    "object shared by nodes with different output names or swapped input renames, a cached node that mutates one of "
    "its arguments in place (every run gets fresh argument objects), a cached emitter whose signal is read as data, one routing function shared by two cached gates with different targets, a cached interrupt (pause, resume with an answer, fresh run); histories of 3-10 runs over a pool "
    "of 2-3 input vectors sharing ONE backend between a SyncRunner and an AsyncRunner; backends: InMemoryCache unbounded "
    "and max_size 1..4, DiskCache in a fresh directory. Oracles: every cached run equals the uncached run (status, "
    "values, executed set); a wrapping backend records every get/set: InMemoryCache answers must equal a 15-line "
    "reference LRU fed the same history; on the backends that never evict, a call (function, arguments as they were "
    "at the call) completed in one run is not invoked again in a later run; after a hit no cacheable function is invoked before the next lookup (sync "
    "runs); key injectivity table key -> (function, arguments by parameter, output names); the dict served on a hit "
    "(associated to its node through CacheHitEvent) has exactly that node's outputs (+ the routing key for gates, which "
    "never reaches values). Disk faults, ENUMERATED for every stored entry x class: payload bit flip, truncation to 0 "
    "and to half, payload replaced by another entry's payload, payload rewritten as a non-bytes object or as a natively stored "
    "str/int/float/None/bytearray, signature bit flip, signature of another type / empty / shorter / non-ASCII, "
    "signature missing, payload missing, torn write on a fresh key and on an overwrite "
    "(new payload + old signature); after each fault get() must not raise, must answer miss or the stored value, and "
    "no unpickling (the library's pickle.loads or the storage layer's pickle.load) may touch bytes that were not "
    "written by a genuine set() for that key; then the run history continues and must stay transparent. Non-trivial: "
    ">= 1 hit observed or >= 1 fault injected; distinct = (program shape, backend, history / fault class)."
    ' Directed histories: one function behind two cached nodes that differ in their emit name only (two graphs, one cache); list/tuple/set/frozenset/dict arguments with equal members; a size-limited backend where the oldest entry is read just before an insertion (documented LRU).'
    ' Also: pairs of DIFFERENT definitions behind otherwise identical cached nodes (referenced global / attribute / method names, parameter roles, constants, defaults, bodies of inner lambdas / functions / comprehensions, operators, closure values), with and without retrievable source, both orders, memory and disk.'
    ' Directed: every small observer loop (limit 2-4 x threshold x listing order) with everything cached, three runs on one backend per runner.'
    " Corruption class 'entry transplant': both rows of another genuine entry copied over a key (consistent with each other, never written for that key) behaves as a miss."
)
ASSUMPTIONS = [
    "diskcache/sqlite3/pickle/hmac behave as documented; how hypergraph uses them is in scope",
    "corruption is applied through the storage layer's own API by an attacker with write access to the directory",
]
DECIDING = ["cached_runs_compared", "cache_gets", "faults_injected"]
THOROUGH_SHARDS = 12
REPLAY_BY_SEED = True  # histories are regenerated from the seed; see main.py


class RefLRU:
    def __init__(self, max_size):
        self.m, self.d = max_size, OrderedDict()

    def get(self, k):
        if k not in self.d:
            return False
        self.d.move_to_end(k)
        return True

    def set(self, k):
        if k in self.d:
            self.d.move_to_end(k)
        self.d[k] = True
        if self.m is not None and len(self.d) > self.m:
            self.d.popitem(last=False)


class CacheSpy:
    def __init__(self, inner):
        self.inner = inner

    def get(self, key):
        hit, val = self.inner.get(key)
        rt.CUR.add("cache_get", key, bool(hit), sorted(val) if hit and isinstance(val, dict) else None, val if hit else None)
        return hit, val

    def set(self, key, value):
        rt.CUR.add("cache_set", key, sorted(value) if isinstance(value, dict) else None, value)
        return self.inner.set(key, value)


class _Proxy:
    def __init__(self, real, log, tag, watch):
        self._real, self._log, self._tag, self._watch = real, log, tag, watch

    def __getattr__(self, name):
        attr = getattr(self._real, name)
        if name in self._watch:
            def wrapped(*a, **k):
                try:
                    r = attr(*a, **k)
                except BaseException as e:  # noqa: BLE001
                    self._log.append((self._tag, name, a, repr(e)))
                    raise
                self._log.append((self._tag, name, a, r if name == "compare_digest" else None))
                return r

            return wrapped
        return attr


class PickleSpy:
    """Harness-side rebinding of the deserialisation entry points (no edit to the repository)."""

    def __init__(self):
        self.log = []
        self.installed = False

    SITES = (("hypergraph.cache", "pickle", "hg.pickle", {"loads", "load"}),
             ("hypergraph.cache", "hmac", "hg.hmac", {"compare_digest"}),
             ("diskcache.core", "pickle", "diskcache.pickle", {"load", "loads"}))

    def install(self):
        import importlib

        self._saved = []
        self.sites = set()
        for modname, attr, tag, watch in self.SITES:
            try:
                mod = importlib.import_module(modname)
                real = getattr(mod, attr)
            except (ImportError, AttributeError):
                continue  # rebinding target absent: the sub-oracle that reads this tag is inconclusive
            self._saved.append((mod, attr, real))
            setattr(mod, attr, _Proxy(real, self.log, tag, watch))
            self.sites.add(tag)
        self.installed = True

    def uninstall(self):
        for mod, attr, real in self._saved:
            setattr(mod, attr, real)
        self._saved = []
        self.installed = False


def cacheable_spec(rng):
    if rng.random() < 0.45:
        spec = gen.gen_gated(rng, deterministic=True, n_blocks=(1, 3))
        inputs_pool = [gen.gated_inputs(rng, spec) for _ in range(rng.randint(2, 3))]
    else:
        spec = gen.gen_dag(rng, n_nodes=(2, 6), p_default_edge=0.0, p_gen=0.05, p_emit=0.35)
        em = [(ns, e) for ns in spec["nodes"] for e in ns.get("emit", []) if not ns.get("gen")]
        if em:
            # the ordering signal of a (forced) cacheable node is consumed as plain data and waited for:
            # a stored result must give back the very sentinel, not a copy of it
            ns0, e0 = rng.choice(em)
            ns0["force_cache"] = True
            spec["nodes"].append({"k": "fn", "name": "sig_data", "params": [{"n": e0}], "outs": ["sig_seen"]})
            spec["nodes"].append({"k": "fn", "name": "sig_wait", "params": [{"n": "sig_aux"}], "outs": ["sig_after"], "wait": [e0]})
        base = {k: f"run:{k}" for k in gen.consumed_inputs(spec)}
        inputs_pool = [dict(base)]
        for j in range(rng.randint(1, 2)):
            v = dict(base)
            k = rng.choice(sorted(v))
            v[k] = f"alt{j}:{k}"
            inputs_pool.append(v)
        if rng.random() < 0.4:
            # arguments that are equal and hash alike but are different values (1, 1.0, True)
            k = rng.choice(sorted(base))
            inputs_pool = [dict(base, **{k: x}) for x in (1, 1.0, True)]
    for ns in spec["nodes"]:
        if ns["k"] in ("fn", "ifelse", "route") and (rng.random() < 0.65 or ns.pop("force_cache", False)):
            ns["cache"] = True
    # a cacheable node that mutates one of its arguments in place: the entry belongs to the arguments of the CALL
    if rng.random() < 0.5:
        spec["nodes"].append({"k": "fn", "name": "drain", "params": [{"n": "mq"}, {"n": "mitem"}], "outs": ["drained"], "beh": ["append_mut", "mq", "mitem"], "cache": True})
        for v in inputs_pool:
            v.setdefault("mq", ["q0"])
            v.setdefault("mitem", "it")
    # one ROUTING function shared by two cached gates whose (ordered) targets differ: a stored decision names a
    # target of the gate that stored it
    if rng.random() < 0.4:
        gate = {"k": "ifelse", "fid": "shared/g", "shared_fn": "G", "pyname": "shared_g", "params": [{"n": "sgs"}], "key": "sgs", "table": [True, False], "cache": True, "open": False}
        spec["nodes"] += [
            {**copy.deepcopy(gate), "name": "sga", "t": "xa", "f": "xb"},
            {**copy.deepcopy(gate), "name": "sgb", "t": "yb", "f": "ya"},
            # ... and a third one with the SAME two targets as the first, branches swapped (for an if/else gate the
            # order of the targets is their meaning)
            {**copy.deepcopy(gate), "name": "sgc", "t": "zb", "f": "za"},
            {**copy.deepcopy(gate), "name": "sgd", "t": "za", "f": "zb"},
        ] + [{"k": "fn", "name": nm, "params": [{"n": "sgx"}], "outs": [f"{nm}_out"]} for nm in ("xa", "xb", "ya", "yb", "za", "zb")]
        for v in inputs_pool:
            v.setdefault("sgs", rng.randint(0, 1))
            v.setdefault("sgx", "run:sgx")
    # ... and one route function returning None shared by two cached gates that differ in their FALLBACK only
    if rng.random() < 0.3:
        rg = {"k": "route", "fid": "shared/r", "shared_fn": "R", "pyname": "shared_r", "params": [{"n": "srs"}], "key": "srs", "targets": ["fa", "fb"], "table": [None, None], "cache": True, "open": False}
        spec["nodes"] += [{**copy.deepcopy(rg), "name": "sra", "fallback": "fa"}, {**copy.deepcopy(rg), "name": "srb", "fallback": "fb"}]
        spec["nodes"] += [{"k": "fn", "name": nm, "params": [{"n": "srx"}], "outs": [f"{nm}_out"]} for nm in ("fa", "fb")]
        for v in inputs_pool:
            v.setdefault("srs", 0)
            v.setdefault("srx", "run:srx")
    # one function object shared by two nodes wired differently
    if rng.random() < 0.6:
        a, b = "sa", "sb"
        p, q = "shp", "shq"
        mode = rng.choice(["outputs", "swap"])
        n1 = {"k": "fn", "name": "sh1", "fid": "shared/f", "shared_fn": "F", "pyname": "shared_f", "params": [{"n": "a"}, {"n": "b"}], "outs": ["so1"], "cache": True, "rename_in": [{"a": p, "b": q}] if p != "a" else None}
        if mode == "outputs":
            n2 = {**copy.deepcopy(n1), "name": "sh2", "outs": ["so2"]}
        else:
            n2 = {**copy.deepcopy(n1), "name": "sh2", "outs": ["so2"], "rename_in": [{"a": q, "b": p}]}
        spec["nodes"] += [n1, n2]
        for v in inputs_pool:
            v.setdefault(p, f"run:{p}")
            v.setdefault(q, f"run:{q}")
    return spec, inputs_pool


def normalise_shared(spec):
    """The shared function is addressed by both nodes: behaviour registered once."""
    rt.BEH["shared/f"] = lambda kw: rt.term("shared/f", kw, 1)
    rt.KIND["shared/f"] = "fn"


def run_once(built, inputs, runner, cache, sched=None, processors=None):
    return core.execute(built, inputs, runner, cache=cache, sched=sched, processors=processors, warm=False)


def sync_hit_rule(ctx, rec, cacheable_fids, case, label):
    last_hit = False
    for e in rec.ev:
        if e[0] == "cache_get":
            last_hit = e[2]
        elif e[0] == "enter" and e[1] in cacheable_fids:
            if last_hit:
                ctx.violation("C09:invoked-after-hit", f"{label}: {e[1]} invoked although the lookup just before it was a hit", case)
                return
            last_hit = False


def history(ctx, i, backend_kind):
    from hypergraph import AsyncRunner, DiskCache, InMemoryCache, SyncRunner
    from hypergraph.events import CacheHitEvent

    rng = ctx.rng
    spec, pool = cacheable_spec(rng)
    rt.reset_program()
    built = build_program(spec)
    normalise_shared(spec)
    fidx = all_fids(spec)
    cacheable = {f for f, ns in fidx.items() if ns.get("cache")}
    tmp = None
    lru = None
    if backend_kind == "disk":
        tmp = tempfile.mkdtemp(prefix="hgc09-", dir=os.path.join(core.VERIF, ".work"))
        inner = DiskCache(tmp)
    else:
        ms = None if backend_kind == "mem" else rng.randint(1, 4)
        inner = InMemoryCache(max_size=ms)
        lru = RefLRU(ms)
    spy = CacheSpy(inner)
    case = {"spec": spec, "backend": backend_kind + (f"(max_size={lru.m})" if lru else ""), "pool": pool}
    Rec, ARec = rt.make_processors()
    uncached = {}
    keytable = {}
    hits = 0
    try:
        entered = []  # (fid, arguments as they were at the call) of cacheable functions, across the history
        for f in cacheable:
            if f != "shared/f":
                rt.HOOK[f] = lambda kw, _f=f: entered.append((_f, repr(sorted(kw.items(), key=lambda kv: kv[0]))))
        completed_calls = set()
        for r in range(rng.randint(3, 10)):
            inputs = copy.deepcopy(rng.choice(pool))  # fresh objects per run: functions may mutate their arguments
            runner = rng.choice(["sync", "async"])
            ikey = repr(sorted(inputs.items(), key=lambda kv: kv[0]))
            if (ikey, runner) not in uncached:
                u = run_once(built, copy.deepcopy(inputs), runner, None)
                uncached[(ikey, runner)] = (u.status, u.values, set(u.rec.invocations()) - cacheable)
            sched = rt.Sched(default="rand", rng=rng) if runner == "async" and rng.random() < 0.5 else None
            del entered[:]
            o = run_once(built, inputs, runner, spy, sched=sched, processors=[Rec("p")])
            this_run = list(entered)
            label = f"run {r} ({runner})"
            c2 = {**case, "run": r, "inputs": inputs, "runner": runner}
            ctx.obs["cached_runs_compared"] += 1
            if o.deadlock or o.inconclusive:
                ctx.inconc(o.inconclusive or "deadlock")
                break
            ust, uvals, unc_ran = uncached[(ikey, runner)]
            if o.exc is not None or o.status != ust or o.values != uvals or repr(o.values) != repr(uvals):
                diff = sorted(k for k in set(o.values or {}) | set(uvals or {}) if repr((o.values or {}).get(k, "<absent>")) != repr((uvals or {}).get(k, "<absent>")))
                ctx.violation("C09:cached-differs-from-uncached", f"{label}: cached run {o.status} {o.exc!r} differs from the uncached run on {diff}: {core.short({k: (o.values or {}).get(k, '<absent>') for k in diff})} vs {core.short({k: (uvals or {}).get(k, '<absent>') for k in diff})}", c2)
                break
            # a completed call is not repeated while its entry is retained (backends that never evict)
            if backend_kind in ("mem", "disk"):
                again = [c for c in this_run if c in completed_calls]
                ctx.obs["calls_checked_for_repetition"] += len(this_run)
                if again:
                    ctx.violation("C09:invoked-again-while-retained", f"{label}: {again[0][0]} was invoked again with arguments {again[0][1][:160]} although an earlier run completed that call and the {backend_kind} backend never evicts", c2)
                    break
                completed_calls.update(this_run)
            ran_nc = set(o.rec.invocations()) - cacheable
            if ran_nc != unc_ran:
                ctx.violation("C09:routing-differs", f"{label}: non-cached nodes executed {sorted(ran_nc)} vs {sorted(unc_ran)} uncached (routing changed by the cache)", c2)
                break
            # spy history: LRU model, key table, served dict shape
            hit_keys = {}
            for ev in rt.events_of(o.rec, "p"):
                if isinstance(ev, CacheHitEvent):
                    hit_keys[ev.cache_key] = ev.node_name
            evs = o.rec.ev
            for idx, e in enumerate(evs):
                if e[0] == "cache_get":
                    ctx.obs["cache_gets"] += 1
                    hits += int(e[2])
                    if lru is not None:
                        pred = lru.get(e[1])
                        if pred != e[2]:
                            ctx.violation("C09:lru-model", f"{label}: backend answered {'hit' if e[2] else 'miss'} for a key the reference LRU (max_size={lru.m}) {'retains' if pred else 'has evicted/never saw'}", c2)
                            return
                    if e[2] and e[1] in hit_keys:
                        node = next((ns for ns in spec["nodes"] if ns["name"] == hit_keys[e[1]]), None)
                        if node is not None:
                            want = set(x for _, x in ref.node_outputs(node))
                            got = set(e[3] or [])
                            extra = got - want
                            if node["k"] in ("ifelse", "route"):
                                extra -= {"__routing_decision__"}
                            if want - got or extra:
                                ctx.violation("C09:served-wrong-outputs", f"{label}: node {node['name']} (outputs {sorted(want)}) was served a cached dict with keys {sorted(got)}", c2)
                                return
                elif e[0] == "cache_set":
                    ctx.obs["cache_sets"] += 1
                    if lru is not None:
                        lru.set(e[1])
                    if runner == "sync":
                        # in the sync runner the set directly follows the node's own exit
                        prev = next((x for x in reversed(evs[:idx]) if x[0] in ("exit",)), None)
                        ent = next((x for x in reversed(evs[:idx]) if x[0] == "enter"), None)
                        if prev is not None and ent is not None and prev[1] == ent[1] and prev[1] in cacheable:
                            node = fidx[prev[1]]
                            ident = (prev[1], repr(sorted(ent[2].items())), tuple(x for _, x in ref.node_outputs(node)))
                            old = keytable.setdefault(e[1], ident)
                            if old != ident:
                                ctx.violation("C09:key-collision", f"{label}: one cache key used for {old} and for {ident}", c2)
                                return
            if runner == "sync":
                sync_hit_rule(ctx, o.rec, cacheable, c2, label)
            if "__routing_decision__" in (o.values or {}):
                ctx.violation("C09:routing-key-leak", f"{label}: internal routing key in values", c2)
        if backend_kind == "disk":
            disk_faults(ctx, inner, spy, built, spec, pool, cacheable, case)
    finally:
        if tmp:
            try:
                inner._cache.close()
            except Exception:  # noqa: BLE001
                pass
            shutil.rmtree(tmp, ignore_errors=True)
    ctx.case({"s": gen.shape_of(spec), "backend": case["backend"]}, hits > 0 or backend_kind == "disk", sample=case if i < 2 else None)


def cached_interrupt(ctx, i):
    """cache=True on an interrupt caches what its HANDLER computed, never an answer the caller supplied on resume:
    pause -> resume with the answer -> a fresh run pauses again, exactly like the uncached runs."""
    import asyncio

    from hypergraph import AsyncRunner, FunctionNode, Graph, InMemoryCache, InterruptNode

    rng = ctx.rng
    auto = rng.random() < 0.4
    calls = []

    def ask(draft):
        calls.append(draft)
        return ("auto", draft) if auto else None

    def fin(decision):
        return ("fin", decision)

    emit = "asked" if rng.random() < 0.5 else None

    def note(draft):
        return ("noted", draft)

    nodes = [InterruptNode(ask, name="ask", output_name="decision", cache=True, emit=emit), FunctionNode(fin, name="fin", output_name="out")]
    if emit:
        # a node that only waits for the interrupt's signal
        nodes.append(FunctionNode(note, name="note", output_name="noted", wait_for=emit))
    g = Graph(nodes, name="ci")
    backend = InMemoryCache() if rng.random() < 0.5 else None
    tmp = None
    if backend is None:
        from hypergraph import DiskCache

        tmp = tempfile.mkdtemp(prefix="hgc09-", dir=os.path.join(core.VERIF, ".work"))
        backend = DiskCache(tmp)
    cached, plain = AsyncRunner(cache=backend), AsyncRunner()
    history = [{"draft": "d1"}, {"draft": "d1", "decision": "yes"}, {"draft": "d1"}, {"draft": "d2"}, {"draft": "d1"}]
    case = {"program": "cached interrupt" + (" emitting a signal" if emit else ""), "handler": "auto-answers" if auto else "pauses", "backend": type(backend).__name__}
    try:
        for step, inputs in enumerate(history):
            rc = asyncio.run(cached.run(g, dict(inputs)))
            ru = asyncio.run(plain.run(g, dict(inputs)))
            ctx.obs["cached_runs_compared"] += 1
            ctx.obs["cached_interrupt_runs"] += 1
            if (rc.status, rc.values) != (ru.status, ru.values):
                ctx.violation("C09:cached-differs-from-uncached", f"cached interrupt, run {step} with {inputs}: cached run {rc.status.value} {rc.values} vs uncached {ru.status.value} {ru.values} (history {history[:step]})", {**case, "step": step})
                break
    finally:
        if tmp:
            try:
                backend._cache.close()
            except Exception:  # noqa: BLE001
                pass
            shutil.rmtree(tmp, ignore_errors=True)
    ctx.case({"cached-interrupt": auto, "b": type(backend).__name__}, True)


def _with_backend(rng, kind=None):
    from hypergraph import DiskCache, InMemoryCache

    if kind == "mem" or (kind is None and rng.random() < 0.5):
        return InMemoryCache(), None
    tmp = tempfile.mkdtemp(prefix="hgc09-", dir=os.path.join(core.VERIF, ".work"))
    return DiskCache(tmp), tmp


def _drop_backend(backend, tmp):
    if tmp:
        try:
            backend._cache.close()
        except Exception:  # noqa: BLE001
            pass
        shutil.rmtree(tmp, ignore_errors=True)


def emit_names_in_identity(ctx, i):
    """ONE function behind two cached nodes (in two graphs sharing the cache) that differ only in the ordering signal
    they emit (different name, or none): an entry stored by one must not be served to the other - the stored result
    carries the storing node's signal names, so the other node's waiters would never be released."""
    from hypergraph import FunctionNode, Graph, SyncRunner

    rng = ctx.rng

    def f(x):
        return ("f", x)

    def w(aux):
        return ("w", aux)

    emits = rng.sample(["sa", "sb", None], 2)
    graphs = []
    for e in emits:
        nodes = [FunctionNode(f, name="prod", output_name="o", emit=e, cache=True)]
        nodes.append(FunctionNode(w, name="w", output_name="wo", wait_for=e) if e else FunctionNode(w, name="w", output_name="wo"))
        graphs.append(Graph(nodes, name="ge"))
    backend, tmp = _with_backend(rng)
    cached, plain = SyncRunner(cache=backend), SyncRunner()
    order = [0, 1, 0, 1] if rng.random() < 0.5 else [1, 0, 0, 1]
    case = {"program": f"shared function, nodes differ in emit only: {emits}", "order": order, "backend": type(backend).__name__}
    try:
        for step, gi in enumerate(order):
            inputs = {"x": "run:x", "aux": "run:aux"}
            try:
                rc = cached.run(graphs[gi], dict(inputs))
                got = (rc.status.value, rc.values)
            except Exception as e:  # noqa: BLE001
                got = ("raised", repr(e)[:160])
            ru = plain.run(graphs[gi], dict(inputs))
            ctx.obs["cached_runs_compared"] += 1
            ctx.obs["emit_identity_runs"] += 1
            if got != (ru.status.value, ru.values):
                ctx.violation("C09:cached-differs-from-uncached:emit-names", f"run {step} of the graph emitting {emits[gi]!r}: cached {got} vs uncached {(ru.status.value, ru.values)}", {**case, "step": step})
                break
    finally:
        _drop_backend(backend, tmp)
    ctx.case({"emit-identity": [str(e) for e in emits], "b": type(backend).__name__}, True)


DEFINITION_PAIRS = [
    # (label, source of variant A, source of variant B, inputs) - same function name, same parameters, same node name and
    # output name; the two definitions give different results on the inputs
    ("referenced-global-name", "import math\ndef f(x):\n    return math.floor(x)\n", "import math\ndef f(x):\n    return math.ceil(x)\n", {"x": 1.5}),
    ("attribute-name", "def f(x):\n    return x.real\n", "def f(x):\n    return x.imag\n", {"x": 3 + 4j}),
    ("method-name", "def f(x):\n    return x.upper()\n", "def f(x):\n    return x.lower()\n", {"x": "Ab"}),
    ("called-helper-name", "def ha(v):\n    return ('a', v)\ndef hb(v):\n    return ('b', v)\ndef f(x):\n    return ha(x)\n", "def ha(v):\n    return ('a', v)\ndef hb(v):\n    return ('b', v)\ndef f(x):\n    return hb(x)\n", {"x": 1}),
    ("parameter-roles", "def f(a, b):\n    return a - b\n", "def f(b, a):\n    return b - a\n", {"a": 5, "b": 3}),
    ("local-variable-only", "def f(x):\n    t = x + 1\n    return t * 2\n", "def f(x):\n    t = x + 2\n    return t * 2\n", {"x": 1}),
    ("constant", "def f(x):\n    return x + 1\n", "def f(x):\n    return x + 2\n", {"x": 1}),
    ("string-constant", "def f(x):\n    return (x, 'left')\n", "def f(x):\n    return (x, 'right')\n", {"x": 1}),
    ("positional-default", "def f(x, k=1):\n    return x + k\n", "def f(x, k=2):\n    return x + k\n", {"x": 1}),
    ("keyword-only-default", "def f(x, *, k=1):\n    return x + k\n", "def f(x, *, k=2):\n    return x + k\n", {"x": 1}),
    ("inner-lambda-body", "def f(x):\n    return sorted(x, key=lambda v: v)\n", "def f(x):\n    return sorted(x, key=lambda v: -v)\n", {"x": [2, 3, 1]}),
    ("inner-function-body", "def f(x):\n    def g(v):\n        return v + 1\n    return g(x)\n", "def f(x):\n    def g(v):\n        return v + 2\n    return g(x)\n", {"x": 1}),
    ("inner-comprehension", "def f(x):\n    return [v for v in x if v > 1]\n", "def f(x):\n    return [v for v in x if v > 2]\n", {"x": [1, 2, 3]}),
    ("operator", "def f(a, b):\n    return a < b\n", "def f(a, b):\n    return a > b\n", {"a": 1, "b": 2}),
    ("binary-operator", "def f(a, b):\n    return a + b\n", "def f(a, b):\n    return a * b\n", {"a": 3, "b": 4}),
    ("inner-lambda-global", "def f(x):\n    return list(map(lambda v: abs(v), x))\n", "def f(x):\n    return list(map(lambda v: str(v), x))\n", {"x": [-1]}),
    ("closure-value", "def mk(k):\n    def f(x):\n        return x * k\n    return f\nf = mk(2)\n", "def mk(k):\n    def f(x):\n        return x * k\n    return f\nf = mk(3)\n", {"x": 5}),
]
_DEF_COUNTER = [0]


def _define(src, with_source):
    import linecache

    _DEF_COUNTER[0] += 1
    filename = f"<hgmon-def-{_DEF_COUNTER[0]}>"
    if with_source:
        linecache.cache[filename] = (len(src), None, src.splitlines(True), filename)
    ns = {}
    exec(compile(src, filename, "exec"), ns)  # noqa: S102 - our own source
    return ns["f"]


def definition_pairs(ctx, i):
    """Two DIFFERENT definitions behind cached nodes that agree in everything else (function name, parameters, node
    name, output name, arguments) on one shared backend: the second node must not be served the first one's entry. Every
    pair is played with retrievable source (source-hash branch of the definition hash) and without (functions made by
    exec / in a notebook cell: bytecode branch), in both orders, on an in-memory and an on-disk backend."""
    from hypergraph import FunctionNode, Graph, SyncRunner

    rng = ctx.rng
    for label, sa, sb, inputs in DEFINITION_PAIRS:
        for with_source in (True, False):
            if with_source and label == "closure-value":
                continue  # documented: the source branch hashes the source text only (section 9, observations)
            fa, fb = _define(sa, with_source), _define(sb, with_source)
            order = [(fa, "A"), (fb, "B")] if rng.random() < 0.5 else [(fb, "B"), (fa, "A")]
            backend, tmp = _with_backend(rng)
            cached, plain = SyncRunner(cache=backend), SyncRunner()
            case = {"program": f"definition pair {label}", "with_source": with_source, "order": [t for _, t in order], "backend": type(backend).__name__, "A": sa, "B": sb, "inputs": repr(inputs)}
            try:
                for step, (fn, tag) in enumerate(order + order):
                    g = Graph([FunctionNode(fn, name="n", output_name="o", cache=True)], name="gd")
                    rc = cached.run(g, dict(inputs))
                    ru = plain.run(g, dict(inputs))
                    ctx.obs["cached_runs_compared"] += 1
                    ctx.obs["definition_pair_runs"] += 1
                    if (rc.status.value, rc.values) != (ru.status.value, ru.values):
                        ctx.violation(
                            "C09:served-to-different-definition:" + ("source" if with_source else "bytecode") + ":" + label,
                            f"definition pair '{label}' ({'with' if with_source else 'without'} retrievable source), run {step} (variant {tag}): cached {rc.values} vs uncached {ru.values} - the entry of the other definition was served",
                            {**case, "step": step},
                        )
                        break
            finally:
                _drop_backend(backend, tmp)
    ctx.case({"definition-pairs": len(DEFINITION_PAIRS)}, True)


def derive_after_cached_run(ctx, i):
    """A cacheable node is RUN on a cache and only then renamed (outputs / inputs / name), or its renamed twin is built
    from the same instance: the derived node is another node for the cache - it must neither be served the parent's
    entry under the old output names nor lose its own output."""
    from hypergraph import FunctionNode, Graph, SyncRunner

    rng = ctx.rng

    def f(x, y=1):
        return ("f", x, y)

    def use(o2):
        return ("use", o2)

    base = FunctionNode(f, name="n", output_name="o", cache=True)
    backend, tmp = _with_backend(rng)
    cached, plain = SyncRunner(cache=backend), SyncRunner()
    derivs = [
        ("with_outputs", lambda b: Graph([b.with_outputs(o="o2"), FunctionNode(use, name="use", output_name="u")], name="gd2")),
        ("with_inputs", lambda b: Graph([b.with_inputs(x="x2")], name="gd3")),
        ("with_name", lambda b: Graph([b.with_name("n2")], name="gd4")),
        ("with_outputs-swap", None),
    ]
    rng.shuffle(derivs)
    case = {"program": "node run on a cache, then derived", "backend": type(backend).__name__, "order": [d[0] for d in derivs]}
    try:
        g0 = Graph([base], name="gd1")
        cached.run(g0, {"x": "run:x"})
        for label, mk in derivs:
            if mk is None:
                continue
            g = mk(base)
            inputs = {"x2": "run:x"} if label == "with_inputs" else {"x": "run:x"}
            for rep in range(2):
                rc = cached.run(g, dict(inputs))
                ru = plain.run(g, dict(inputs))
                ctx.obs["cached_runs_compared"] += 1
                ctx.obs["derive_after_run_checks"] += 1
                if (rc.status.value, rc.values) != (ru.status.value, ru.values):
                    ctx.violation("C09:cached-differs-from-uncached:derived-after-run", f"{label} applied to a node that had already run on this cache (run {rep}): cached {rc.values} vs uncached {ru.values}", {**case, "derivation": label})
                    break
    finally:
        _drop_backend(backend, tmp)
    ctx.case({"derive-after-run": True, "b": type(backend).__name__}, True)


def unpicklable_depth(ctx, i):
    """Values that pickle cannot serialise for a reason OTHER than their type - nesting deeper than the recursion limit
    (pickle raises RecursionError), an object whose __getstate__ raises - as the OUTPUT of a cached node and as its
    INPUT: the cached run completes like the uncached one (the entry is simply not stored / the call not keyed)."""
    from hypergraph import FunctionNode, Graph, SyncRunner

    rng = ctx.rng

    class Stubborn:
        def __getstate__(self):
            raise RuntimeError("busy: cannot be serialised now")

    def deep(n):
        v = []
        for _ in range(n):
            v = [v]
        return v

    def depth_of(v):
        d = 0
        while isinstance(v, list) and v:
            v, d = v[0], d + 1
        return d

    def make(n):
        return deep(n) if n >= 0 else Stubborn()

    def measure(v):
        return depth_of(v) if isinstance(v, list) else "stubborn"

    g = Graph([FunctionNode(make, name="make", output_name="v", cache=True), FunctionNode(measure, name="measure", output_name="d", cache=True)], name="deepg")
    for n, kind in [(n_, k_) for n_ in (5, 20000, -1) for k_ in ("mem", "disk")]:
        backend, tmp = _with_backend(rng, kind)
        try:
            for rep in range(2):
                try:
                    r = SyncRunner(cache=backend).run(g, {"n": n}, select=["d"])
                    got = (r.status.value, r.values.get("d"), type(r.error).__name__ if r.error else None)
                except BaseException as e:  # noqa: BLE001
                    got = ("raised", type(e).__name__, None)
                ctx.obs["cached_runs_compared"] += 1
                ctx.obs["unpicklable_value_runs"] += 1
                want = ("completed", n if n >= 0 else "stubborn", None)
                if got != want:
                    ctx.violation("C09:cached-differs-from-uncached:unserialisable-value", f"{type(backend).__name__}, run {rep}, n={n}: a cached node whose output / input cannot be serialised ({'nesting depth ' + str(n) if n >= 0 else '__getstate__ raises'}): {got}; the uncached run gives {want}", {"program": "unserialisable values through cached nodes", "n": n, "backend": type(backend).__name__})
                    break
        finally:
            _drop_backend(backend, tmp)
    ctx.case({"unserialisable-values": True}, True)


def node_kind_in_identity(ctx, i):
    """ONE function behind a cached FunctionNode and behind a cached InterruptNode with the same output name, run on one
    cache in either order: for the function node the value None is a result, for the interrupt it means "ask the
    human" - the interrupt pauses exactly as without a cache, and the function node completes."""
    import asyncio

    from hypergraph import AsyncRunner, FunctionNode, Graph, InterruptNode

    rng = ctx.rng

    def ask(draft):
        return None

    gf = Graph([FunctionNode(ask, name="ask", output_name="decision", cache=True)], name="kf")
    gi = Graph([InterruptNode(ask, name="ask", output_name="decision", cache=True)], name="ki")
    backend, tmp = _with_backend(rng)
    order = [("fn", gf), ("int", gi), ("fn", gf), ("int", gi)] if rng.random() < 0.5 else [("int", gi), ("fn", gf), ("int", gi), ("fn", gf)]
    cached, plain = AsyncRunner(cache=backend), AsyncRunner()
    case = {"program": "one function as cached FunctionNode and as cached InterruptNode", "order": [o[0] for o in order], "backend": type(backend).__name__}
    try:
        for step, (kind, g) in enumerate(order):
            rc = asyncio.run(cached.run(g, {"draft": "run:draft"}))
            ru = asyncio.run(plain.run(g, {"draft": "run:draft"}))
            ctx.obs["cached_runs_compared"] += 1
            ctx.obs["node_kind_identity_runs"] += 1
            if (rc.status.value, rc.values) != (ru.status.value, ru.values):
                ctx.violation("C09:cached-differs-from-uncached:node-kind", f"run {step} ({kind} node): cached {rc.status.value} {rc.values} vs uncached {ru.status.value} {ru.values}: the entry of the other node kind was served", {**case, "step": step})
                break
    finally:
        _drop_backend(backend, tmp)
    ctx.case({"node-kind-identity": [o[0] for o in order][:2], "b": type(backend).__name__}, True)


def gate_mode_in_identity(ctx, i):
    """ONE routing function behind a cached multi-target gate (a list of targets is a decision) and behind a cached
    single-target gate over the same targets (a list is an error), on one cache in either order: each graph ends as
    it ends without a cache - the single-target gate is never served the other gate's list decision."""
    from hypergraph import FunctionNode, Graph, RouteNode, SyncRunner

    rng = ctx.rng

    def pick(x):
        return ["a", "b"]

    def mk(multi):
        gate = RouteNode(pick, targets=["a", "b"], multi_target=multi, cache=True, name="pick")
        return Graph([gate, FunctionNode(lambda x: ("a", x), name="a", output_name="ra"), FunctionNode(lambda x: ("b", x), name="b", output_name="rb")], name="gm")

    gm, gs = mk(True), mk(False)
    backend, tmp = _with_backend(rng)
    order = [("multi", gm), ("single", gs), ("multi", gm), ("single", gs)] if rng.random() < 0.5 else [("single", gs), ("multi", gm), ("single", gs)]
    cached, plain = SyncRunner(cache=backend), SyncRunner()
    case = {"program": "one routing function as cached multi-target and as cached single-target gate", "order": [o[0] for o in order], "backend": type(backend).__name__}

    def end(r, g):
        try:
            res = r.run(g, {"x": "run:x"})
            return (res.status.value, res.values)
        except Exception as e:  # noqa: BLE001
            return ("raised", type(e).__name__)

    try:
        for step, (kind, g) in enumerate(order):
            rc, ru = end(cached, g), end(plain, g)
            ctx.obs["cached_runs_compared"] += 1
            ctx.obs["gate_mode_identity_runs"] += 1
            if rc != ru:
                ctx.violation("C09:cached-differs-from-uncached:gate-mode", f"run {step} ({kind}-target gate): cached {core.short(rc, 200)} vs uncached {core.short(ru, 200)}: the decision stored by the gate of the other mode was served", {**case, "step": step})
                break
    finally:
        _drop_backend(backend, tmp)
    ctx.case({"gate-mode-identity": [o[0] for o in order][:2], "b": type(backend).__name__}, True)


_REBUILD_FAIL = [None]


def _rebuild_value(payload):
    """Reconstruction hook of _Shaped (module level, so the pickle is authentic and loadable)."""
    if _REBUILD_FAIL[0] is not None:
        raise _REBUILD_FAIL[0]("the class changed shape since this entry was written")
    return _Shaped(payload)


class _Shaped:
    def __init__(self, payload):
        self.payload = payload

    def __reduce__(self):
        return (_rebuild_value, (self.payload,))

    def __eq__(self, other):
        return isinstance(other, _Shaped) and other.payload == self.payload


def stale_class_entries(ctx, i):
    """An AUTHENTIC disk entry (payload and signature untouched) whose value can no longer be rebuilt because its class
    changed between the writing and the reading process - reconstruction raises TypeError / ValueError / OSError /
    KeyError / RuntimeError: a miss like any other unusable entry (no exception), and the key heals with the next store."""
    from hypergraph import DiskCache

    tmp = tempfile.mkdtemp(prefix="hgc09-", dir=os.path.join(core.VERIF, ".work"))
    dc = DiskCache(tmp)
    try:
        for exc_cls in (TypeError, ValueError, OSError, KeyError, RuntimeError, AttributeError, ImportError):
            key = "k-" + exc_cls.__name__
            dc.set(key, {"o": _Shaped(exc_cls.__name__)})
            _REBUILD_FAIL[0] = None
            hit0, val0 = dc.get(key)
            _REBUILD_FAIL[0] = exc_cls
            try:
                hit, val, exc = (*dc.get(key), None)
            except BaseException as e:  # noqa: BLE001
                hit, val, exc = None, None, e
            finally:
                _REBUILD_FAIL[0] = None
            ctx.obs["stale_class_entries_checked"] += 1
            ctx.obs["fault:stale-class"] += 1
            case = {"program": "authentic entry whose value cannot be rebuilt", "raises": exc_cls.__name__}
            if not hit0 or val0 != {"o": _Shaped(exc_cls.__name__)}:
                ctx.inconc("the stale-class probe entry did not round-trip before the class change")
                continue
            if exc is not None:
                ctx.violation("C09:fault-raised:stale-class", f"get() of an authentic entry whose reconstruction raises {exc_cls.__name__} raised {exc!r} instead of reporting a miss", case)
            elif hit:
                ctx.violation("C09:fault-served-wrong-value:stale-class", f"get() served {core.short(val)} although the value could not be rebuilt", case)
            else:
                dc.set(key, {"o": "recomputed"})
                if dc.get(key) != (True, {"o": "recomputed"}):
                    ctx.violation("C09:entry-not-restored-after-fault:stale-class", f"after the miss ({exc_cls.__name__}) the value was stored again, yet the next lookup gave {dc.get(key)}", case)
    finally:
        _drop_backend(dc, tmp)
    ctx.case({"stale-class-entries": True}, True)


def cached_loop_history(ctx, i, forced=None):
    """Loop templates with cache=True on body nodes and gates, run several times on ONE cache by the sync and the async
    runner: every run - first (cold), second (all hits) and third - ends with the values of the uncached loop. In a
    cycle a cached node can be ready in the same step as a producer of one of its inputs; what a hit is booked against
    decides whether it is recomputed when that input changes."""
    from hypergraph import InMemoryCache

    from hgmon import loops

    rng = ctx.rng
    N = rng.randint(2, 4)
    cands = [t for t in loops.systematic_templates(N) if not any(ns["k"] == "sub" for ns in t["spec"]["nodes"]) and not t["ref"].get("mechanism")]
    all_cached = rng.random() < 0.4
    t = _observer_loop(N + 1, rng.randint(1, N), rng.random() < 0.5) if all_cached else rng.choice(cands)
    if forced is not None:
        # directed: every small observer loop (limit x threshold x listing order), everything cached
        all_cached = True
        t = _observer_loop(*forced)
    spec = copy.deepcopy(t["spec"])
    for ns in spec["nodes"]:
        if (all_cached or rng.random() < 0.7) and not ns.get("gen"):
            ns["cache"] = True
    case = {"program": "cached loop: " + t["template"], "spec": spec, "inputs": t["inputs"]}
    for runner in ("sync", "async"):
        cache = InMemoryCache()
        for rep in range(3):
            o = core.execute(core.with_async(spec, runner == "async", rng), t["inputs"], runner, cache=cache, sched=rt.Sched(default="rand", rng=rng) if runner == "async" else None, max_iterations=300)
            ctx.obs["cached_runs_compared"] += 1
            ctx.obs["cached_loop_runs"] += 1
            if o.deadlock or o.inconclusive:
                ctx.inconc(o.inconclusive or "deadlock")
                break
            if o.exc is not None or o.values != t["ref"]["values"]:
                diff = sorted(k for k in set(o.values or {}) | set(t["ref"]["values"]) if (o.values or {}).get(k, "<absent>") != t["ref"]["values"].get(k, "<absent>"))
                ctx.violation("C09:cached-differs-from-uncached:loop", f"{runner}, run {rep} on one cache, {t['template']}: {o.status} {o.exc!r}; differs from the uncached loop on {diff}: {core.short({k: (o.values or {}).get(k) for k in diff})} vs {core.short({k: t['ref']['values'].get(k) for k in diff})}", {**case, "runner": runner, "run": rep})
                break
    ctx.case({"cached-loop": t["template"], "N": N}, True)


def _observer_loop(n_limit, threshold, report_first):
    """inc(count)->count under a gate, observe(count)->seen (a flag that flips ONCE, at count >= threshold),
    report(seen, count)->rep: when `seen` flips, `report` becomes ready in the same step as `inc` (listed before it) and
    reads the counter of the step's snapshot while `inc` writes the next one."""
    inc = {"k": "fn", "name": "inc", "params": [{"n": "count"}], "outs": ["count"], "beh": ["inc", "count"]}
    gate = {"k": "route", "name": "loop_gate", "params": [{"n": "count"}], "targets": ["inc", "END"], "cond": ["lt", "count", n_limit], "then": "inc", "else": "END", "open": True}
    observe = {"k": "fn", "name": "observe", "params": [{"n": "count"}], "outs": ["seen"], "beh": ["gec", "count", threshold]}
    report = {"k": "fn", "name": "report", "params": [{"n": "seen"}, {"n": "count"}], "outs": ["rep"], "beh": ["tuple", "seen", "count"]}
    nodes = [inc, gate, report, observe] if report_first else [inc, gate, observe, report]
    final = max(n_limit, 0)
    return {"spec": {"name": "obsloop", "nodes": nodes, "bind": {}}, "inputs": {"count": 0}, "ref": {"values": {"count": final, "seen": final >= threshold, "rep": (final >= threshold, final)}}, "template": f"observer-loop(threshold={threshold})"}

def lru_recency(ctx, i):
    """Size-limited in-memory backend, directed history: with room for m entries, an entry that was just READ is the
    most recently used one, so the next insertion evicts some other entry and the read one is still served (documented
    LRU behaviour of InMemoryCache); the function is invoked again only for arguments whose entry was evicted."""
    from hypergraph import FunctionNode, Graph, InMemoryCache, SyncRunner

    rng = ctx.rng
    m = rng.randint(2, 4)
    calls = []

    def f(x):
        calls.append(x)
        return ("f", x)

    g = Graph([FunctionNode(f, name="f", output_name="o", cache=True)], name="lru")
    runner = SyncRunner(cache=InMemoryCache(max_size=m))
    keys = [f"k{j}" for j in range(m)]
    hist = keys + [keys[0], "new", keys[0], keys[1]]  # fill, read the oldest, insert one more, read the oldest again, then the evicted one
    model = []  # most recent last
    case = {"program": f"cached f(x), InMemoryCache(max_size={m})", "history": hist}
    for step, x in enumerate(hist):
        n0 = len(calls)
        r = runner.run(g, {"x": x})
        invoked = len(calls) - n0
        ctx.obs["cached_runs_compared"] += 1
        ctx.obs["lru_recency_runs"] += 1
        retained = x in model
        if retained:
            model.remove(x)
        model.append(x)
        if len(model) > m:
            model.pop(0)
        if r.values.get("o") != ("f", x):
            ctx.violation("C09:cached-differs-from-uncached", f"LRU history step {step}: f({x!r}) returned {r.values}", {**case, "step": step})
            return
        if retained and invoked:
            ctx.violation("C09:lru-model", f"LRU history {hist[: step + 1]} (max_size={m}): the entry for {x!r} is among the {m} most recently used, yet the function was invoked again", {**case, "step": step})
            return
        if not retained and not invoked:
            ctx.violation("C09:lru-model", f"LRU history {hist[: step + 1]} (max_size={m}): the entry for {x!r} was evicted (or never stored), yet no invocation happened", {**case, "step": step})
            return
    ctx.case({"lru-recency": m}, True)


def permuted_wiring_identity(ctx, i):
    """ONE cached function behind two nodes whose INPUT wirings are permutations of each other and whose output names
    are identical (two graphs, one cache): the same values arrive under the same external names, but at different
    parameters - the entry of one wiring must not be served to the other."""
    from hypergraph import FunctionNode, Graph, SyncRunner

    rng = ctx.rng

    def f(a, b):
        return ("f", a, b)

    base = FunctionNode(f, name="f", output_name="o", cache=True)
    how = rng.choice(["swap", "via-temp", "fresh-names"])
    if how == "swap":
        w1, w2 = base, base.with_inputs(a="b", b="a")
        names = ("a", "b")
    elif how == "via-temp":
        w1 = base.with_inputs(a="p", b="q")
        w2 = base.with_inputs(a="t").with_inputs(b="p").with_inputs(t="q")
        names = ("p", "q")
    else:
        w1 = base.with_inputs(a="p", b="q")
        w2 = base.with_inputs(a="q", b="p")
        names = ("p", "q")
    graphs = [Graph([w1], name="gw"), Graph([w2], name="gw")]
    backend, tmp = _with_backend(rng)
    cached, plain = SyncRunner(cache=backend), SyncRunner()
    order = rng.choice([[0, 1, 0, 1], [1, 0, 1, 0]])
    case = {"program": f"f(a,b) cached, two wirings ({how}), same output name", "order": order, "backend": type(backend).__name__}
    try:
        for step, gi in enumerate(order):
            inputs = {names[0]: "run:first", names[1]: "run:second"}
            rc = cached.run(graphs[gi], dict(inputs))
            ru = plain.run(graphs[gi], dict(inputs))
            ctx.obs["cached_runs_compared"] += 1
            ctx.obs["permuted_wiring_runs"] += 1
            if (rc.status, rc.values) != (ru.status, ru.values):
                ctx.violation("C09:served-to-different-arguments:permuted-wiring", f"run {step} of wiring {gi} ({how}): cached {rc.values} vs uncached {ru.values}", {**case, "step": step})
                break
    finally:
        _drop_backend(backend, tmp)
    ctx.case({"permuted-wiring": how, "b": type(backend).__name__}, True)


def container_arguments(ctx, i):
    """Arguments that are different values although they hold the same members - list / tuple / set / frozenset, dicts
    with the same items - each get their own entry; equal arguments of the same type hit."""
    from hypergraph import FunctionNode, Graph, SyncRunner

    rng = ctx.rng
    calls = []

    def f(x):
        calls.append(x)
        return (type(x).__name__, repr(sorted(x, key=repr)) if not isinstance(x, dict) else repr(sorted(x.items(), key=repr)))

    members = rng.choice([[1, 2], ["a", "b", "c"], [(1, 2), (3, 4)], []])
    forms = [list(members), tuple(members), set(members), frozenset(members)]
    if all(isinstance(m, str) for m in members):
        forms.append({m: None for m in members})
    rng.shuffle(forms)
    hist = forms + [copy.deepcopy(rng.choice(forms)) for _ in range(2)]
    g = Graph([FunctionNode(f, name="f", output_name="o", cache=True)], name="gc")
    backend, tmp = _with_backend(rng)
    cached = SyncRunner(cache=backend)
    case = {"program": "cached f(x) over container arguments", "history": [repr(h) for h in hist], "backend": type(backend).__name__}
    seen = []
    try:
        for step, x in enumerate(hist):
            n0 = len(calls)
            rc = cached.run(g, {"x": x})
            want = f(x)
            calls.pop()
            ctx.obs["cached_runs_compared"] += 1
            ctx.obs["container_argument_runs"] += 1
            invoked = len(calls) - n0
            if rc.values.get("o") != want:
                ctx.violation("C09:served-to-different-arguments:container-type", f"run {step} with x={x!r} ({type(x).__name__}) returned {rc.values.get('o')!r}; the function gives {want!r} (history {[repr(h) for h in hist[:step]]})", {**case, "step": step})
                break
            prior = any(type(p) is type(x) and p == x for p in seen)
            if prior and invoked and type(backend).__name__ == "InMemoryCache":
                ctx.violation("C09:invoked-again-while-retained:container", f"run {step}: x={x!r} was already computed and retained, yet the function was invoked again", {**case, "step": step})
                break
            seen.append(x)
    finally:
        _drop_backend(backend, tmp)
    ctx.case({"containers": repr(members), "b": type(backend).__name__}, True)


FAULTS = ["payload-bitflip", "payload-truncate-0", "payload-truncate-half", "payload-swapped", "entry-transplant", "payload-non-bytes", "payload-type-str", "payload-type-int", "payload-type-float", "payload-type-none", "payload-type-bytearray", "sig-bitflip", "sig-type", "sig-type-int", "sig-type-bytes", "sig-type-none", "sig-empty", "sig-non-ascii", "sig-short", "sig-missing", "payload-missing", "torn-fresh", "torn-overwrite"]


def _evil_hook():
    Evil.fired.append("unpickled")
    return "evil"


class Evil:
    """A payload whose unpickling has a visible side effect."""

    fired = []

    def __reduce__(self):
        return (_evil_hook, ())


def disk_faults(ctx, dcache, spy, built, spec, pool, cacheable, case):
    dc = getattr(dcache, "_cache", None)
    suffix = getattr(dcache, "_HMAC_SUFFIX", None)
    if dc is None or not isinstance(suffix, str):
        ctx.inconc("DiskCache no longer exposes _cache/_HMAC_SUFFIX: stored entries cannot be corrupted from the harness")
        return
    keys = [k for k in dc.iterkeys() if isinstance(k, str) and not k.endswith(suffix)]
    if not keys:
        return
    pspy = PickleSpy()
    rng = ctx.rng
    sample_keys = keys if ctx.tier == "thorough" else rng.sample(keys, min(3, len(keys)))
    for key in sample_keys:
        for fault in FAULTS:
            orig_payload = dc.get(key)
            orig_sig = dc.get(key + suffix)
            if not isinstance(orig_payload, bytes) or not isinstance(orig_sig, str):
                continue
            stored_value = real_pickle.loads(orig_payload)
            legit = {(key, orig_payload)}
            other = next((k for k in keys if k != key), None)
            if fault == "payload-bitflip":
                b = bytearray(orig_payload)
                b[len(b) // 2] ^= 0x01
                dc.set(key, bytes(b))
            elif fault == "payload-truncate-0":
                dc.set(key, b"")
            elif fault == "payload-truncate-half":
                dc.set(key, orig_payload[: len(orig_payload) // 2])
            elif fault == "payload-swapped":
                if other is None:
                    continue
                dc.set(key, dc.get(other))
            elif fault == "entry-transplant":
                # BOTH rows of another genuine entry copied over this key (a botched restore, a replay): consistent with
                # each other, but never written for this key
                if other is None or not isinstance(dc.get(other), bytes) or not isinstance(dc.get(other + suffix), str):
                    continue
                dc.set(key, dc.get(other))
                dc.set(key + suffix, dc.get(other + suffix))
            elif fault == "payload-non-bytes":
                dc.set(key, Evil())
            elif fault.startswith("payload-type-"):
                # a value type the storage layer keeps natively (not pickled), so it comes back as itself
                dc.set(key, {"str": "text", "int": 7, "float": 7.5, "none": None, "bytearray": bytearray(orig_payload)}[fault[13:]])
            elif fault in ("sig-type-int", "sig-type-bytes", "sig-type-none", "sig-empty", "sig-non-ascii", "sig-short"):
                dc.set(key + suffix, {"sig-type-int": 7, "sig-type-bytes": orig_sig.encode(), "sig-type-none": None, "sig-empty": "",
                                      "sig-non-ascii": "\u00e9" + orig_sig[1:], "sig-short": orig_sig[:-1]}[fault])
            elif fault == "sig-bitflip":
                dc.set(key + suffix, ("0" if orig_sig[0] != "0" else "1") + orig_sig[1:])
            elif fault == "sig-type":
                dc.set(key + suffix, Evil())
            elif fault == "sig-missing":
                dc.delete(key + suffix)
            elif fault == "payload-missing":
                dc.delete(key)
            elif fault == "torn-fresh":
                # crash after the first of the two writes of a brand-new entry
                fresh = key + "-fresh"
                dc.set(fresh, real_pickle.dumps({"v": "half-written"}))
            elif fault == "torn-overwrite":
                # crash after the payload of an overwrite was written: new payload, old signature
                dc.set(key, real_pickle.dumps({"v": "new-but-unsigned"}))
            probe_key = key + "-fresh" if fault == "torn-fresh" else key
            ctx.obs["faults_injected"] += 1
            ctx.obs["fault:" + fault] += 1
            Evil.fired.clear()
            pspy.log.clear()
            pspy.install()
            c2 = {**case, "fault": fault, "key": key[:16]}
            try:
                try:
                    hit, val = dcache.get(probe_key)
                    exc = None
                except BaseException as e:  # noqa: BLE001
                    hit, val, exc = None, None, e
            finally:
                pspy.uninstall()
            for t in pspy.sites:
                ctx.obs["spy_site:" + t] += 1
            if exc is not None:
                ctx.violation("C09:fault-raised:" + fault, f"get() of an entry with {fault} raised {exc!r}", c2)
            elif hit and (fault in ("torn-fresh",) or val != stored_value):
                ctx.violation("C09:fault-served-wrong-value:" + fault, f"get() of an entry with {fault} served {core.short(val)} (stored: {core.short(stored_value)})", c2)
            for tag, name, a, r in pspy.log:
                if tag == "diskcache.pickle" and name in ("load", "loads"):
                    ctx.violation("C09:storage-layer-unpickled:" + fault, f"entry with {fault}: the storage layer unpickled a stored value during get() before any integrity check (side effect fired: {bool(Evil.fired)})", c2)
                    break
                if tag == "hg.pickle" and name == "loads":
                    if (probe_key, a[0]) not in legit:
                        ctx.violation("C09:unauthenticated-unpickle:" + fault, f"entry with {fault}: pickle.loads was applied to bytes that no genuine set() wrote for this key", c2)
                        break
            if Evil.fired:
                ctx.obs["evil_payload_executed"] += 1
            if exc is None and not hit and fault != "torn-fresh":
                # the miss makes the node run again and store its result again: from then on the entry is whole (a
                # later lookup is a hit with that value) - a damaged entry must not poison its key
                try:
                    dcache.set(probe_key, stored_value)
                    hit2, val2 = dcache.get(probe_key)
                    exc2 = None
                except BaseException as e:  # noqa: BLE001
                    hit2, val2, exc2 = None, None, e
                ctx.obs["restore_after_fault_checked"] += 1
                if exc2 is not None or not hit2 or val2 != stored_value:
                    ctx.violation("C09:entry-not-restored-after-fault:" + fault, f"entry with {fault}: after the miss the value was stored again, yet the next lookup gave hit={hit2} value={core.short(val2)} exc={exc2!r}: the function would run on every later run although nothing was evicted", c2)
            # restore the genuine entry for the next fault class
            dc.set(key, orig_payload)
            dc.set(key + suffix, orig_sig)
            if fault == "torn-fresh":
                dc.delete(key + "-fresh")
                dc.delete(key + "-fresh" + suffix)
    # the history continues after faults: still transparent
    inputs = copy.deepcopy(rng.choice(pool))
    for key in sample_keys[:1]:
        b = bytearray(dc.get(key))
        b[0] ^= 0xFF
        dc.set(key, bytes(b))
    u = run_once(built, copy.deepcopy(inputs), "sync", None)
    o = run_once(built, inputs, "sync", spy)
    ctx.obs["cached_runs_compared"] += 1
    if o.exc is not None or o.values != u.values or o.status != u.status:
        ctx.violation("C09:after-fault-not-transparent", f"run after a corrupted entry: {o.status} {o.exc!r} {core.short(o.values)} vs uncached {core.short(u.values)}", case)


def run(ctx):
    n = 150 if ctx.tier == "quick" else 1500
    core.WARM_P = 0.0
    os.makedirs(os.path.join(core.VERIF, ".work"), exist_ok=True)
    if ctx.replay:
        ctx.inconc("C09 replays are re-generated from the seed; re-run the tier with the recorded seed")
        return
    if ctx.shard[0] == 0:
        for lim in (2, 3, 4):
            for thr in range(1, lim + 1):
                for rf in (False, True):
                    cached_loop_history(ctx, -1, forced=(lim, thr, rf))
    for i in range(n):
        if i % 10 == 9:
            cached_interrupt(ctx, i)
        elif i % 10 == 4:
            emit_names_in_identity(ctx, i)
        elif i % 10 == 6:
            container_arguments(ctx, i)
        elif i % 20 == 2:
            lru_recency(ctx, i)
        elif i % 50 == 7:
            definition_pairs(ctx, i)
        elif i % 25 == 3:
            derive_after_cached_run(ctx, i)
        elif i % 50 == 17:
            unpicklable_depth(ctx, i)
        elif i % 25 == 13:
            node_kind_in_identity(ctx, i)
        elif i % 25 == 21:
            gate_mode_in_identity(ctx, i)
        elif i % 50 == 27:
            stale_class_entries(ctx, i)
        elif i % 10 == 8:
            cached_loop_history(ctx, i)
        elif i % 20 == 12:
            permuted_wiring_identity(ctx, i)
        else:
            history(ctx, i, ["mem", "lru", "disk"][i % 3])
