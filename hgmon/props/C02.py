"""C02 - determinism across runner, schedule, concurrency limit and node order."""

from __future__ import annotations

import copy
import os
from collections import Counter

from hgmon import core, families, gen, ref, rt

LEVEL = "exploration"
RULE = (
    "generated acyclic, gated and cyclic programs; per program: one sync run as pivot, then async runs under the natural "
    "schedule, under every completion order of every step enumerated depth-first by the controlled scheduler (capped per "
    "program, sampled beyond), max_concurrency in {None,1,2,3}, yield-injecting async processors, shuffled node lists "
    "(unique output names), and one injected node failure per program; outcomes compared as (status, values, multiset of "
    "(node, arguments)), error identity, sync-partial subset-of async-partial; same-step isolation decided from the step "
    "trace and the producing invocation named by each argument term. Non-trivial: >= 2 async bodies were parked "
    "simultaneously at some quiescent point or >= 3 executions compared; distinct = canonical program shape."
    ' Also: two or three sibling nested graphs running in the same step, some built with with_entrypoint and holding a satisfiable node outside the entry scope.'
    ' Also: whole gated / cyclic / signal programs used as one nested-graph node (depth 1-2) and sibling nested graphs that bind one input name to equal or different values (with a plain reader of that name), compared across node orders.'
    ' Forced on shard 0: late-closed shared targets (closed gate listed before the router) and early-shared branches, next to the sibling-binding, compose, nested-entry, dotted-key, rewait and signal-loop programs.'
)
ASSUMPTIONS = [
    "quiescence is detected exactly from the event loop's ready queue (single loop, no timers, no I/O)",
    "argument terms name their producing invocation (symbolic values), so isolation is decided without inspecting runner state",
]
DECIDING = ["executions_compared", "enter_events", "schedules_run"]
THOROUGH_SHARDS = 12


def multiset(rec):
    c = Counter()
    for e in rec.ev:
        if e[0] == "enter":
            c[(e[1], repr(sorted(e[2].items(), key=lambda kv: kv[0])))] += 1
    return c


def terms_in(v, out):
    """Symbolic terms contained in a value (a term, or lists/tuples/dicts of terms)."""
    if isinstance(v, tuple) and len(v) == 2 and isinstance(v[0], str) and isinstance(v[1], tuple):
        out.append(v)
    elif isinstance(v, (list, tuple)):
        for x in v:
            terms_in(x, out)
    elif isinstance(v, dict):
        for x in v.values():
            terms_in(x, out)


def isolation_violations(rec):
    """An invocation one of whose arguments was produced by an invocation that had
    not completed when the consumer's step began. A term names the invocation that
    produced it (function and arguments), so the producing exit is found by value."""
    bad = []
    ready_idx = {}  # run token -> index of latest ready event
    produced = {}  # repr(term) -> index of the earliest exit that produced it
    for i, e in enumerate(rec.ev):
        if e[0] == "ready":
            ready_idx[e[1]] = i
        elif e[0] == "exit":
            ts = []
            terms_in(e[2], ts)
            for t in ts:
                produced.setdefault(repr(t), i)
        elif e[0] == "enter":
            step_start = ready_idx.get(e[3])
            if step_start is None:
                continue
            ts = []
            for v in e[2].values():
                terms_in(v, ts) if not (isinstance(v, tuple) and len(v) == 2 and isinstance(v[0], str) and isinstance(v[1], tuple)) else ts.append(v)
            for t in ts:
                x = produced.get(repr(t))
                if x is not None and x > step_start:
                    bad.append((e[1], t[0], i, step_start, x))
    return bad


def rerun_overwrite(name, sync_val, o):
    """Classifier for the known finding: the async result's value of this name was written by a
    node of the FAILING step that is scheduled after the failing node (the sync runner, which stops
    at the failing node, never ran it) and it overwrote a value that already existed: a node
    re-running on the edge value after a first run on a fallback, or another exclusive producer of
    the name running early under an undecided default-open gate."""
    top = _top_run(o.rec)
    steps = [(i, e) for i, e in enumerate(o.rec.ev) if e[0] == "step" and e[1] == top]
    if not steps:
        return False
    last_i, last = steps[-1]
    order = list(last[3])
    cur = o.values.get(name)
    if cur == sync_val:
        return False
    def top_node(path):
        # the node of the TOP-LEVEL graph an event belongs to (a body inside a nested graph counts as its wrapper)
        parts = path.split("/")
        return parts[1] if len(parts) > 1 else parts[0]

    failing = [top_node(e[1]) for e in o.rec.ev[last_i:] if e[0] == "raise"]
    writers = []
    for e in o.rec.ev[last_i:]:
        if e[0] == "exit":
            ts = []
            terms_in(e[2], ts)
            if e[2] == cur or cur in ts:
                writers.append(top_node(e[1]))
    if not failing or not writers:
        return False
    fpos = min(order.index(f) for f in failing if f in order) if any(f in order for f in failing) else None
    return fpos is not None and any(w in order and order.index(w) > fpos for w in writers)


def _top_run(rec):
    for e in rec.ev:
        if e[0] == "run_begin" and e[3] is None:
            return e[1]
    return None


def run_variants(ctx, fam, spec, inputs, kw):
    """Execute the program under all variants; returns list of (label, Outcome)."""
    outs = []
    sync_spec = core.with_async(spec, False)
    outs.append(("sync", core.execute(sync_spec, inputs, "sync", **kw)))
    async_spec = core.with_async(spec, True, ctx.rng, 0.75)
    outs.append(("async-natural", core.execute(async_spec, inputs, "async", **kw)))
    # enumerated completion orders
    cap = 24 if ctx.tier == "quick" else 120

    def run_with(s):
        return core.execute(async_spec, inputs, "async", sched=s, **kw)

    it = core.enumerate_schedules(run_with, max_runs=cap)
    n = 0
    exhausted = False
    while True:
        try:
            s, o = next(it)
        except StopIteration as st:
            exhausted = bool(st.value)
            break
        n += 1
        ctx.obs["schedules_run"] += 1
        ctx.obs["max_parked"] = max(ctx.obs["max_parked"], s.max_parked)
        outs.append((f"async-sched{[c for _, c, _ in s.trace]}", o))
    if exhausted:
        ctx.obs["programs_with_all_orders_enumerated"] += 1
    # sampled beyond the cap
    if not exhausted:
        for j in range(6):
            s = rt.Sched(default="rand", rng=ctx.rng)
            s.default = "rand"
            outs.append((f"async-rand{j}", core.execute(async_spec, inputs, "async", sched=s, **kw)))
            ctx.obs["schedules_run"] += 1
    # concurrency limits (adversarial LIFO release) and yield injection
    _, ARec = rt.make_processors()
    for k in (1, 2, 3):
        s = rt.Sched(default="last")
        outs.append((f"async-k{k}", core.execute(async_spec, inputs, "async", sched=s, max_concurrency=k, **kw)))
    procs = [ARec("y", ctx.rng, 3)]
    s = rt.Sched(default="rand", rng=ctx.rng)
    outs.append(("async-yield", core.execute(async_spec, inputs, "async", sched=s, processors=procs, **kw)))
    # an iteration budget that is exactly enough (and one that is one step short): the budget counts the same steps
    # under both runners, so status, values and error class agree
    if "max_iterations" not in kw and "fail" not in kw:
        from hgmon import monitors

        piv = outs[0][1]
        top = _top_run(piv.rec)
        S = monitors.steps_per_run(piv.rec).get(top)
        if S and piv.status == "completed":
            for cap in sorted({S, max(1, S - 1), S + 1}):
                a = core.execute(sync_spec, inputs, "sync", max_iterations=cap, error_handling="continue", **kw)
                b = core.execute(async_spec, inputs, "async", sched=rt.Sched(default="rand", rng=ctx.rng), max_iterations=cap, error_handling="continue", **kw)
                ctx.obs["exact_budget_pairs"] += 1
                ctx.obs["executions_compared"] += 1
                if a.deadlock or b.deadlock or a.inconclusive or b.inconclusive:
                    continue
                ka = (a.status, type(a.error).__name__ if a.error is not None else None)
                kb = (b.status, type(b.error).__name__ if b.error is not None else None)
                if ka != kb or (a.status == "completed" and a.values != b.values):
                    ctx.violation("C02:status", f"max_iterations={cap} (the sync run needs {S} steps): sync {ka} {core.short(a.values, 200)}; async {kb} {core.short(b.values, 200)}", {"family": fam["family"], "spec": spec, "inputs": inputs, "fail": None, "variant": f"max_iterations={cap}"})
    # node order
    if fam.get("unique_outputs", True):
        for j in range(4 if fam["family"] == "waitdag" else 3 if fam["family"] in ("gated", "loop") else 2):
            if j == 0:
                # the exact reverse of the generator's order: consumers before producers, targets before gates
                sh = copy.deepcopy(sync_spec)
                sh["nodes"].reverse()
            else:
                sh = gen.shuffled(ctx.rng, sync_spec)
            outs.append((f"sync-shuffled{j}", core.execute(sh, inputs, "sync", **kw)))
            # the async twin uses the SAME permutation, so that a failing run's partial values
            # are compared between the two runners on one and the same graph
            pos = {n["name"]: i for i, n in enumerate(sh["nodes"])}
            sh2 = copy.deepcopy(async_spec)
            sh2["nodes"].sort(key=lambda n: pos[n["name"]])
            s = rt.Sched(default="rand", rng=ctx.rng)
            outs.append((f"async-shuffled{j}", core.execute(sh2, inputs, "async", sched=s, **kw)))
    return outs


def compare(ctx, fam, spec, inputs, outs, failing_fid=None):
    if isinstance(failing_fid, str):
        failing_fid = [failing_fid]
    case = {"family": fam["family"], "spec": spec, "inputs": inputs, "fail": failing_fid}
    label0, piv = outs[0]
    by_label = dict(outs)
    pm = multiset(piv.rec)
    for label, o in outs:
        ctx.obs["enter_events"] += o.rec.count("enter")
        ctx.obs["steps"] += o.rec.count("ready")
        if o.deadlock:
            ctx.violation("C02:deadlock", f"{label}: logical deadlock (quiescent, nothing parked, run unfinished)", {**case, "variant": label})
            continue
        if o.inconclusive:
            ctx.inconc(o.inconclusive)
            continue
        for b in isolation_violations(o.rec)[:1]:
            ctx.violation("C02:same-step-visibility", f"{label}: {b[0]} received a value produced by {b[1]} in the same step (enter@{b[2]}, step began@{b[3]}, producer exit@{b[4]})", {**case, "variant": label})
        ctx.obs["isolation_checked_runs"] += 1
    for label, o in outs[1:]:
        if o.deadlock or o.inconclusive:
            continue
        ctx.obs["executions_compared"] += 1
        is_sync = label.startswith("sync")
        if failing_fid is None and piv.status == "completed":
            if o.status != piv.status:
                ctx.violation("C02:status", f"{label}: status {o.status} vs sync {piv.status} ({o.exc!r})", {**case, "variant": label})
                continue
            readers = _conflict_readers(spec) if "shuffled" in label else {}
            if o.values != piv.values:
                diff = sorted(k for k in set(o.values) | set(piv.values) if o.values.get(k, "<absent>") != piv.values.get(k, "<absent>"))
                key = "C02:node-order:conflicting-nested-bindings-reach-plain-reader" if readers and set(diff) <= {e for outs in readers.values() for e in outs} else "C02:values"
                ctx.violation(key, f"{label}: values differ from sync run on {diff}: {core.short({k: o.values.get(k) for k in diff})} vs {core.short({k: piv.values.get(k) for k in diff})}", {**case, "variant": label})
            m = multiset(o.rec)
            if m != pm:
                d = (m - pm) + (pm - m)
                key = "C02:node-order:conflicting-nested-bindings-reach-plain-reader" if readers and {f for (f, _a) in d} <= {f"{spec['name']}/{n}" for n in readers} else "C02:invocations"
                ctx.violation(key, f"{label}: multiset of (node, arguments) differs from sync run: {core.short(list(d.items())[:3], 400)}", {**case, "variant": label})
        else:
            # failing (or otherwise non-completing) run: same error everywhere, sync partial subset of async partial
            if "shuffled" in label and failing_fid is not None and len(failing_fid) > 1:
                # which of two co-failing nodes is reported first follows the node list order;
                # the statement fixes it per runner and schedule, not per list order
                continue
            if (o.error is None) != (piv.error is None) or (o.error is not None and o.error is not piv.error and not _same_exc(o.error, piv.error)):
                ctx.violation("C02:error", f"{label}: error {o.error!r} vs sync {piv.error!r}", {**case, "variant": label})
                continue
            if o.status != piv.status:
                ctx.violation("C02:status", f"{label}: status {o.status} vs sync {piv.status}", {**case, "variant": label})
                continue
            # partial values: sync vs async runner on the same graph (same node list order)
            pv = by_label.get(label.replace("async-", "sync-"), piv) if "shuffled" in label else piv
            if pv.values is not None and o.values is not None and not is_sync and pv.status == o.status:
                for k, v in pv.values.items():
                    if k not in o.values or o.values[k] != v:
                        if k in o.values and rerun_overwrite(k, v, o):
                            key = "C02:partial:failing-step-sibling-overwrites"
                        else:
                            key = "C02:partial"
                        ctx.violation(key, f"{label}: sync partial value {k}={core.short(v)} missing/different in async partial result ({core.short(o.values.get(k, '<absent>'))})", {**case, "variant": label})
                        break


def _conflict_readers(spec):
    """Classifier of the known finding: plain (non-nested) top-level function nodes that read, without a default, a
    name which two or more sibling nested graphs bind to DIFFERENT values and which the enclosing graph does not bind
    itself -> {node name: its outputs}."""
    bound_by = {}
    for ns in spec["nodes"]:
        if ns["k"] == "sub":
            for k, v in (ns["prog"].get("bind") or {}).items():
                bound_by.setdefault(k, []).append(v)
    conflict = {k for k, vs in bound_by.items() if len(vs) >= 2 and any(v != vs[0] for v in vs) and k not in (spec.get("bind") or {})}
    out = {}
    for ns in spec["nodes"]:
        if ns["k"] == "fn" and any(p["n"] in conflict and "d" not in p for p in ns.get("params", [])) and not ns.get("rename_in"):
            out[ns["name"]] = list(ns.get("outs", []))
    return out


def _same_exc(a, b):
    # InfiniteLoopError and validation errors are created per run: compare by type and message
    injected = getattr(a, "hgmon_injected", False) or getattr(b, "hgmon_injected", False)
    if injected:
        return a is b
    return type(a) is type(b) and str(a) == str(b)


class Boom(Exception):
    hgmon_injected = True


def returned_object_kinds(ctx):
    """What a node function RETURNS must mean the same under both runners: a generator function, a plain function
    that returns a generator object, a list, a tuple, None."""
    import asyncio

    from hypergraph import AsyncRunner, FunctionNode, Graph, SyncRunner

    def genfunc(n):
        yield from range(n)

    kinds = {
        "generator-function": genfunc,
        "plain-function-returning-generator-object": lambda n: (i * 2 for i in range(n)),
        "plain-function-returning-list": lambda n: [i for i in range(n)],
        "plain-function-returning-range": lambda n: range(n),
        "plain-function-returning-none": lambda n: None,
    }
    for label, f in kinds.items():
        for n in (0, 1, 3):
            def use(g):
                return (type(g).__name__, list(g) if g is not None else None)

            if label.startswith("plain"):
                f.__name__ = "mk"
            g = Graph([FunctionNode(f, name="mk", output_name="g"), FunctionNode(use, name="use", output_name="s")], name="kinds")
            rs = SyncRunner().run(g, {"n": n})
            ra = asyncio.run(AsyncRunner().run(g, {"n": n}))
            ctx.obs["returned_kind_pairs"] += 1
            ctx.obs["executions_compared"] += 1
            vs, va = {"status": rs.status.value, "s": rs.values.get("s"), "g": type(rs.values.get("g")).__name__}, {"status": ra.status.value, "s": ra.values.get("s"), "g": type(ra.values.get("g")).__name__}
            if vs != va:
                ctx.violation("C02:values", f"{label} (n={n}): sync run gives {vs}, async run gives {va}", {"program": "returned-object-kinds", "kind": label, "n": n})
    ctx.case({"directed": "returned-object-kinds"}, True)


def run(ctx):
    n = 60 if ctx.tier == "quick" else 600
    if ctx.replay:
        c = ctx.replay["case"]
        if c.get("program") == "returned-object-kinds":
            returned_object_kinds(ctx)
            ctx.case("replay2")
            return
        fam = {"family": c["family"], "unique_outputs": False}
        _one(ctx, fam, c["spec"], c["inputs"], {}, c.get("fail"))
        ctx.case("replay1")
        ctx.case("replay2")
        return
    if ctx.shard[0] == 0:
        returned_object_kinds(ctx)
    forced = ["sibling-bindings", "sibling-bindings", "sibling-bindings", "compose", "compose", "nested-entry", "nested-entry", "nested-entry", "dotted-keys", "dotted-keys", "dotted-keys", "rewait", "rewait", "rewait", "signal-loop", "signal-loop", "lateclosed", "lateclosed", "lateclosed", "lateclosed", "early-shared", "early-shared"] if ctx.shard[0] == 0 and not os.environ.get("HGMON_ONLY_FAMILY") else []
    for i in range(n):
        fam = families.pick(ctx.rng, [forced[i]]) if i < len(forced) else families.pick(ctx.rng, ["dag", "dag-fallback", "gated", "loop", "waitdag", "waitdag", "rewait", "lateclosed", "nested-entry", "early-shared", "compose", "compose", "sibling-bindings"] if not os.environ.get("HGMON_ONLY_FAMILY") else [os.environ["HGMON_ONLY_FAMILY"]])
        spec, inputs, kw = fam["spec"], fam["inputs"], fam.get("kw", {})
        _one(ctx, fam, spec, inputs, kw, None)
        # one failing node per program (error collected)
        fids = [f for f, ns in _fids(spec).items() if ns["k"] == "fn"]
        gids = [f for f, ns in _fids(spec).items() if ns["k"] in ("ifelse", "route")]
        if gids:
            # a failing GATE function, alone and together with a failing node of (possibly) the same step
            _one(ctx, fam, spec, inputs, kw, [ctx.rng.choice(gids)])
            if fids:
                _one(ctx, fam, spec, inputs, kw, [ctx.rng.choice(fids), ctx.rng.choice(gids)])
            ctx.obs["gate_failure_programs"] += 1
        if fids:
            _one(ctx, fam, spec, inputs, kw, [ctx.rng.choice(fids)])
        if len(fids) >= 2:
            # two failing nodes (often in one step): the reported error must not depend on completion order
            _one(ctx, fam, spec, inputs, kw, ctx.rng.sample(fids, 2))
            ctx.obs["pair_failure_programs"] += 1
        ctx.case({"f": fam["family"], "s": gen.shape_of(spec)}, True, sample={"family": fam["family"], "spec": spec, "inputs": inputs} if i < 2 else None)


def _fids(spec):
    from hgmon.build import all_fids

    return all_fids(spec)


def _one(ctx, fam, spec, inputs, kw, failing_fid):
    kw = dict(kw)
    if failing_fid is not None:
        if isinstance(failing_fid, str):
            failing_fid = [failing_fid]
        kw["fail"] = {f: Boom(f"boom in {f}") for f in failing_fid}
        kw["error_handling"] = "continue"
    outs = run_variants(ctx, fam, spec, inputs, kw)
    compare(ctx, fam, spec, inputs, outs, failing_fid)
