"""C07 - immutability: derivation operations never change the object they are called on."""

from __future__ import annotations

import copy

from hgmon import core, gen, ref, rt
from hgmon.build import build_program

LEVEL = "exploration"
RULE = (
    "random histories (4-14 operations) over generated graphs (DAGs with a nested group, gated programs, a cyclic loop) and their nodes: bind, unbind (also their argument-less forms and add_nodes()), select, with_entrypoint, "
    "add_nodes, as_node on any live graph; with_name, with_inputs (incl. swaps), with_outputs, map_over on any live "
    "node; mutation of dicts passed to bind and of returned graph.nodes copies; interleaved with uses (runs, queries) of "
    "random live objects. Every live object has a recipe (its derivation path from the root spec); its observable "
    "snapshot - input spec (also recomputed through an argument-less bind()), outputs, selection, entry points, "
    "bindings, structure hash, edges, node attributes, result and call multiset of a run on fixed inputs, a run with a "
    "run-time select - must equal the snapshot of a twin built from scratch by replaying that recipe alone. An "
    "operation must also return a new object. Non-trivial: >= 3 derivations and >= 2 objects compared; distinct = "
    "canonical operation sequence."
    ' Directed: a cyclic graph with an independent part; graphs whose selection / entry points leave the whole cycle out are looked at and run before, after and alternating with the receiver.'
    ' Independent of the twin: every derived function-backed node (gates with defaulted inputs included in 60% of the programs) must report per input exactly what the function signature says about the parameter behind it.'
)
ASSUMPTIONS = [
    "a twin replayed in isolation is the definition of 'unchanged': it never experienced the other operations",
    "add_nodes() without arguments (documented to return self) is not generated",
]
DECIDING = ["objects_compared", "operations"]
THOROUGH_SHARDS = 12
REPLAY_BY_SEED = True  # histories are regenerated from the seed; see main.py


class Live:
    def __init__(self, obj, recipe, kind):
        self.obj = obj
        self.recipe = recipe  # list of (op, args) from the root
        self.kind = kind  # "graph" | "node"


def apply_op(obj, op, args):
    if op == "bind":
        return obj.bind(**dict(args[0]))
    if op == "unbind":
        return obj.unbind(*args[0])
    if op == "select":
        return obj.select(*args[0])
    if op == "entry":
        return obj.with_entrypoint(*args[0])
    if op == "add":
        return obj.add_nodes(make_extra(args[0], args[1]))
    if op == "empty":
        # the argument-less form of a derivation is a derivation too
        return {"bind": obj.bind, "unbind": obj.unbind, "add": obj.add_nodes}[args[0]]()
    if op == "as_node":
        return obj.as_node(name=args[0])
    if op == "node":
        return obj.nodes[args[0]]
    if op == "with_name":
        return obj.with_name(args[0])
    if op == "with_inputs":
        return obj.with_inputs(dict(args[0]))
    if op == "with_outputs":
        return obj.with_outputs(dict(args[0]))
    if op == "map_over":
        return obj.map_over(*args[0], mode=args[1], clone=args[2])
    raise ValueError(op)


def make_extra(name, param):
    from hypergraph import FunctionNode

    fid = f"extra/{name}"
    fn = rt.make_function(name, fid, [{"n": param}])
    rt.KIND[fid] = "fn"
    rt.BEH[fid] = lambda kw, _f=fid: rt.term(_f, kw, 1)
    return FunctionNode(fn, name=name, output_name=f"{name}_out")


def replay(spec, recipe):
    b = build_program(spec)
    obj = b.graph
    for op, args in recipe:
        obj = apply_op(obj, op, args)
    return obj


def run_fixed(g, select=core.UNSET):
    from hypergraph import SyncRunner

    inp = g.bind().inputs  # freshly computed contract
    provided = {r: f"fix:{r}" for r in inp.required}
    for params in list(inp.entrypoints.values())[:1]:
        for p in params:
            provided[p] = f"fix:{p}"
    rec = rt.new_rec()
    kw = {}
    if select is not core.UNSET:
        kw["select"] = select
    import warnings

    with warnings.catch_warnings():
        warnings.simplefilter("ignore")
        try:
            r = SyncRunner().run(g, provided, error_handling="continue", max_iterations=30, **kw)
            out = (r.status.value, r.values, type(r.error).__name__ if r.error else None)
        except Exception as e:  # noqa: BLE001
            out = ("raised", type(e).__name__, str(e)[:80])
    calls = sorted((e[1], repr(sorted(e[2].items()))) for e in rec.ev if e[0] == "enter")
    return out, calls


def snap_graph(g, light=False):
    s = {}
    i = g.inputs
    s["inputs"] = (tuple(i.required), tuple(i.optional), {k: tuple(v) for k, v in i.entrypoints.items()}, sorted(i.bound.items(), key=lambda kv: kv[0]))
    j = g.bind().inputs
    s["inputs_recomputed"] = (tuple(j.required), tuple(j.optional), {k: tuple(v) for k, v in j.entrypoints.items()}, sorted(j.bound.items(), key=lambda kv: kv[0]))
    s["outputs"] = tuple(g.outputs)
    s["selected"] = g.selected
    s["entry"] = g.entrypoints_config
    s["hash"] = g.definition_hash
    s["nodes"] = {n: snap_node(x, light=True) for n, x in g.nodes.items()}
    s["edges"] = sorted((u, v, d.get("edge_type"), tuple(d.get("value_names") or ())) for u, v, d in g.nx_graph.edges(data=True))
    if not light:
        s["run"] = run_fixed(g)
        outs = [o for o in g.outputs]
        if outs:
            s["run_select"] = run_fixed(g, select=[outs[0]])
    return s


def snap_node(n, light=False):
    from hypergraph import Graph, GraphNode

    s = {"name": n.name, "inputs": tuple(n.inputs), "outputs": tuple(n.outputs), "hash": n.definition_hash}
    s["defaults"] = {p: (n.get_default_for(p) if n.has_default_for(p) else "<none>") for p in n.inputs}
    s["params"] = n.map_inputs_to_params({p: p for p in n.inputs})
    f = getattr(n, "func", None)
    if f is not None and not isinstance(n, GraphNode):
        # independent of any twin: what the node says about each (possibly renamed) input must be what the
        # function's own signature says about the parameter behind it
        import inspect

        try:
            sp = inspect.signature(f).parameters
        except (TypeError, ValueError):
            sp = {}
        bad = []
        back = n.map_inputs_to_params({p: p for p in n.inputs})  # original parameter -> the external name it is fed from
        for orig, ext in back.items():
            if orig not in sp:
                continue
            has = sp[orig].default is not inspect.Parameter.empty
            if n.has_default_for(ext) != has:
                bad.append((ext, orig, "has_default_for", n.has_default_for(ext), has))
            elif has and n.get_default_for(ext) != sp[orig].default:
                bad.append((ext, orig, "default", repr(n.get_default_for(ext)), repr(sp[orig].default)))
        s["_signature_mismatch"] = bad
    if isinstance(n, GraphNode):
        s["map"] = n.map_config
        s["outmap"] = n.map_outputs_from_original({o: o for o in n.graph.outputs})
        s["inner_inputs"] = (tuple(n.graph.inputs.required), tuple(n.graph.inputs.optional))
    if not light:
        try:
            g = Graph([n], name="solo")
            mc = getattr(n, "map_config", None)
            if mc:
                from hypergraph import SyncRunner

                provided = {r: ([f"it0:{r}", f"it1:{r}"] if r in mc[0] else f"fix:{r}") for r in g.inputs.required}
                rec = rt.new_rec()
                try:
                    r = SyncRunner().run(g, provided, error_handling="continue")
                    s["run"] = ((r.status.value, r.values, type(r.error).__name__ if r.error else None), sorted((e[1], repr(sorted(e[2].items()))) for e in rec.ev if e[0] == "enter"))
                except Exception as e:  # noqa: BLE001
                    s["run"] = ("raised", type(e).__name__)
            else:
                s["run"] = run_fixed(g)
        except Exception as e:  # noqa: BLE001
            s["run"] = ("graph-rejected", type(e).__name__)
    return s


def snap(live):
    return snap_graph(live.obj) if live.kind == "graph" else snap_node(live.obj)


def diff_keys(a, b):
    return sorted(k for k in set(a) | set(b) if a.get(k) != b.get(k))


def compare(ctx, spec, live, case, when):
    ctx.obs["objects_compared"] += 1
    try:
        twin = replay(spec, live.recipe)
    except Exception as e:  # noqa: BLE001
        ctx.inconc(f"twin replay failed: {e!r}")
        return True
    got = snap(live)
    if got.get("_signature_mismatch"):
        ctx.violation("C07:derived-node-stale", f"{when}: node derived by {fmt(live.recipe)} reports {got['_signature_mismatch'][:2]} (external name, parameter, what, node says, signature says): state of the object it was derived from leaked into it", case)
        return False
    tw = Live(twin, live.recipe, live.kind)
    exp = snap(tw)
    if got != exp:
        d = diff_keys(got, exp)
        ctx.violation(
            "C07:changed:" + "+".join(d[:3]),
            f"{when}: object derived by {fmt(live.recipe)} differs from a twin built by the same derivation alone, on {d}: {core.short({k: got.get(k) for k in d[:2]}, 500)} vs {core.short({k: exp.get(k) for k in d[:2]}, 500)}",
            case,
        )
        return False
    return True


def fmt(recipe):
    return " -> ".join(f"{op}{tuple(a) if a else ''}" for op, a in recipe) or "<root>"


def history(ctx, i):
    rng = ctx.rng
    rt.reset_program()
    cyc = rng.random() < 0.2
    if cyc:
        from hgmon import loops

        spec = loops.counter_loop(3, 0, 2, "route", True)["spec"]
    elif rng.random() < 0.3:
        # gates: routing state (who controls whom) is derived lazily and must not be shared with derived graphs
        spec = gen.gen_gated(rng, deterministic=rng.random() < 0.5, n_blocks=(1, 3))
    else:
        spec = gen.gen_dag(rng, n_nodes=(3, 6), p_default_edge=0.05)
        # a nested group, so that as_node / graph nodes exist from the start
        r = gen.nest_once(rng, spec, "grp", allow_rename=False)
        if r and rng.random() < 0.6:
            spec = r[1]
    if not cyc and rng.random() < 0.6:
        # a gate (not a plain function node) whose input has a SIGNATURE DEFAULT: node kinds with their own class
        # hierarchy must follow renames of defaulted parameters exactly like function nodes do
        kind = rng.choice(["ifelse", "route"])
        dg = {"k": kind, "name": "dg", "params": [{"n": "dgk", "d": rng.randint(0, 1)}], "key": "dgk", "open": False}
        if kind == "ifelse":
            dg.update({"t": "dga", "f": "dgb", "table": [True, False]})
        else:
            dg.update({"targets": ["dga", "dgb"], "table": ["dga", "dgb"]})
        spec["nodes"] += [dg, {"k": "fn", "name": "dga", "params": [{"n": "dgx", "d": "dx"}], "outs": ["dga_out"]}, {"k": "fn", "name": "dgb", "params": [{"n": "dgx", "d": "dx"}], "outs": ["dgb_out"]}]
        ctx.obs["programs_with_defaulted_gate"] += 1
    root = build_program(spec).graph
    lives = [Live(root, [], "graph")]
    ops_done = []
    case = {"spec": spec, "ops": ops_done}
    nops = rng.randint(4, 14)
    extra_n = [0]
    for step in range(nops):
        tgt = rng.choice(lives)
        o = tgt.obj
        op = None
        try:
            if tgt.kind == "graph":
                choice = rng.choice(["bind", "bind", "unbind", "select", "entry", "add", "as_node", "node", "node", "empty"])
                if choice == "empty":
                    which = rng.choice(["bind", "unbind", "add"])
                    if which == "add" and getattr(o, "_explicit_edges", None) is not None:
                        continue
                    op = ("empty", [which])
                    new = apply_op(o, *op)
                elif choice == "bind":
                    names = list(o.inputs.all)
                    if not names:
                        continue
                    k = rng.choice(names)
                    d = {k: f"b{step}:{k}"}
                    op = ("bind", [dict(d)])
                    new = o.bind(**d)
                    d.clear()  # the caller's dict is the caller's
                elif choice == "unbind":
                    b = list(o.inputs.bound)
                    if not b:
                        continue
                    op = ("unbind", [[rng.choice(b)]])
                    new = apply_op(o, *op)
                elif choice == "select":
                    outs = list(o.outputs)
                    if not outs:
                        continue
                    op = ("select", [rng.sample(outs, rng.randint(1, min(2, len(outs))))])
                    new = apply_op(o, *op)
                elif choice == "entry":
                    from hypergraph import GateNode

                    cand = [n for n, x in o.nodes.items() if not isinstance(x, GateNode)]
                    op = ("entry", [[rng.choice(cand)]])
                    new = apply_op(o, *op)
                elif choice == "add":
                    outs = list(o.outputs)
                    if not outs or getattr(o, "_explicit_edges", None) is not None:
                        continue
                    extra_n[0] += 1
                    op = ("add", [f"extra{extra_n[0]}", rng.choice(outs)])
                    new = apply_op(o, *op)
                elif choice == "as_node":
                    extra_n[0] += 1
                    op = ("as_node", [f"asn{extra_n[0]}"])
                    new = apply_op(o, *op)
                else:
                    nm = rng.choice(list(o.nodes))
                    op = ("node", [nm])
                    nodes = o.nodes
                    new = nodes[nm]
                    nodes.clear()  # a returned copy is the caller's
            else:
                from hypergraph import GraphNode

                choice = rng.choice(["with_name", "with_inputs", "with_inputs", "with_outputs", "map_over"])
                if choice == "with_name":
                    op = ("with_name", [f"{o.name}_r{step}"])
                elif choice == "with_inputs":
                    ins = list(o.inputs)
                    if not ins:
                        continue
                    if len(ins) >= 2 and rng.random() < 0.4:
                        a, b = rng.sample(ins, 2)
                        op = ("with_inputs", [{a: b, b: a}])
                    else:
                        a = rng.choice(ins)
                        op = ("with_inputs", [{a: f"{a}_i{step}"}])
                elif choice == "with_outputs":
                    outs = list(o.outputs)
                    if not outs:
                        continue
                    if len(outs) >= 2 and rng.random() < 0.4:
                        a, b = rng.sample(outs, 2)
                        op = ("with_outputs", [{a: b, b: a}])
                    else:
                        a = rng.choice(outs)
                        op = ("with_outputs", [{a: f"{a}_o{step}"}])
                else:
                    if not isinstance(o, GraphNode) or not o.inputs:
                        continue
                    ps = rng.sample(list(o.inputs), rng.randint(1, min(2, len(o.inputs))))
                    rest = [p for p in o.inputs if p not in ps]
                    clone = [rng.choice(rest)] if rest and rng.random() < 0.4 else False
                    op = ("map_over", [ps, rng.choice(["zip", "product"]), clone])
                new = apply_op(o, *op)
        except Exception as e:  # noqa: BLE001 - an operation the API rejects is not part of the history
            ctx.obs["ops_rejected"] += 1
            continue
        ctx.obs["operations"] += 1
        ops_done.append({"on": fmt(tgt.recipe), "op": op[0], "args": core.jsonable(op[1])})
        if new is o and op[0] != "node":
            ctx.violation("C07:returned-self", f"{op[0]} returned its receiver (receiver derived by {fmt(tgt.recipe)})", case)
        kind = "graph" if op[0] in ("bind", "unbind", "select", "entry", "add", "empty") else "node"
        lives.append(Live(new, tgt.recipe + [op], kind))
        # interleaved use of a random live object
        if rng.random() < 0.35:
            if not compare(ctx, spec, rng.choice(lives), case, f"after operation {len(ops_done)}"):
                return False
    ok = True
    for lv in lives:
        if not compare(ctx, spec, lv, case, "at the end of the history"):
            ok = False
            break
    ctx.case({"ops": [(d["op"]) for d in ops_done], "cyc": cyc, "n": len(spec["nodes"])}, len(ops_done) >= 3 and len(lives) >= 3, sample=case if i < 2 else None)
    return ok


def entry_chain_directed(ctx):
    """Directed: a chain a -> b -> c. Graphs with entry points are RECEIVERS of further with_entrypoint() calls and are run
    before and after; siblings with other entry points (same structure, same structure hash) are run in between.
    Judged twice: against the twin built by the same derivation alone, and against the scope the entry points define
    (only the entry nodes and what is downstream of them run) - an oracle that does not depend on the history."""
    rt.reset_program()
    spec = {"name": "chain", "nodes": [
        {"k": "fn", "name": "a", "params": [{"n": "x"}], "outs": ["m1"]},
        {"k": "fn", "name": "b", "params": [{"n": "m1"}], "outs": ["m2"]},
        {"k": "fn", "name": "c", "params": [{"n": "m2"}], "outs": ["m3"]},
    ], "bind": {}}
    root = build_program(spec).graph
    downstream = {"a": {"a", "b", "c"}, "b": {"b", "c"}, "c": {"c"}}
    case = {"spec": spec, "ops": "directed entry-point chain"}
    lives = {"root": Live(root, [], "graph")}

    def derive(name, frm, entry):
        lives[name] = Live(lives[frm].obj.with_entrypoint(*entry), lives[frm].recipe + [("entry", [list(entry)])], "graph")
        ctx.obs["operations"] += 1

    def check(name, when):
        lv = lives[name]
        if not compare(ctx, spec, lv, case, f"{name} {when}"):
            return False
        cfg = lv.obj.entrypoints_config
        if cfg:
            allowed = set().union(*(downstream[e] for e in cfg))
            # the graph input x is always supplied, so that the upstream node `a` COULD run if it were scheduled
            from hypergraph import SyncRunner

            rec = rt.new_rec()
            import warnings

            with warnings.catch_warnings():
                warnings.simplefilter("ignore")
                seeds = {"x": "fix:x"} if "a" in cfg else {"x": "fix:x", "m1": "fix:m1"} if "b" in cfg else {"x": "fix:x", "m2": "fix:m2"}
                SyncRunner().run(lv.obj, seeds, error_handling="continue")
            ran = {e[1].rsplit("/", 1)[-1] for e in rec.ev if e[0] == "enter"}
            ctx.obs["entry_scope_runs"] += 1
            if not ran <= allowed or not set(cfg) <= ran:
                ctx.violation("C07:changed:run", f"{name} ({fmt(lv.recipe)}) {when}: executed {sorted(ran)}; its entry points {list(cfg)} allow exactly the entry nodes and what is downstream: {sorted(allowed)}", case)
                return False
        return True

    derive("gb", "root", ["b"])
    ok = check("gb", "fresh")
    derive("gb_then_a", "gb", ["a"])  # the receiver already has entry points; the new entry node is UPSTREAM of them
    ok = ok and check("gb", "after with_entrypoint('a') was derived from it") and check("gb_then_a", "fresh")
    derive("gc", "root", ["c"])
    ok = ok and check("gc", "after a sibling with other entry points ran") and check("gb", "after gc ran") and check("root", "at the end")
    derive("gc_then_b", "gc", ["b"])
    ok = ok and check("gc", "after with_entrypoint('b') was derived from it") and check("gc_then_b", "fresh") and check("gb", "at the end")
    ctx.case({"directed": "entry-chain"}, True)
    return ok


def cycle_left_out_directed(ctx):
    """Directed: a graph with a data cycle AND a part that does not depend on it. Graphs derived by select() /
    with_entrypoint() whose scope leaves the whole cycle out are looked at and run BEFORE the receiver in one family and
    AFTER it in another (whatever a scope computation keeps on shared structure would be served to the wrong scope)."""
    from hgmon import loops

    base = loops.counter_loop(3, 0, 2, "route", True)["spec"]
    spec = {"name": "loopside", "nodes": copy.deepcopy(base["nodes"]) + [
        {"k": "fn", "name": "side", "params": [{"n": "y"}], "outs": ["side_out"]},
        {"k": "fn", "name": "side2", "params": [{"n": "side_out"}], "outs": ["side2_out"]},
    ], "bind": {}}
    derivations = [[("select", [["side2_out"]])], [("entry", [["side"]])], [("entry", [["side2"]]), ("select", [["side2_out"]])], [("select", [["result"]])]]
    ok = True
    for order in ("derived-first", "receiver-first", "alternating"):
        rt.reset_program()
        root = build_program(spec).graph
        case = {"spec": spec, "ops": f"directed cycle-left-out, {order}"}
        lives = [Live(root, [], "graph")]
        for recipe in derivations:
            o = root
            for op in recipe:
                o = apply_op(o, *op)
                ctx.obs["operations"] += 1
            lives.append(Live(o, list(recipe), "graph"))
        seq = {"derived-first": lives[1:] + lives[:1] + lives[1:], "receiver-first": lives[:1] + lives[1:] + lives[:1], "alternating": [lives[1], lives[0], lives[2], lives[0], lives[4], lives[3], lives[0]]}[order]
        for n_, lv in enumerate(seq):
            ctx.obs["cycle_left_out_checks"] += 1
            if not compare(ctx, spec, lv, case, f"{order}: object {n_} of the sequence"):
                ok = False
                break
    ctx.case({"directed": "cycle-left-out"}, True)
    return ok


def shared_name_scope_directed(ctx):
    """Directed: one value name with two producers (exclusive branches), the LATER of which also feeds the common consumer
    another value. Graphs whose entry points / selection keep only the later producer are derived, looked at and run;
    the receiver, its bind() siblings and its as_node() wrapper - structure (edges with their value names), structure
    hash, diagram-relevant data, inputs and runs - stay those of twins that never had such relatives."""
    for kind in ("ifelse", "route"):
        gate = ({"k": "ifelse", "name": "pick", "params": [{"n": "s"}], "key": "s", "t": "a1", "f": "a2", "table": [True, False], "open": False} if kind == "ifelse"
                else {"k": "route", "name": "pick", "params": [{"n": "s"}], "key": "s", "targets": ["a1", "a2"], "table": ["a1", "a2"], "open": False})
        spec = {"name": "shn", "nodes": [
            gate,
            {"k": "fn", "name": "a1", "params": [{"n": "x"}], "outs": ["v"]},
            {"k": "fn", "name": "a2", "params": [{"n": "x"}], "outs": ["v", "w"]},
            {"k": "fn", "name": "c", "params": [{"n": "v"}, {"n": "w", "d": "def:w"}], "outs": ["out"]},
        ], "bind": {}}
        derivations = [[("entry", [["a2"]])], [("bind", [{"x": "b:x"}])], [("as_node", ["wrapped"])], [("entry", [["a2"]]), ("select", [["out"]])]]
        for order in ("derived-first", "receiver-first"):
            rt.reset_program()
            root = build_program(spec).graph
            case = {"spec": spec, "ops": f"directed shared-name scope, {order}"}
            lives = [Live(root, [], "graph")]
            for recipe in derivations:
                o = root
                for op in recipe:
                    o = apply_op(o, *op)
                    ctx.obs["operations"] += 1
                lives.append(Live(o, list(recipe), "node" if recipe[-1][0] == "as_node" else "graph"))
            seq = [lives[1], lives[4], lives[0], lives[2], lives[3], lives[1]] if order == "derived-first" else [lives[0], lives[2], lives[1], lives[4], lives[0], lives[3]]
            for n_, lv in enumerate(seq):
                ctx.obs["shared_name_scope_checks"] += 1
                if not compare(ctx, spec, lv, case, f"{order}: object {n_} of the sequence"):
                    break
    ctx.case({"directed": "shared-name-scope"}, True)


def run(ctx):
    n = 110 if ctx.tier == "quick" else 3200
    core.WARM_P = 0.0
    if ctx.replay:
        ctx.inconc("C07 replays are re-generated from the seed; re-run the tier with the recorded seed")
        return
    if ctx.shard[0] == 0:
        entry_chain_directed(ctx)
        cycle_left_out_directed(ctx)
        shared_name_scope_directed(ctx)
    for i in range(n):
        history(ctx, i)
