"""C14 - interrupts pause before dependants run and resume to the same result."""

from __future__ import annotations

import copy

from hgmon import core, gen, monitors, ref, rt
from hgmon.build import all_fids

LEVEL = "exploration"
RULE = (
    "seeded DAGs in which 1-3 nodes at random positions are interrupts (single and multi output, renamed inputs, sync "
    "and async handlers; a quarter of the human's answers are falsy values - False, 0, '', () - which are answers all "
    "the same); every pause/resume history is played to completion on the async runner under a random "
    "controlled completion order (sibling nodes runnable in the interrupt's step included); interrupts inside nested "
    "graphs at depth 1-2 (pause identity, and resume under the dotted key) and two sibling nested graphs that each "
    "contain an interrupt with a suspending handler (pause identity). At each pause: status PAUSED, node path, value = the first input the handler received (call log) = "
    "RefEval's value, response key(s) as documented, no node downstream of the interrupt (spec relation) and no later "
    "interrupt has been invoked, every value of a node that has returned is in values and equals RefEval's, nothing "
    "else is. After answering under the reported key: that interrupt's handler is not invoked again and does not pause "
    "again; the history's final result equals the run whose handlers return the same answers themselves and RefEval. "
    "Interrupts pause in dependency order. Non-trivial: >= 1 pause observed; distinct = (program shape, interrupt "
    "positions)."
    ' 40% of the interrupts also emit a signal that a later node only waits for (no data dependency); an interrupt 1-3 levels below a mapped graph must be rejected or surface its pause, never end COMPLETED.'
    " Also: nested graphs mounted under a name other than their graph's (as_node(name=...), with_name)."
)
ASSUMPTIONS = [
    "no node upstream of an interrupt runs early on a fallback value (then the interrupt is legitimately re-executed and asks again)",
    "resuming INTO a nested graph is not implemented and not claimed: nested interrupts are checked for pause identity only",
]
DECIDING = ["pauses_checked", "histories_completed"]
THOROUGH_SHARDS = 12
REPLAY_BY_SEED = True  # histories are regenerated from the seed; see main.py


def make_interrupts(rng, spec, n):
    cands = [ns for ns in spec["nodes"] if ns["k"] == "fn" and ns.get("outs") and not ns.get("gen") and ns["params"]]
    rng.shuffle(cands)
    chosen = cands[:n]
    for ns in chosen:
        ns["k"] = "int"
        ns["handler"] = "pause"
        ns["async"] = rng.random() < 0.4
        if rng.random() < 0.4:
            p = ns["params"][0]["n"]
            ns["rename_in"] = [{p: p + "_r"}]
    return [ns["name"] for ns in chosen]


def rename_consumers_fix(spec):
    """Interrupt input renames must not break wiring: rename only parameters that are graph inputs."""
    produced = {e for ns in spec["nodes"] for _, e in ref.node_outputs({**ns, "rename_in": None} if False else ns)}
    for ns in spec["nodes"]:
        if ns["k"] == "int" and ns.get("rename_in"):
            p = list(ns["rename_in"][0])[0]
            others = any(p in [q["n"] for q in o.get("params", [])] for o in spec["nodes"] if o is not ns)
            is_output = any(p in (o.get("outs") or []) for o in spec["nodes"])
            if is_output or others:
                ns.pop("rename_in")


FALSY = [False, 0, 0.0, "", (), frozenset()]


def answers_for(spec, rng=None):
    """The human's answers; a quarter of them are falsy values (an answer that is present is an answer)."""
    out = {}
    for ns in spec["nodes"]:
        if ns["k"] == "int":
            for o in ns["outs"]:
                out[(ns["name"], o)] = rng.choice(FALSY) if rng is not None and rng.random() < 0.25 else f"answer:{ns['name']}.{o}"
    return out


def auto_spec(spec, answers):
    s = copy.deepcopy(spec)
    for ns in s["nodes"]:
        if ns["k"] == "int":
            if len(ns["outs"]) == 1:
                ns["handler"] = ["auto", answers[(ns["name"], ns["outs"][0])]]
            else:
                ns["handler"] = ["auto", {o: answers[(ns["name"], o)] for o in ns["outs"]}]
    return s


def check_pause(ctx, spec, inputs, o, answered, case, label):
    """All pause-time obligations. Returns the spec node of the paused interrupt or None."""
    R = ref.ref_eval(spec, inputs)
    if R.paused is None:
        ctx.violation("C14:unexpected-pause", f"{label}: run paused at {o.pause.node_name} but dependency-order evaluation does not pause", case)
        return None
    fid, value, outs, args = R.paused
    by_fid = all_fids(spec)
    ns = by_fid[fid]
    ctx.obs["pauses_checked"] += 1
    p = o.pause
    if p.node_name != ns["name"]:
        # several interrupts may be runnable in one step; dependency order only forbids pausing at
        # an interrupt that depends on an unanswered one
        other = next((x for x in spec["nodes"] if x["k"] == "int" and x["name"] == p.node_name), None)
        if other is None:
            ctx.violation("C14:pause-identity", f"{label}: paused at {p.node_name!r}, not an interrupt of the graph", case)
            return None
        anc = ref.ancestors(spec, {other["name"]})
        pending = [x["name"] for x in spec["nodes"] if x["k"] == "int" and x["name"] in anc and x["name"] not in answered]
        if pending:
            ctx.violation("C14:pause-order", f"{label}: paused at {p.node_name} although it depends on unanswered interrupt(s) {pending}", case)
            return None
        ns = other
        fid = other.get("fid") or f"{spec['name']}/{other['name']}"
        R2 = ref.ref_eval(spec, inputs)
        args = None
    # value shown = first input the handler received
    calls = o.rec.invocations().get(fid, [])
    if not calls:
        ctx.violation("C14:handler-not-invoked", f"{label}: paused at {p.node_name} but its handler was never invoked", case)
        return ns
    first_param = ns["params"][0]["n"]
    got_first = calls[-1].get(first_param)
    if p.value != got_first:
        ctx.violation("C14:pause-value", f"{label}: pause.value={core.short(p.value)} but the handler of {p.node_name} received {first_param}={core.short(got_first)}", case)
    if args is not None and calls[-1] != args:
        ctx.violation("C14:handler-args", f"{label}: handler of {p.node_name} received {core.short(calls[-1])}, dependency-order evaluation gives {core.short(args)}", case)
    fm = ref.forward_map(list(ns["outs"]), ns.get("rename_out"))
    want_keys = {fm[x]: fm[x] for x in ns["outs"]}
    if p.response_key != fm[ns["outs"][0]] or dict(p.response_keys) != want_keys or p.output_param != fm[ns["outs"][0]]:
        ctx.violation("C14:response-key", f"{label}: response_key={p.response_key!r} response_keys={p.response_keys} for outputs {ns['outs']}", case)
    # nothing downstream ran, no later interrupt was asked
    down = ref.descendants(spec, {ns["name"]})
    names = {(x.get("fid") or f"{spec['name']}/{x['name']}"): x["name"] for x in spec["nodes"]}
    for e in o.rec.ev:
        if e[0] == "enter" and names.get(e[1]) in down:
            ctx.violation("C14:dependant-ran-before-answer", f"{label}: {e[1]} depends on the output of the paused interrupt {p.node_name} and was invoked before the answer", case)
            break
    # values = exactly the completed work
    completed = {}
    R_auto = ref.ref_eval(auto_spec(spec, answers_for(spec)), inputs)
    for e in o.rec.ev:
        if e[0] == "exit" and e[1] in names:
            nm = names[e[1]]
            node = next(x for x in spec["nodes"] if x["name"] == nm)
            if node["k"] == "int":
                continue
            for ext in ref.data_output_names(node):
                if ext in R_auto.values:
                    completed[ext] = R_auto.values[ext]
    for nm in answered:
        node = next(x for x in spec["nodes"] if x["name"] == nm)
        for ext in ref.data_output_names(node):
            if ext in inputs:
                completed[ext] = inputs[ext]
    sel = spec.get("select")
    vals = o.values or {}
    for k, v in completed.items():
        if sel and k not in sel:
            continue
        if k not in vals:
            ctx.violation("C14:computed-value-missing", f"{label}: {k} was computed before the pause at {p.node_name} but is missing from the PAUSED result {sorted(vals)}", case)
            return ns
        if vals[k] != v:
            ctx.violation("C14:computed-value-wrong", f"{label}: PAUSED result has {k}={core.short(vals[k])}, expected {core.short(v)}", case)
            return ns
    for k in vals:
        if k not in completed:
            ctx.violation("C14:uncomputed-value-present", f"{label}: PAUSED result contains {k}, which no completed node produced", case)
            return ns
    return ns


def history(ctx, i):
    rng = ctx.rng
    spec = gen.gen_dag(rng, n_nodes=(3, 8), p_default_edge=0.0, p_gen=0.0, p_multi=0.25)
    ints = make_interrupts(rng, spec, rng.randint(1, 3))
    if not ints:
        return
    rename_consumers_fix(spec)
    for nm in ints:
        # the interrupt also emits a signal that a later node only WAITS for (no data dependency): a resumed interrupt
        # must announce itself exactly like one whose handler answered
        if rng.random() < 0.4:
            ns = next(x for x in spec["nodes"] if x["name"] == nm)
            ns.setdefault("emit", [f"ie_{nm}"])
            aux = f"aux_{nm}"
            spec["inputs"] = list(spec.get("inputs", [])) + [aux]
            spec["nodes"].append({"k": "fn", "name": f"after_{nm}", "params": [{"n": aux}], "outs": [f"seen_{nm}"], "wait": [ns["emit"][0]]})
            ctx.obs["signal_only_dependants"] += 1
    bind, _ = gen.assign_sources(rng, spec)
    spec["bind"] = {k: v for k, v in bind.items()}
    req, opt = ref.ref_inputs(spec)
    inputs = {r: f"run:{r}" for r in req}
    answers = answers_for(spec, rng)
    ctx.obs["falsy_answers"] += sum(1 for v in answers.values() if not v)
    case = {"spec": spec, "inputs": inputs, "interrupts": ints, "answers": [[list(k), repr(v)] for k, v in answers.items()]}
    # the reference outcome: handlers answer by themselves
    auto = auto_spec(spec, answers)
    oa = core.execute(auto, inputs, "async", sched=rt.Sched(default="rand", rng=rng))
    if oa.exc is not None or oa.status != "completed":
        ctx.violation("C14:auto-run-failed", f"auto-answering run: {oa.status} {oa.exc!r}", case)
        return
    Ra = ref.ref_eval(auto, inputs)
    if oa.values != ref.visible_values(auto, Ra):
        ctx.violation("C14:auto-vs-ref", "auto-answering run differs from RefEval", case)
        return
    cur = dict(inputs)
    answered: list[str] = []
    rt.reset_program()
    from hgmon.build import build_program

    built = build_program(spec, warm_inputs=(dict(inputs) if rng.random() < 0.2 else None))
    for round_ in range(len(ints) + 2):
        o = core.execute(built, cur, "async", sched=rt.Sched(default="rand", rng=rng), warm=False)
        label = f"round {round_} (answered {answered})"
        c2 = {**case, "provided": dict(cur), "round": round_}
        if o.deadlock or o.inconclusive:
            ctx.inconc(o.inconclusive or "deadlock")
            return
        if o.exc is not None:
            ctx.violation("C14:raised:" + type(o.exc).__name__, f"{label}: {o.exc!r}", c2)
            return
        # an answered interrupt's handler must not be invoked again
        for nm in answered:
            fid = f"{spec['name']}/{nm}"
            if o.rec.invocations().get(fid):
                ctx.violation("C14:answered-interrupt-asked-again", f"{label}: handler of {nm} invoked although its answer was supplied", c2)
                return
        if o.status == "completed":
            ctx.obs["histories_completed"] += 1
            if set(answered) != set(ints) and len(answered) < len([x for x in ints if f"{spec['name']}/{x}" in Ra.args]):
                ctx.violation("C14:completed-without-pausing", f"{label}: run completed although interrupts {sorted(set(ints) - set(answered))} were never answered", c2)
            elif o.values != oa.values:
                diff = sorted(k for k in set(o.values) | set(oa.values) if o.values.get(k, "<absent>") != oa.values.get(k, "<absent>"))
                ctx.violation("C14:resume-differs-from-auto", f"{label}: pause+resume history ends with {core.short({k: o.values.get(k, '<absent>') for k in diff})}, the run whose handlers answer by themselves gives {core.short({k: oa.values.get(k, '<absent>') for k in diff})}", c2)
            break
        if o.status != "paused" or o.pause is None:
            ctx.violation("C14:status", f"{label}: status {o.status}", c2)
            return
        ns = check_pause(ctx, spec, cur, o, answered, c2, label)
        if ns is None:
            return
        if ns["name"] in answered:
            ctx.violation("C14:paused-again", f"{label}: {ns['name']} paused again after its answer was supplied under {o.pause.response_key}", c2)
            return
        for outn, key in o.pause.response_keys.items():
            orig = next(x for x in ns["outs"] if ref.forward_map(list(ns["outs"]), ns.get("rename_out"))[x] == outn)
            cur[key] = answers[(ns["name"], orig)]
        answered.append(ns["name"])
    else:
        ctx.violation("C14:history-does-not-end", f"still pausing after {len(ints) + 2} rounds", case)
    ctx.case({"s": gen.shape_of(spec), "ints": sorted(spec["nodes"].index(n) for n in spec["nodes"] if n["k"] == "int")}, bool(answered), sample=case if i < 2 else None)


def nested_identity(ctx, i):
    rng = ctx.rng
    depth = rng.randint(1, 2)
    inner = gen.gen_dag(rng, n_nodes=(2, 5), p_default_edge=0.0, p_gen=0.0, name="lvl0", prefix="a")
    ints = make_interrupts(rng, inner, 1)
    if not ints:
        return
    for ns in inner["nodes"]:
        ns.pop("rename_in", None)
    cur = inner
    path = [ints[0]]
    for d in range(depth):
        # the nested-graph node is named after its graph (plain as_node()), or mounted under ANOTHER name
        # (as_node(name=...)), or renamed afterwards (with_name): the pause is identified by the NODE's name
        sub_ns = {"k": "sub", "name": cur["name"], "prog": cur}
        how = rng.choice(["graph-name", "mount-name", "with_name"])
        if how == "mount-name":
            sub_ns["name"] = f"mount{d}"
        elif how == "with_name":
            sub_ns["rename_name"] = f"site{d}"
        ctx.obs["nested_mount:" + how] += 1
        cur = {"name": f"wrap{d}", "nodes": [sub_ns], "bind": {}}
        path.insert(0, ref.node_name(sub_ns))
    top = cur
    # an ordinary sibling of the outermost wrapper, runnable in the very step in which the nested graph pauses:
    # its finished output is part of the values computed before the pause
    sibling = rng.random() < 0.5
    if sibling:
        top["nodes"].append({"k": "fn", "name": "sib", "params": [{"n": "sib_in"}], "outs": ["sib_out"]})
    # the wrappers' names are the inner program names
    inputs = {r: f"run:{r}" for r in ref.ref_inputs(top)[0]}
    o = core.execute(top, inputs, "async", sched=rt.Sched(default="rand", rng=rng))
    case = {"spec": top, "inputs": inputs, "path": path}
    ins = next(ns for ns in inner["nodes"] if ns["name"] == ints[0])
    R = ref.ref_eval(top, inputs)
    if o.exc is not None or o.status != "paused":
        if R.paused is not None:
            ctx.violation("C14:nested-not-paused", f"nested interrupt at {'/'.join(path)}: status {o.status} {o.exc!r}", case)
        return
    ctx.obs["pauses_checked"] += 1
    want_name = "/".join(path)
    want_key = ".".join(path[:-1]) + "." + ins["outs"][0]
    if o.pause.node_name != want_name:
        ctx.violation("C14:nested-path", f"pause.node_name={o.pause.node_name!r}, expected {want_name!r}", case)
    if o.pause.response_key != want_key:
        ctx.violation("C14:nested-response-key", f"response_key={o.pause.response_key!r}, expected {want_key!r}", case)
    if R.paused is not None and o.pause.value != R.paused[1]:
        ctx.violation("C14:nested-value", f"pause.value={core.short(o.pause.value)} expected {core.short(R.paused[1])}", case)
    if sibling and any(e[0] == "exit" and e[1].endswith("/sib") for e in o.rec.ev):
        ctx.obs["nested_pause_sibling_checked"] += 1
        want = (f"{top['name']}/sib", (("sib_in", inputs["sib_in"]),))
        if (o.values or {}).get("sib_out") != want:
            ctx.violation("C14:computed-value-missing", f"the sibling of the pausing nested graph returned before the pause, but the PAUSED result's values are {core.short(o.values)} (sib_out missing or wrong)", case)
    # resume: the answer goes under the reported key(s); the history must end like the run whose handler answers
    answers = answers_for(inner, rng)
    auto_top = copy.deepcopy(top)
    lvl = auto_top
    while True:
        nxt = next((n_ for n_ in lvl["nodes"] if n_["k"] == "sub"), None)
        if nxt is None:
            break
        lvl = nxt["prog"]
    lvl["nodes"] = auto_spec(lvl, answers)["nodes"]
    oa = core.execute(auto_top, inputs, "async", sched=rt.Sched(default="rand", rng=rng))
    if oa.exc is not None or oa.status != "completed":
        ctx.inconc(f"nested auto-answering run did not complete: {oa.status} {oa.exc!r}")
        return
    # values computed INSIDE the nested graph in steps before the interrupt's step are values computed before the pause:
    # every wrapper exposes them (no selection here), so the PAUSED result carries them - with the values the
    # auto-answered run gives them (they do not depend on the answer)
    try:
        Rin = ref.ref_eval(inner, {r: f"run:{r}" for r in ref.ref_inputs(inner)[0]})
        lvl_int = Rin.level.get(ints[0])
    except ref.Ambiguous:
        lvl_int = None
    if lvl_int is not None:
        early = [e for ns in inner["nodes"] if ns["name"] != ints[0] and Rin.level.get(ns["name"]) is not None and Rin.level[ns["name"]] < lvl_int for e in ref.data_output_names(ns)]
        for e in early:
            if e in oa.values:
                ctx.obs["nested_pre_pause_values_checked"] += 1
                if e not in (o.values or {}) or o.values[e] != oa.values[e]:
                    ctx.violation("C14:computed-value-missing:inside-nested-graph", f"{e} was computed inside the nested graph before {want_name} paused (an exposed output of the wrapper), but the PAUSED result's values are {core.short(o.values)}", case)
                    break
    cur = dict(inputs)
    fm = ref.forward_map(list(ins["outs"]), ins.get("rename_out"))
    back = {v: k for k, v in fm.items()}
    for outn, key in o.pause.response_keys.items():
        cur[key] = answers[(ins["name"], back.get(outn, outn))]
    o2 = core.execute(top, cur, "async", sched=rt.Sched(default="rand", rng=rng))
    ctx.obs["nested_resumes"] += 1
    c2 = {**case, "provided": core.jsonable(cur)}
    if o2.exc is not None:
        ctx.violation("C14:nested-resume:raised:" + type(o2.exc).__name__, f"resuming {want_name} under {sorted(o.pause.response_keys.values())}: {o2.exc!r}", c2)
    elif o2.status == "paused" and o2.pause is not None and o2.pause.node_name == o.pause.node_name:
        ctx.violation("C14:nested-resume:paused-again", f"{want_name} paused again although its answer was supplied under the reported key(s) {sorted(o.pause.response_keys.values())}", c2)
    elif o2.status != "completed":
        ctx.violation("C14:nested-resume:status", f"after answering {want_name}: status {o2.status}", c2)
    elif o2.values != oa.values:
        diff = sorted(k for k in set(o2.values) | set(oa.values) if o2.values.get(k, "<absent>") != oa.values.get(k, "<absent>"))
        ctx.violation("C14:nested-resume:differs-from-auto", f"pause+resume of {want_name} ends with {core.short({k: o2.values.get(k, '<absent>') for k in diff})}, the run whose handler answers gives {core.short({k: oa.values.get(k, '<absent>') for k in diff})}", c2)
    elif o2.rec.invocations().get(f"{top['name']}/" + "/".join(path)):
        ctx.violation("C14:nested-resume:asked-again", f"handler of {want_name} invoked although its answer was supplied", c2)
    ctx.case({"nested": depth, "s": gen.shape_of(inner)}, True)


def sibling_nested(ctx, i):
    """Two sibling nested graphs, each with a pausing interrupt whose handler really suspends."""
    rng = ctx.rng

    def lvl(tag):
        return {
            "name": tag,
            "nodes": [
                {"k": "fn", "name": f"{tag}_pre", "params": [{"n": f"{tag}_in"}], "outs": [f"{tag}_doc"]},
                {"k": "int", "name": f"{tag}_ask", "params": [{"n": f"{tag}_doc"}], "outs": [f"{tag}_ans"], "handler": "pause", "async": True},
            ],
            "bind": {},
        }

    names = ["legal", "billing"]
    rng.shuffle(names)
    top = {"name": "top", "nodes": [{"k": "sub", "name": t, "prog": lvl(t)} for t in names], "bind": {}}
    inputs = {f"{t}_in": f"run:{t}" for t in names}
    for pol in ("first", "last", "rand"):
        o = core.execute(top, inputs, "async", sched=rt.Sched(default=pol, rng=rng))
        case = {"spec": top, "inputs": inputs, "policy": pol}
        if o.exc is not None or o.status != "paused":
            ctx.violation("C14:sibling-not-paused", f"{pol}: status {o.status} {o.exc!r}", case)
            continue
        ctx.obs["pauses_checked"] += 1
        t = o.pause.node_name.split("/")[0]
        fid = f"top/{t}/{t}_ask"
        calls = o.rec.invocations().get(fid, [])
        if o.pause.node_name != f"{t}/{t}_ask" or not calls:
            ctx.violation("C14:sibling-identity", f"{pol}: paused at {o.pause.node_name}; handler calls of {fid}: {len(calls)}", case)
            continue
        if o.pause.value != calls[-1][f"{t}_doc"]:
            ctx.violation("C14:pause-value", f"{pol}: pause at {o.pause.node_name} shows value {core.short(o.pause.value)} but that handler received {core.short(calls[-1][f'{t}_doc'])}", case)
        if o.pause.response_key != f"{t}.{t}_ans":
            ctx.violation("C14:nested-response-key", f"{pol}: response_key {o.pause.response_key!r}", case)
    ctx.case({"sibling": names}, True)


def mapped_deep_interrupt(ctx, i):
    """A pausing interrupt `depth` levels below a mapped nested graph (map_over node, or runner.map): the library
    declares interrupts incompatible with map, so either the program is rejected, or - if it runs - the pause must
    surface; a run that ends 'completed' although a handler returned None swallowed the pause."""
    rng = ctx.rng
    depth = rng.randint(1, 3)
    prog = {"name": "lvl0", "nodes": [{"k": "int", "name": "ask", "params": [{"n": "x"}], "outs": ["y"], "handler": "pause", "async": rng.random() < 0.5}], "bind": {}}
    for d in range(1, depth):
        prog = {"name": f"lvl{d}", "nodes": [{"k": "sub", "name": f"w{d}", "prog": prog}], "bind": {}}
    mid = {"name": "mid", "nodes": [{"k": "fn", "name": "prep", "params": [{"n": "q"}], "outs": ["x"]}, {"k": "sub", "name": "deep", "prog": prog}], "bind": {}}
    items = [f"run:q{j}" for j in range(rng.randint(1, 3))]
    via_node = rng.random() < 0.5
    from hgmon.build import build_program
    from hypergraph.exceptions import IncompatibleRunnerError
    from hypergraph.graph.validation import GraphConfigError

    if via_node:
        top = {"name": "top", "nodes": [{"k": "sub", "name": "mid", "prog": mid, "map": {"over": ["q"], "mode": "zip", "err": "raise"}}], "bind": {}}
    else:
        top = mid
    case = {"spec": top, "inputs": {"q": items}, "via_node": via_node, "depth": depth}
    rt.reset_program()
    try:
        built = build_program(top)
    except (GraphConfigError, IncompatibleRunnerError):
        ctx.obs["mapped_deep_interrupt_cases"] += 1
        ctx.obs["mapped_deep_interrupt_rejected"] += 1
        ctx.case({"mapped_int": depth, "via": via_node, "rej": "build"}, True)
        return
    o = core.execute(built, {"q": items}, "async", **({} if via_node else {"map_over": ["q"]}))
    asked = [k for k, v in o.rec.invocations().items() if k.endswith("/ask") and v] if o.rec is not None else []
    ctx.obs["mapped_deep_interrupt_cases"] += 1
    if o.status.startswith("raised:"):
        ctx.obs["mapped_deep_interrupt_rejected"] += 1
        if asked:
            ctx.violation("C14:mapped-interrupt:ran-then-raised", f"depth {depth}: handler invoked ({asked}) although the program was rejected with {o.status}", case)
    else:
        statuses = [o.status] if o.status != "map" else [st for st, _, _ in o.values]
        if asked and "paused" not in statuses:
            ctx.violation("C14:mapped-interrupt:pause-swallowed", f"depth {depth} via {'map_over node' if via_node else 'runner.map'}: handlers {asked} returned None but the call ended {statuses} without any pause", case)
    ctx.case({"mapped_int": depth, "via": via_node}, True)


def cached_interrupt_history(ctx, i):
    """An interrupt declared cache=True on a runner with a cache backend: (1) a fresh run pauses, (2) the run with the
    answer under the reported key completes as if the handler had answered, (3) a NEW run with the same inputs and no
    answer pauses again at the same interrupt - the human's answer of an earlier conversation is not a handler result."""
    import asyncio

    from hypergraph import AsyncRunner, FunctionNode, Graph, InMemoryCache, InterruptNode

    rng = ctx.rng

    def draft(q):
        return ("draft", q)

    def ask(d):
        return None

    def fin(decision):
        return ("fin", decision)

    nodes = [FunctionNode(draft, name="draft", output_name="d", cache=rng.random() < 0.5), InterruptNode(ask, name="ask", output_name="decision", cache=True), FunctionNode(fin, name="fin", output_name="out")]
    rng.shuffle(nodes)
    g = Graph(nodes, name="ci")
    runner = AsyncRunner(cache=InMemoryCache())
    answer = rng.choice(["yes", "", 0, None if False else "no", ["x"]])
    case = {"program": "cached interrupt: pause, answer, fresh run", "answer": repr(answer)}
    for rep in range(2):
        r1 = asyncio.run(runner.run(g, {"q": "run:q"}))
        ctx.obs["cached_interrupt_conversations"] += 1
        if r1.status.value != "paused" or r1.pause is None or r1.pause.node_name != "ask":
            ctx.violation("C14:cached-interrupt-not-paused", f"conversation {rep}: a fresh run (same inputs, no answer) on a cache that saw an earlier answered conversation: status {r1.status.value}, values {core.short(r1.values)} - expected PAUSED at ask", {**case, "conversation": rep})
            return
        ctx.obs["pauses_checked"] += 1
        r2 = asyncio.run(runner.run(g, {"q": "run:q", r1.pause.response_key: answer}))
        if r2.status.value != "completed" or r2.values.get("out") != ("fin", answer):
            ctx.violation("C14:resume-differs-from-auto", f"conversation {rep}: answering under {r1.pause.response_key!r}: status {r2.status.value} values {core.short(r2.values)}", {**case, "conversation": rep})
            return
    ctx.case({"cached-interrupt-history": True}, True)


def two_stage_shadowed(ctx, i):
    """Two-stage approval: a top-level interrupt answers under `decision`; the nested graph of the second stage has an
    interrupt whose OWN output is also called `decision` and takes the first answer through an input that the wrapper
    renames to `decision` (with_inputs(previous="decision"), with_outputs(decision="final_decision")). One pause at a
    time; the nested interrupt is answered under the dotted key it reports; the history ends like the auto-answered run."""
    import asyncio

    from hypergraph import AsyncRunner, FunctionNode, Graph, InterruptNode

    rng = ctx.rng
    ran = []

    def build(first=None, final=None):
        def make_draft(query):
            return ("draft", query)

        def first_review(draft):
            return first

        def final_review(previous, draft):
            return final

        def summarize(previous, decision):
            ran.append("summarize")
            return ("summary", previous, decision)

        def publish(final_decision, summary):
            ran.append("publish")
            return ("published", final_decision, summary)

        second = Graph([InterruptNode(final_review, name="final_review", output_name="decision"), FunctionNode(summarize, name="summarize", output_name="summary")], name="second")
        how = rng.choice(["in-then-out", "out-then-in"])
        gn = second.as_node()
        gn = gn.with_inputs(previous="decision").with_outputs(decision="final_decision") if how == "in-then-out" else gn.with_outputs(decision="final_decision").with_inputs(previous="decision")
        nodes = [FunctionNode(make_draft, name="make_draft", output_name="draft"), InterruptNode(first_review, name="first_review", output_name="decision"), gn, FunctionNode(publish, name="publish", output_name="result")]
        rng.shuffle(nodes)
        return Graph(nodes, name="two_stage")

    a1, a2 = rng.choice(["ok-1", "", 0]), rng.choice(["ok-2", "", 0])
    case = {"program": "two-stage approval, nested interrupt output shadows the renamed wrapper input", "answers": [repr(a1), repr(a2)]}
    import warnings

    with warnings.catch_warnings():
        warnings.simplefilter("ignore")
        expected = asyncio.run(AsyncRunner().run(build(a1, a2), {"query": "q"}))
        g = build()
        r1 = asyncio.run(AsyncRunner().run(g, {"query": "q"}))
        ctx.obs["two_stage_histories"] += 1
        if r1.status.value != "paused" or r1.pause.node_name != "first_review":
            ctx.violation("C14:first-pause", f"two-stage approval: first run {r1.status.value} {r1.pause}", case)
            return
        ran.clear()
        r2 = asyncio.run(AsyncRunner().run(g, {"query": "q", r1.pause.response_key: a1}))
        ctx.obs["pauses_checked"] += 2
        if r2.status.value != "paused" or r2.pause.node_name != "second/final_review" or r2.pause.response_key != "second.decision":
            ctx.violation("C14:nested-path", f"two-stage approval: after the first answer the run should pause at second/final_review under second.decision; got {r2.status.value} {r2.pause}", case)
            return
        if ran:
            ctx.violation("C14:dependant-ran-before-answer", f"two-stage approval: {ran} ran before the nested interrupt was answered", case)
            return
        r3 = asyncio.run(AsyncRunner().run(g, {"query": "q", r1.pause.response_key: a1, r2.pause.response_key: a2}))
        ctx.obs["nested_resumes"] += 1
        if r3.status.value == "paused":
            ctx.violation("C14:nested-resume:paused-again", f"two-stage approval: answered second/final_review under {r2.pause.response_key!r}, the run paused again at {r3.pause.node_name} showing {r3.pause.value!r}", case)
        elif r3.status.value != "completed" or r3.values != expected.values:
            ctx.violation("C14:nested-resume:differs-from-auto", f"two-stage approval: pause+resume ends with {r3.status.value} {core.short(r3.values)}; the auto-answered run gives {core.short(expected.values)}", case)
    ctx.case({"two-stage-shadowed": True}, True)


def pause_options_and_same_named_mounts(ctx, i):
    """Directed. (1) A pausing run called with select=[an output that depends on the interrupt] and on_missing='error' /
    'warn': the outputs behind the interrupt are legitimately absent at a pause - the call returns PAUSED (identity,
    value, key, values computed so far), it does not raise and does not warn. (2) Two nested graphs mounted under the
    SAME node name at different nesting levels, holding interrupts with different output names: each is answered under
    the dotted key it reports and the history ends like the auto-answered run - also with a reused runner."""
    import asyncio
    import warnings

    from hypergraph import AsyncRunner, FunctionNode, Graph, InterruptNode

    rng = ctx.rng

    def mk(q):
        return ("draft", q)

    def ask(draft):
        return None

    def fin(decision, draft):
        return ("fin", decision, draft)

    g = Graph([FunctionNode(mk, name="mk", output_name="draft"), InterruptNode(ask, name="ask", output_name="decision"), FunctionNode(fin, name="fin", output_name="final")], name="po")
    for pol in ("error", "warn", "ignore"):
        for sel in (["final"], ["draft", "final"], ("final",)):
            with warnings.catch_warnings(record=True) as wl:
                warnings.simplefilter("always")
                try:
                    r = asyncio.run(AsyncRunner().run(g, {"q": "run:q"}, select=sel, on_missing=pol))
                except Exception as e:  # noqa: BLE001
                    ctx.violation("C14:pause-raised", f"a pausing run with select={sel!r}, on_missing={pol!r} raised {e!r} instead of returning PAUSED", {"program": "pause options", "select": list(sel), "on_missing": pol})
                    continue
            ctx.obs["pause_option_runs"] += 1
            ctx.obs["pauses_checked"] += 1
            nw = [str(w.message)[:60] for w in wl if issubclass(w.category, UserWarning) and "not found" in str(w.message)]
            exp_vals = {"draft": ("draft", "run:q")} if "draft" in sel else {}
            if r.status.value != "paused" or r.pause is None or r.pause.node_name != "ask" or r.pause.response_key != "decision" or r.pause.value != ("draft", "run:q") or r.values != exp_vals or nw:
                ctx.violation("C14:pause-options", f"select={sel!r}, on_missing={pol!r}: status {r.status.value}, pause {r.pause}, values {r.values}, warnings {nw}; expected PAUSED at ask under 'decision' with values {exp_vals} and no warning", {"program": "pause options", "select": list(sel), "on_missing": pol})
    # (2) same node name at two levels, different interrupt outputs
    def build(a1=None, a2=None):
        def top_check(text):
            return a1

        def counsel(decision, text):
            return a2

        def wrap_up(verdict):
            return ("done", verdict)

        review_top = Graph([InterruptNode(top_check, name="top_check", output_name="decision")], name="review")
        review_legal = Graph([InterruptNode(counsel, name="counsel_check", output_name="verdict")], name="review")
        legal = Graph([review_legal.as_node(name="review")], name="legal")
        return Graph([review_top.as_node(name="review"), legal.as_node(), FunctionNode(wrap_up, name="wrap_up", output_name="result")], name="pipeline")

    a1, a2 = rng.choice(["go", 0, ""]), rng.choice(["fine", 0, ""])
    case = {"program": "same-named nested graph nodes at two levels", "answers": [repr(a1), repr(a2)]}
    with warnings.catch_warnings():
        warnings.simplefilter("ignore")
        expected = asyncio.run(AsyncRunner().run(build(a1, a2), {"text": "t"}))
        runner = AsyncRunner()
        g2 = build()
        supplied = {"text": "t"}
        seen = []
        for step in range(4):
            r = asyncio.run(runner.run(g2, dict(supplied)))
            ctx.obs["same_name_mount_runs"] += 1
            if r.status.value != "paused":
                break
            ctx.obs["pauses_checked"] += 1
            if r.pause.node_name in seen:
                ctx.violation("C14:nested-resume:paused-again", f"{r.pause.node_name} paused again although its answer was supplied under {r.pause.response_key!r} (asked so far: {seen})", case)
                return
            seen.append(r.pause.node_name)
            supplied[r.pause.response_key] = a1 if r.pause.node_name == "review/top_check" else a2
        if seen != ["review/top_check", "legal/review/counsel_check"]:
            ctx.violation("C14:nested-path", f"pauses in order {seen}; expected review/top_check then legal/review/counsel_check", case)
        elif r.status.value != "completed" or r.values != expected.values:
            ctx.violation("C14:nested-resume:differs-from-auto", f"after both answers: {r.status.value} {core.short(r.values)}; auto-answered run gives {core.short(expected.values)}", case)
    ctx.case({"directed": "pause-options-and-same-named-mounts"}, True)


def run(ctx):
    n = 800 if ctx.tier == "quick" else 16000
    core.WARM_P = 0.0
    if ctx.replay:
        ctx.inconc("C14 replays are re-generated from the seed; re-run the tier with the recorded seed")
        return
    for i in range(n):
        r = i % 6
        if i % 40 == 7:
            mapped_deep_interrupt(ctx, i)
        elif i % 40 == 27:
            cached_interrupt_history(ctx, i)
        elif i % 40 == 17:
            two_stage_shadowed(ctx, i)
        elif i % 80 == 37:
            pause_options_and_same_named_mounts(ctx, i)
        elif r == 4:
            nested_identity(ctx, i)
        elif r == 5:
            sibling_nested(ctx, i)
        else:
            history(ctx, i)
