"""C20 - visualisation shows exactly the graph's structure in every expansion state."""

from __future__ import annotations

import copy
import itertools
import re

from hgmon import core, gen, ref, rt
from hgmon.build import build_program

LEVEL = "exploration"
RULE = (
    "generated graphs with nesting depth 0-3 (convex groups wrapped repeatedly, with renamed wrapper inputs/outputs and "
    "inner bindings), gates (incl. END), emit/wait_for ordering edges, inputs consumed at several depths, the same "
    "Graph object nested twice, plain nodes whose name merely extends a sibling container's name; for each graph ALL valid expansion states x both output modes taken from "
    "render_graph()['meta'] and Mermaid for every depth 0..max (parsed from the source). Oracles: self-consistency "
    "(same state keys in nodesByState and edgesByState, every edge endpoint a declared node of that state, every visible "
    "id once; every Mermaid edge endpoint declared); faithfulness against leaf-level dependencies computed from the "
    "program spec through nesting boundaries and renames: for every data / control / ordering dependency whose deepest "
    "visible representatives differ there must be a drawn connection between visible representatives (directly in "
    "merged mode, through the producer's DATA node in separate mode), and every drawn node-to-node edge must "
    "correspond to some dependency between descendants of its endpoints; flattening: to_flat_graph() has exactly the "
    "hierarchical ids of the recursive walk, each once, with the right parent and the inner edges of every instance. "
    "Non-trivial: the graph has >= 1 nested graph or gate; distinct = (program shape); states counted separately."
    ' Also: Mermaid declarations counted (no node declared twice); directed shapes: a value name private to one container and exposed by a sibling next to an output whose name contains it; names whose glued diagram ids collide.'
    ' Directed: a value private to a nested graph whose name is also a plain input of the enclosing graph.'
    ' Directed self-consistency with hide=True nodes (also the hidden first entry node of a gated container); ordering edges whose name-derived edge ids coincide.'
)
ASSUMPTIONS = [
    "edges whose endpoint is hidden in a state are ignored on the drawn side (inputs owned by a collapsed container are declared but hidden by design)",
    "layout, styling, labels and grouping of input nodes are not judged; hide=True nodes are not generated",
]
DECIDING = ["states_checked", "deps_checked", "edges_checked"]
THOROUGH_SHARDS = 12


# ---------------------------------------------------------------------------
# reference structure from the spec
# ---------------------------------------------------------------------------


def hid(path, name):
    return f"{path}/{name}" if path else name


def leaf_sources(ns, path, ext_name, nonfirst=False):
    """[(leaf producer id, is a non-first producer of a shared name somewhere on the way)]"""
    me = hid(path, ref.node_name(ns))
    if ns["k"] != "sub":
        own = {e: o for o, e in ref.node_outputs(ns)}.get(ext_name, ext_name)
        return [(me, nonfirst, ext_name)]
    back = {e: o for o, e in ref.node_outputs(ns)}
    inner_name = back.get(ext_name)
    out = []
    cands = [ins for ins in ns["prog"]["nodes"] if inner_name in [e for _, e in ref.node_outputs(ins)]]
    for j, ins in enumerate(cands):
        out += leaf_sources(ins, me, inner_name, nonfirst or j > 0)
    return out


def leaf_targets(ns, path, ext_name):
    """Leaf consumers of an external input name of node ns."""
    me = hid(path, ref.node_name(ns))
    if ns["k"] != "sub":
        return [me]
    back = {e: i for i, e in ref.node_inputs(ns)}
    inner_name = back.get(ext_name)
    out = []
    for ins in ns["prog"]["nodes"]:
        if inner_name in [e for _, e in ref.node_inputs(ins)]:
            out += leaf_targets(ins, me, inner_name)
    return out


def all_ids(prog, path=""):
    out = {}
    for ns in prog["nodes"]:
        me = hid(path, ref.node_name(ns))
        out[me] = (ns, path or None)
        if ns["k"] == "sub":
            out.update(all_ids(ns["prog"], me))
    return out


def deps_of(prog, path=""):
    """[(source id, target id, kind, value, target_is_container)] with leaf endpoints for data."""
    deps = []
    prod = ref.producers(prog)
    for ns in prog["nodes"]:
        me = hid(path, ref.node_name(ns))
        for _, e in ref.node_inputs(ns):
            for k, p in enumerate(prod.get(e, [])):
                if p is ns:
                    continue
                # (of several same-name producers the library wires the FIRST listed one: only the others fall under
                # the known finding)
                for s, nf, leafname in leaf_sources(p, path, e, k > 0):
                    for t in leaf_targets(ns, path, e):
                        deps.append((s, t, "data", e, False, nf or (("renamed", leafname) if leafname != e else False)))
        if ns["k"] != "sub":
            for w in ns.get("wait", []):
                for k, p in enumerate(prod.get(w, [])):
                    if p is ns:
                        continue
                    already = any(e2 == w for _, e2 in ref.node_inputs(ns))
                    if not already:
                        for s, nf, leafname in leaf_sources(p, path, w, k > 0):
                            deps.append((s, me, "ordering", w, False, nf))
        for t in ref.gate_targets(ns):
            tn = next((x for x in prog["nodes"] if ref.node_name(x) == t), None)
            if tn is not None:
                deps.append((me, hid(path, t), "control", "", tn["k"] == "sub", False))
        if ns["k"] == "sub":
            deps += deps_of(ns["prog"], me)
    return deps


def ancestors_or_self(i):
    parts = i.split("/")
    return ["/".join(parts[: k + 1]) for k in range(len(parts))]


def visible(i, state):
    return all(state.get(a, False) for a in ancestors_or_self(i)[:-1])


def vis_reps(i, state):
    return [a for a in ancestors_or_self(i) if visible(a, state)]


def deepest_rep(i, state):
    r = vis_reps(i, state)
    return r[-1]


# ---------------------------------------------------------------------------
# interactive view
# ---------------------------------------------------------------------------


def parse_key(key):
    state = {}
    exp, _, sep = key.rpartition("|") if "|" in key else ("", "", key)
    for item in exp.split(","):
        if item:
            n, _, b = item.rpartition(":")
            state[n] = b == "1"
    return state, sep.endswith("1")


def boundary_aliases(prog, out=None):
    """Outer names given to renamed wrapper inputs/outputs anywhere in the program."""
    out = set() if out is None else out
    for ns in prog["nodes"]:
        if ns["k"] == "sub":
            for b in (ns.get("rename_in") or []) + (ns.get("rename_out") or []):
                out.update(b.values())
            boundary_aliases(ns["prog"], out)
    return out


SHADOWED = [set()]


def shadowed_names(spec):
    """Value names that are PRIVATE to some nested graph (produced inside, hidden from the parent by its selection) and
    are also produced by a node outside that nested graph."""
    out = set()

    def produced_in(prog):
        names = set()
        for ns in prog["nodes"]:
            if ns["k"] == "sub":
                names |= produced_in(ns["prog"])
            names |= {e for _, e in ref.node_outputs(ns)}
        return names

    def walk(prog, outside):
        for ns in prog["nodes"]:
            if ns["k"] != "sub":
                continue
            inner = ns["prog"]
            others = set(outside)
            for o in prog["nodes"]:
                if o is not ns:
                    others |= {e for _, e in ref.node_outputs(o)}
                    if o["k"] == "sub":
                        others |= produced_in(o["prog"])
            if inner.get("select"):
                hidden = {e for x in inner["nodes"] for e in ref.data_output_names(x)} - set(inner["select"])
                out.update(hidden & others)
            walk(inner, others)

    walk(spec, set())
    return out


def classify_missing(dep, state, ids, edges_nn):
    s, t, kind, value, cont, nonfirst = dep
    if value in SHADOWED[0]:
        # the value's name is also the name of a value private to another container: the renderer's global
        # name -> producer table points at that other container's node
        return "private-name-shadows-exposed-output"
    if value in ALIASES[0] and (any(state.get(a, False) for a in ancestors_or_self(s)[:-1]) or any(state.get(a, False) for a in ancestors_or_self(t)[:-1])):
        # a wrapper renamed this value at its boundary and is expanded: the re-routing into the
        # container looks the value up by its outer name and does not find the inner node
        return "renamed-boundary-name-of-expanded-container"
    if isinstance(nonfirst, (tuple, list)):
        nonfirst = False
    if nonfirst:
        # only ONE of several same-name (exclusive) producers is wired (same root cause as the C08 finding)
        return "one-of-several-same-name-producers"
    sub_s = [a for a in ancestors_or_self(s)[:-1]]
    # F-C20b: the re-routed endpoint sits inside a collapsed container nested in an expanded one
    for end in (s, t):
        anc = ancestors_or_self(end)[:-1]
        if len(anc) >= 2 and any(state.get(a, False) for a in anc) and not all(state.get(a, False) for a in anc):
            return "collapsed-inside-expanded"
    # F-C20a: a sibling consumer of the same value in the same expanded container did get the edge
    return "other"


ALIASES = [set()]


def classify_spurious(a, b, value, src_value, state):
    if value in SHADOWED[0] or src_value in SHADOWED[0]:
        return ":private-name-shadows-exposed-output"
    if value in ALIASES[0]:
        return ":renamed-boundary-name-of-expanded-container"
    if src_value and value and src_value != value and (src_value in value or value in src_value):
        return ":substring-output-match"
    return ""


def first_consumer_only(dep, deps, state, have_edge):
    """F-C20a: another consumer of the same value under the same expanded top-level container did get the edge."""
    s, t, kind, value = dep[0], dep[1], dep[2], dep[3]
    tc = t.split("/", 1)[0] if "/" in t else None
    if not tc or not state.get(tc) or kind != "data":
        return False
    for d2 in deps:
        if d2[0] == s and d2[3] == value and d2[1] != t and d2[1].startswith(tc + "/"):
            if have_edge(vis_reps(s, state), vis_reps(d2[1], state)):
                return True
    return False


def input_deps_of(prog):
    """(top-level input name, leaf consumer id) pairs."""
    produced = {e for ns in prog["nodes"] for _, e in ref.node_outputs(ns)}
    out = set()
    for ns in prog["nodes"]:
        for _, e in ref.node_inputs(ns):
            if e not in produced:
                for t in leaf_targets(ns, "", e):
                    out.add((e, t))
    return out


def check_interactive(ctx, spec, g, deps, ids, case):
    from hypergraph.viz.renderer import render_graph

    flat = g.to_flat_graph()
    r = render_graph(flat, depth=0)
    nbs, ebs = r["meta"]["nodesByState"], r["meta"]["edgesByState"]
    if set(nbs) != set(ebs):
        ctx.violation("C20:state-keys-differ", f"nodesByState has {sorted(set(nbs) - set(ebs))[:3]} extra, edgesByState has {sorted(set(ebs) - set(nbs))[:3]} extra", case)
    # the set of states itself, enumerated independently from the program: every assignment expanded/collapsed
    # of the containers in which nothing is expanded inside a collapsed container, x both output modes
    import itertools

    cont = sorted(i for i, (ns, _) in ids.items() if ns["k"] == "sub")
    if len(cont) <= 10:
        expected_keys = set()
        for bits in itertools.product([False, True], repeat=len(cont)):
            st = dict(zip(cont, bits))
            if any(st[c_] and not all(st[a] for a in ancestors_or_self(c_)[:-1]) for c_ in cont):
                continue
            for sp in (0, 1):
                body = ",".join(f"{c_}:{int(st[c_])}" for c_ in cont)
                expected_keys.add((body + "|" if body else "") + f"sep:{sp}")
        ctx.obs["state_sets_checked"] += 1
        if set(nbs) != expected_keys:
            missing, extra = sorted(expected_keys - set(nbs)), sorted(set(nbs) - expected_keys)
            ctx.violation("C20:expansion-states-differ", f"{len(cont)} containers: valid states without diagram data {missing[:3]} ({len(missing)}), diagram data under keys that are no valid state {extra[:3]} ({len(extra)})", case)
    # what render_graph returns at the top level (the diagram shown first) for every depth and output mode is the
    # diagram of the matching expansion state: containers above that depth expanded, the others collapsed
    maxd_ = max([i2.count("/") + 1 for i2 in cont] or [0])
    for d_ in range(0, maxd_ + 1):
        for sp in (False, True):
            try:
                rr = render_graph(flat, depth=d_, separate_outputs=sp)
            except Exception as e:  # noqa: BLE001
                ctx.violation("C20:render-raised", f"render_graph(depth={d_}, separate_outputs={sp}) raised {e!r}", case)
                continue
            body = ",".join(f"{c_}:{int(d_ > c_.count('/'))}" for c_ in cont)
            key_ = (body + "|" if body else "") + f"sep:{int(sp)}"
            ctx.obs["initial_views_checked"] += 1
            top_nodes = sorted(n_["id"] for n_ in rr.get("nodes", []))
            top_edges = sorted((e_["source"], e_["target"]) for e_ in rr.get("edges", []))
            st_nodes = sorted(n_["id"] for n_ in rr["meta"]["nodesByState"].get(key_, []))
            st_edges = sorted((e_["source"], e_["target"]) for e_ in rr["meta"]["edgesByState"].get(key_, []))
            if key_ in rr["meta"]["nodesByState"] and (top_nodes != st_nodes or top_edges != st_edges):
                ctx.violation("C20:initial-view-differs-from-its-state", f"render_graph(depth={d_}, separate_outputs={sp}) shows {len(top_nodes)} nodes / {len(top_edges)} edges at the top level; the data of its expansion state {key_!r} has {len(st_nodes)} nodes / {len(st_edges)} edges", {**case, "depth": d_, "separate_outputs": sp})
    keys = sorted(set(nbs) & set(ebs))
    if ctx.tier == "quick" and len(keys) > 24:
        keys = ctx.rng.sample(keys, 24)
    expandable = [i for i, (ns, _) in ids.items() if ns["k"] == "sub"]
    for key in keys:
        state, sep = parse_key(key)
        ctx.obs["states_checked"] += 1
        nodes, edges = nbs[key], ebs[key]
        c2 = {**case, "state": key}
        idlist = [n["id"] for n in nodes]
        dup = {x for x in idlist if idlist.count(x) > 1}
        if dup:
            ctx.violation("C20:node-listed-twice" + (":name-derived-ids-collide" if dup <= glued_id_collisions(spec, ids) else ""), f"state {key}: node ids listed twice: {sorted(dup)[:4]}", c2)
        nset = set(idlist)
        hidden = {n["id"] for n in nodes if n.get("hidden")}
        for e in edges:
            ctx.obs["edges_checked"] += 1
            for end in (e["source"], e["target"]):
                if end not in nset:
                    mech = ":data-node-of-container" if end.startswith("data_") and any(end.startswith(f"data_{c}_") for c in expandable) else ""
                    ctx.violation("C20:edge-endpoint-undeclared" + mech, f"state {key}: edge {e['id']} refers to {end!r}, which is not a node of that state", c2)
                    break
        # (hidden input/DATA nodes keep their edges by design; a PROGRAM node inside a collapsed
        # container must not carry edges in that state)
        for e in edges:
            for end in (e["source"], e["target"]):
                if end in ids and end in hidden:
                    ctx.violation("C20:edge-on-node-inside-collapsed-container", f"state {key}: edge {e['id']} is attached to {end}, which lies inside a collapsed container in that state", c2)
                    break
        # every visible program node appears (once) and nothing invisible is shown
        for i in ids:
            if visible(i, state):
                if i not in nset or i in hidden:
                    ctx.violation("C20:visible-node-missing", f"state {key}: node {i} should be visible but is {'hidden' if i in nset else 'absent'}", c2)
            elif i in nset and i not in hidden:
                ctx.violation("C20:invisible-node-shown", f"state {key}: node {i} lies in a collapsed container but is not hidden", c2)
        drawn = [(e["source"], e["target"], e.get("data", {}).get("edgeType")) for e in edges if e["source"] not in hidden and e["target"] not in hidden]
        vname = {(e["source"], e["target"]): e.get("data", {}).get("valueName") for e in edges}
        nn = {(s, t) for s, t, k in drawn if s in ids and t in ids}
        via_data = {}
        producers_of_data = {}
        for s, t, k in drawn:
            if t.startswith("data_") and s in ids:
                producers_of_data[t] = s
        for s, t, k in drawn:
            if s.startswith("data_") and t in ids and s in producers_of_data:
                nn_pair = (producers_of_data[s], t)
                via_data.setdefault(nn_pair, s)
        # faithfulness 1: every dependency is drawn between visible representatives
        for dep in deps:
            s, t, kind, value, cont, nonfirst = dep
            rs, rtg = vis_reps(s, state), vis_reps(t, state)
            if rs[-1] == rtg[-1]:
                continue  # internal to one collapsed container
            if set(rs) & set(rtg) and rs[-1] in rtg or rtg[-1] in rs:
                # one endpoint's representative encloses the other: nothing to draw between them
                continue
            ctx.obs["deps_checked"] += 1
            tset = set(rtg)
            if cont:
                tset |= {i for i in ids if i.startswith(t + "/") and visible(i, state)}
            sset = set(rs)
            ok = any((a, b) in nn for a in sset for b in tset)
            if not ok and sep:
                # through a DATA node of the producer (an ordering/control dependency between a pair
                # that is already joined by a data connection is drawn as that connection)
                ok = any((a, b) in via_data for a in sset for b in tset)
            if not ok:
                mech = classify_missing(dep, state, ids, nn)
                if mech == "other" and first_consumer_only(dep, deps, state, lambda A, B: any((a, b) in (nn | set(via_data)) for a in A for b in B)):
                    mech = "first-internal-consumer-only"
                ctx.violation(
                    f"C20:missing-edge:{kind}:{'sep' if sep else 'merged'}:{mech}",
                    f"state {key}: {kind} dependency {s} -> {t}{' (' + value + ')' if value else ''} has no drawn connection between visible representatives {rs} and {sorted(tset)}",
                    {**c2, "dependency": list(dep)},
                )
        # input edges: an edge from the node of input x must reach a consumer of x
        ideps = input_deps_of(spec)
        # ... and every consumer of x is reached from the (visible) node that shows x: the INPUT node of x, or the
        # INPUT_GROUP listing x among its parameters
        carriers = {}
        for n_ in nodes:
            if n_["id"] in hidden:
                continue
            d_ = n_.get("data", {})
            if d_.get("nodeType") == "INPUT" and n_["id"].startswith("input_"):
                carriers.setdefault(n_["id"][len("input_"):], []).append(n_["id"])
            elif d_.get("nodeType") == "INPUT_GROUP":
                for p_ in d_.get("params") or []:
                    carriers.setdefault(p_, []).append(n_["id"])
        drawn_pairs = {(s_, t_) for s_, t_, _k in drawn}
        for e_, c_ in sorted(ideps):
            if e_ not in carriers:
                continue
            ctx.obs["input_consumers_checked"] += 1
            reps_ = set(vis_reps(c_, state))
            if not any((src_, r_) in drawn_pairs for src_ in carriers[e_] for r_ in reps_):
                ctx.violation("C20:missing-input-edge", f"state {key}: input {e_!r} is shown ({carriers[e_]}) but no edge leads from it to a visible representative of its consumer {c_} ({sorted(reps_)})", {**c2, "input": e_, "consumer": c_})
                break
        for s_, t_, k_ in drawn:
            if s_.startswith("input_") and not s_.startswith("input_group_") and t_ in ids:
                nm = s_[len("input_"):]
                ctx.obs["input_edges_checked"] += 1
                if not any(e == nm and t_ in ancestors_or_self(c) for e, c in ideps):
                    inner_same = any(nm in (fp, e_) for i2, (n2, _) in ids.items() if i2 == t_ or i2.startswith(t_ + "/") for fp, e_ in ref.node_inputs(n2))
                    ctx.violation("C20:spurious-input-edge" + (":inner-name-equals-unrelated-outer-input" if inner_same else ""), f"state {key}: edge from input {nm!r} to {t_}, which does not consume that input", c2)
        # faithfulness 2: every drawn node-to-node edge corresponds to some dependency
        dep_pairs = set()
        for s, t, kind, value, cont, _nf in deps:
            for a in ancestors_or_self(s):
                for b in ancestors_or_self(t):
                    dep_pairs.add((a, b))
                if cont:
                    for i in ids:
                        if i.startswith(t + "/"):
                            dep_pairs.add((a, i))
        for a, b in nn | set(via_data):
            if (a, b) not in dep_pairs:
                if (a, b) in nn:
                    v, sv = vname.get((a, b)), None
                else:
                    dn = via_data[(a, b)]
                    v, sv = vname.get((dn, b)), dn[len("data_" + a + "_"):]
                ctx.violation(f"C20:spurious-edge:{'sep' if sep else 'merged'}" + classify_spurious(a, b, v, sv, state), f"state {key}: drawn edge {a} -> {b} (value {v!r}) corresponds to no dependency of the graph", c2)
    return len(keys)


# ---------------------------------------------------------------------------
# flattening
# ---------------------------------------------------------------------------


def check_flat(ctx, spec, g, ids, deps, case):
    flat = g.to_flat_graph()
    got = list(flat.nodes)
    if sorted(got) != sorted(ids) or len(got) != len(set(got)):
        ctx.violation("C20:flat-node-set", f"to_flat_graph nodes {sorted(got)} differ from the recursive walk {sorted(ids)}", case)
        return
    for i, (ns, parent) in ids.items():
        if flat.nodes[i].get("parent") != parent:
            ctx.violation("C20:flat-parent", f"flattened node {i} has parent {flat.nodes[i].get('parent')!r}, expected {parent!r}", case)
    ctx.obs["flat_checked"] += 1
    # inner edges of every nested instance are present (same-level dependencies)
    fe = set(flat.edges())
    for path_id, (ns, parent) in ids.items():
        if ns["k"] != "sub":
            continue
        prod = ref.producers(ns["prog"])
        for ins in ns["prog"]["nodes"]:
            for _, e in ref.node_inputs(ins):
                for p in prod.get(e, [])[:1]:
                    if p is ins:
                        continue
                    a, b = hid(path_id, ref.node_name(p)), hid(path_id, ref.node_name(ins))
                    if (a, b) not in fe:
                        ctx.violation("C20:flat-inner-edge-missing", f"flattened graph lacks the inner edge {a} -> {b} of nested instance {path_id}", case)
                        return


# ---------------------------------------------------------------------------
# Mermaid
# ---------------------------------------------------------------------------

class _CountingSet(set):
    """A set that also counts how often each element was added (declarations per node id)."""

    def __init__(self, counts=None):
        super().__init__()
        self.counts = counts if counts is not None else {}

    def add(self, x):
        self.counts[x] = self.counts.get(x, 0) + 1
        super().add(x)


EDGE_RE = re.compile(r"^\s*([A-Za-z0-9_]+)\s*(-->|-\.->|==>|-\.-|---)\s*(?:\|[^|]*\|\s*)?([A-Za-z0-9_]+)\s*$")
NODE_RE = re.compile(r"^\s*([A-Za-z0-9_]+)\s*[\[\(\{>]")
SUB_RE = re.compile(r"^\s*subgraph\s+([A-Za-z0-9_]+)")


def parse_mermaid(src, counts=None):
    declared, edges = _CountingSet(counts), []
    for line in src.splitlines():
        line = line.split("%%")[0].rstrip()
        if not line.strip() or line.strip().startswith(("flowchart", "graph ", "classDef", "class ", "style ", "linkStyle", "end", "direction")):
            m = SUB_RE.match(line)
            if not m:
                continue
        m = SUB_RE.match(line)
        if m:
            declared.add(m.group(1))
            continue
        m = EDGE_RE.match(line)
        if m:
            edges.append((m.group(1), m.group(3), m.group(2)))
            continue
        # edges with inline labels: A -->|x| B or A -- x --> B
        m2 = re.match(r"^\s*([A-Za-z0-9_]+)\s*(?:--|-\.|==)[^>]*>\s*(?:\|[^|]*\|\s*)?([A-Za-z0-9_]+)\s*$", line)
        if m2:
            edges.append((m2.group(1), m2.group(2), "-->"))
            continue
        m = NODE_RE.match(line)
        if m:
            declared.add(m.group(1))
    return declared, edges


def check_mermaid(ctx, spec, g, deps, ids, case, max_depth):
    for d in range(0, max_depth + 1):
        for sep in (False, True):
            try:
                src = g.to_mermaid(depth=d, separate_outputs=sep).source
            except Exception as e:  # noqa: BLE001
                ctx.violation("C20:mermaid-raised", f"to_mermaid(depth={d}, separate_outputs={sep}) raised {e!r}", case)
                continue
            ctx.obs["mermaid_checked"] += 1
            declared, edges = parse_mermaid(src)
            c2 = {**case, "mermaid_depth": d, "separate_outputs": sep}
            twice = sorted(k for k, v in declared.counts.items() if v > 1)
            ctx.obs["mermaid_declarations_counted"] += len(declared.counts)
            if twice:
                ctx.violation("C20:mermaid-node-declared-twice" + (":name-derived-ids-collide" if set(twice) <= glued_id_collisions(spec, ids) else ""), f"depth {d} (separate_outputs={sep}): declared more than once in the Mermaid source: {twice[:6]}", c2)
            for a, b, _ in edges:
                for end in (a, b):
                    if end not in declared:
                        exp_c = [i.replace("/", "__") for i, (ns_, _) in ids.items() if ns_["k"] == "sub"]
                        mech = ":data-node-of-container" if end.startswith("data_") and any(end.startswith(f"data_{c}_") for c in exp_c) else ""
                        ctx.violation("C20:mermaid-endpoint-undeclared" + mech, f"depth {d}: Mermaid edge {a} -> {b}: {end!r} is not a declared node", c2)
                        break
            state = {}
            for i, (ns, parent) in ids.items():
                if ns["k"] == "sub":
                    state[i] = d > i.count("/")
            mid = lambda i: i.replace("/", "__")  # noqa: E731
            drawn = {(a, b) for a, b, _ in edges}
            for i in ids:
                if visible(i, state) and mid(i) not in declared:
                    ctx.violation("C20:mermaid-node-missing", f"depth {d}: visible node {i} is not declared in the Mermaid source", c2)
            ideps = input_deps_of(spec)
            rev = {mid(i): i for i in ids}
            for a, b in drawn:
                if a.startswith("input_") and not a.startswith("input_group_") and b in rev:
                    nm = a[len("input_"):]
                    if not any(e == nm and rev[b] in ancestors_or_self(c) for e, c in ideps):
                        inner_same = any(nm in (fp, e_) for i2, (n2, _) in ids.items() if i2 == rev[b] or i2.startswith(rev[b] + "/") for fp, e_ in ref.node_inputs(n2))
                        ctx.violation("C20:mermaid-spurious-input-edge" + (":name-derived-ids-collide" if b in glued_id_collisions(spec, ids) else ":inner-name-equals-unrelated-outer-input" if inner_same else ""), f"Mermaid depth {d}: edge from input {nm!r} to {rev[b]}, which does not consume that input", c2)
            # through DATA nodes in separate mode: producer -> data -> consumer
            succ = {}
            for a, b in drawn:
                succ.setdefault(a, set()).add(b)
            for dep in deps:
                s, t, kind, value, cont, nonfirst = dep
                rs, rtg = vis_reps(s, state), vis_reps(t, state)
                if rs[-1] == rtg[-1] or rtg[-1] in rs or rs[-1] in rtg:
                    continue
                ctx.obs["deps_checked"] += 1
                tset = {mid(x) for x in rtg}
                if cont:
                    tset |= {mid(i) for i in ids if i.startswith(t + "/") and visible(i, state)}
                sset = {mid(x) for x in rs}
                ok = any((a, b) in drawn for a in sset for b in tset)
                if not ok:
                    # via one intermediate (data) node
                    ok = any(b in succ.get(m, ()) for a in sset for m in succ.get(a, ()) if m.startswith("data_") for b in tset)
                if not ok:
                    mech = classify_missing(dep, state, ids, drawn)
                    if mech == "other" and first_consumer_only(dep, deps, state, lambda A, B: any((mid(a), mid(b)) in drawn for a in A for b in B)):
                        mech = "first-internal-consumer-only"
                    ctx.violation(f"C20:mermaid-missing-edge:{kind}:{mech}", f"Mermaid depth {d} (separate_outputs={sep}): {kind} dependency {s} -> {t} not drawn between visible representatives {rs} / {rtg}", {**c2, "dependency": list(dep)})


# ---------------------------------------------------------------------------
# generator
# ---------------------------------------------------------------------------


def gen_viz_graph(rng):
    r = rng.random()
    if r < 0.35:
        spec = gen.gen_gated(rng, deterministic=True, n_blocks=(1, 3))
    else:
        spec = gen.gen_dag(rng, n_nodes=(3, 8), p_default_edge=0.05, p_emit=0.15, p_gen=0.0, p_noout=0.0)
        if rng.random() < 0.5:
            spec = gen.gen_wait_dag(rng) if rng.random() < 0.5 else spec
    for ns in spec["nodes"]:
        ns.pop("fid", None)
    cur = spec
    depth = rng.choice([0, 1, 1, 2, 2, 3])
    for d in range(depth):
        subs = [ns for ns in cur["nodes"] if ns["k"] == "sub" and len(ns["prog"]["nodes"]) >= 3]
        if subs and rng.random() < 0.5:
            target = rng.choice(subs)
            res = gen.nest_once(rng, target["prog"], f"deep{d}", allow_rename=False, allow_select=False, allow_bind=False)
            if res:
                target["prog"] = res[1]
        else:
            res = gen.nest_once(rng, cur, f"sub{d}", allow_select=False)
            if res:
                cur = res[1]
    if rng.random() < 0.4:
        prefix_sibling(rng, cur)
    return cur


def prefix_sibling(rng, prog):
    """Give a plain sibling of a nested-graph node a name that merely EXTENDS the container's name
    ('sub0' next to 'sub0_x'): hierarchical ids must be compared component-wise, not as string prefixes."""
    subs = [ns for ns in prog["nodes"] if ns["k"] == "sub"]
    for sub in subs:
        prefix_sibling(rng, sub["prog"])
    if not subs:
        return
    referenced = set()
    for ns in prog["nodes"]:
        if ns["k"] in ("ifelse", "route"):
            referenced |= set(ref.gate_targets(ns))
    referenced |= set(prog.get("entry") or [])
    sub = rng.choice(subs)
    sub_io = {e for _, e in ref.node_inputs(sub)} | {e for _, e in ref.node_outputs(sub)}
    sibs = [ns for ns in prog["nodes"] if ns["k"] == "fn" and ns["name"] not in referenced and not ns["name"].startswith(sub["name"])]
    related = [ns for ns in sibs if ({e for _, e in ref.node_inputs(ns)} & sub_io)]
    pool = related or sibs
    if pool and not prog.get("edges"):
        rng.choice(pool)["name"] = sub["name"] + rng.choice(["_x", "x", "2"])


def same_graph_twice(rng):
    """One Graph object used as two differently named nodes."""
    inner = {"name": "prep", "nodes": [
        {"k": "fn", "name": "clean", "params": [{"n": "text"}], "outs": ["cleaned"]},
        {"k": "fn", "name": "tokenize", "params": [{"n": "cleaned"}], "outs": ["tokens"]},
    ], "bind": {}}
    return inner


def glued_id_collisions(spec, ids):
    """Diagram ids that two DIFFERENT things receive when ids are glued together from names (classifier of the known
    finding): input ids `input_<name>` / `input_group_<names joined by _>` over the top-level input names, and the
    Mermaid ids of nodes (hierarchical id with '/' replaced by '__')."""
    import itertools

    out = set()
    names = sorted({e for e, _ in input_deps_of(spec)})
    seen = {}
    for n in names:
        seen.setdefault(f"input_{n}", set()).add((n,))
    for k in range(2, min(4, len(names)) + 1):
        for sub in itertools.combinations(names, k):
            for perm in (sub, tuple(reversed(sub))):
                seen.setdefault("input_group_" + "_".join(perm), set()).add(tuple(sorted(sub)))
    out |= {i for i, who in seen.items() if len(who) > 1}
    mids = {}
    for i in ids:
        mids.setdefault(i.replace("/", "__"), set()).add(i)
    out |= {m for m, who in mids.items() if len(who) > 1}
    return out


def shadowed_substring_specs():
    """Directed shapes: one container keeps a PRIVATE value (hidden from the parent by its selection) whose name another
    container exposes as a real output - next to a second exposed output whose name merely contains / extends that name
    (score_raw / score, in both listing orders). The edge that leaves the second container carries the value of the
    node that really produces it."""
    out = []
    for raw_first in (True, False):
        for raw_name in ("score_raw", "sc", "xscore"):
            screen = {"name": "screen", "nodes": [
                {"k": "fn", "name": "draft_score", "params": [{"n": "text"}], "outs": ["score"]},
                {"k": "fn", "name": "threshold", "params": [{"n": "score"}], "outs": ["keep"]},
            ], "bind": {}, "select": ["keep"]}
            rate = {"k": "fn", "name": "rate", "params": [{"n": "text"}], "outs": [raw_name]}
            calibrate = {"k": "fn", "name": "calibrate", "params": [{"n": "keep"}], "outs": ["score"]}
            rank = {"name": "rank", "nodes": [rate, calibrate] if raw_first else [calibrate, rate], "bind": {}}
            outer = {"name": "outer", "nodes": [
                {"k": "sub", "name": "screen", "prog": screen},
                {"k": "sub", "name": "rank", "prog": rank},
                {"k": "fn", "name": "publish", "params": [{"n": "score"}], "outs": ["post"]},
                {"k": "fn", "name": "audit", "params": [{"n": raw_name}], "outs": ["log"]},
            ], "bind": {}}
            out.append(outer)
    return out


def colliding_id_specs():
    """Directed shapes whose DIFFERENT nodes get one diagram id when ids are glued together from names: two input groups
    {a_b, c} / {a, b_c}; a single input called group_a_b next to the group {a, b}; a nested node mid/deep next to a root
    node called mid__deep (Mermaid replaces '/' by '__')."""
    def fn(name, params, out):
        return {"k": "fn", "name": name, "params": [{"n": p} for p in params], "outs": [out]}

    def fnx(name, params, out, **kw):
        return {"k": "fn", "name": name, "params": [{"n": p} for p in params], "outs": [out], **kw}

    extra = [
        # ordering edges whose name-derived EDGE ids coincide (fetch -> raw_store and fetch_raw -> store): both are drawn
        {"name": "ids4", "nodes": [fnx("fetch", ["u"], "f1", emit=["sig_a"]), fnx("raw_store", ["v"], "f2", wait=["sig_a"]), fnx("fetch_raw", ["w"], "f3", emit=["sig_b"]), fnx("store", ["z"], "f4", wait=["sig_b"])], "bind": {}},
    ]
    return extra + [
        {"name": "ids1", "nodes": [fn("f", ["a_b", "c"], "o1"), fn("g", ["a", "b_c"], "o2")], "bind": {}},
        {"name": "ids2", "nodes": [fn("f", ["group_a_b"], "o1"), fn("g", ["a", "b"], "o2")], "bind": {}},
        {"name": "ids3", "nodes": [{"k": "sub", "name": "mid", "prog": {"name": "mid", "nodes": [fn("deep", ["q"], "x1")], "bind": {}}}, fn("mid__deep", ["z"], "x2")], "bind": {}},
    ]


def exclusive_container_specs():
    """Directed shapes. (1) A gate whose two exclusive targets are NESTED GRAPHS that produce one output name at the same
    depth (either listed first), consumed at the root. (2) One input read by a direct child of a container and by a node
    inside a container nested in that same container (depth 2), also with a second such input."""
    def fn(name, params, out):
        return {"k": "fn", "name": name, "params": [{"n": p} for p in params], "outs": [out]}

    out = []
    for heavy_first in (True, False):
        heavy = {"k": "sub", "name": "heavy", "prog": {"name": "heavy", "nodes": [fn("load", ["x"], "loaded"), fn("compute", ["loaded"], "result")], "bind": {}}}
        light = {"k": "sub", "name": "light", "prog": {"name": "light", "nodes": [fn("finish", ["x"], "result")], "bind": {}}}
        gate = {"k": "ifelse", "name": "pick", "params": [{"n": "s"}], "key": "s", "t": "heavy", "f": "light", "table": [True, False], "open": False}
        nodes = [gate] + ([heavy, light] if heavy_first else [light, heavy]) + [fn("consume", ["result"], "out")]
        out.append({"name": "excl", "nodes": nodes, "bind": {}})
    for second_input in (False, True):
        enc = {"k": "sub", "name": "encode", "prog": {"name": "encode", "nodes": [fn("tokenize", ["cleaned", "lang"] + (["mode"] if second_input else []), "tokens")], "bind": {}}}
        prep = {"k": "sub", "name": "prep", "prog": {"name": "prep", "nodes": [fn("clean", ["text", "lang"] + (["mode"] if second_input else []), "cleaned"), enc], "bind": {}}}
        out.append({"name": "deepin", "nodes": [prep, fn("use", ["tokens"], "used")], "bind": {}})
    # (3) two sibling containers declared in NON-alphabetical order (the order of ids in a state key is not the
    # declaration order), and a root-level waiter on a value produced two levels down
    for first in ("zeta", "alpha"):
        subs = {nm: {"k": "sub", "name": nm, "prog": {"name": nm, "nodes": [fn(nm + "_f", ["x"], nm + "_out")], "bind": {}}} for nm in ("zeta", "alpha")}
        order = [subs["zeta"], subs["alpha"]] if first == "zeta" else [subs["alpha"], subs["zeta"]]
        out.append({"name": "sibs", "nodes": order + [fn("join", ["zeta_out", "alpha_out"], "joined")], "bind": {}})
    ingest = {"k": "sub", "name": "ingest", "prog": {"name": "ingest", "nodes": [fn("load", ["src"], "rows")], "bind": {}}}
    pipeline = {"k": "sub", "name": "pipeline", "prog": {"name": "pipeline", "nodes": [ingest, fn("clean", ["rows"], "table")], "bind": {}}}
    announce = {"k": "fn", "name": "announce", "params": [{"n": "who"}], "outs": ["note"], "wait": ["rows"]}
    out.append({"name": "waitdeep", "nodes": [pipeline, announce], "bind": {}})
    return out


def private_name_as_outer_input_specs():
    """Directed shape: a nested graph keeps a value PRIVATE (produced and consumed inside, hidden by its selection) whose
    name is also a plain INPUT of the enclosing graph, read there by another node. The outer input feeds the outer
    reader only; the inner consumer gets the value from its inner producer."""
    def fn(name, params, out):
        return {"k": "fn", "name": name, "params": [{"n": p} for p in params], "outs": [out]}

    out = []
    for inner_first in (True, False):
        inner = {"k": "sub", "name": "inner", "prog": {"name": "inner", "nodes": [fn("mk_b", ["q"], "b"), fn("use_b", ["b"], "c")], "bind": {}, "select": ["c"]}}
        root = fn("root_use", ["b", "c"], "r")
        out.append({"name": "privin", "nodes": [inner, root] if inner_first else [root, inner], "bind": {}})
    return out


def hidden_node_consistency(ctx):
    """Nodes declared with hide=True are left out of the diagram. Whatever else that means, the diagram data stays
    self-consistent: in every expansion state and output mode of the interactive view, and in the Mermaid source, every
    edge endpoint is a node declared in that state. Shapes: a hidden first / middle / last node of a chain, a hidden
    node that is the only consumer of an input, a hidden node inside a nested graph, a hidden gate."""
    import re

    from hypergraph import FunctionNode, Graph, IfElseNode
    from hypergraph.viz.renderer import render_graph

    def fn(name, params, out, hide=False):
        src = f"def {name}({', '.join(params)}):\n    return 0\n"
        ns = {}
        exec(src, ns)  # noqa: S102 - tiny generated bodies
        return FunctionNode(ns[name], name=name, output_name=out, hide=hide)

    shapes = {
        "hidden-first": lambda: Graph([fn("hf", ["x"], "a", True), fn("g", ["a", "y"], "r")], name="h1"),
        "hidden-middle": lambda: Graph([fn("f", ["x"], "a"), fn("hm", ["a"], "b", True), fn("g", ["b"], "r")], name="h2"),
        "hidden-last": lambda: Graph([fn("f", ["x"], "a"), fn("hl", ["a", "z"], "r", True)], name="h3"),
        "hidden-inside-nested": lambda: Graph([Graph([fn("p", ["x"], "m", True), fn("q", ["m", "w"], "n")], name="inner").as_node(), fn("use", ["n"], "r")], name="h4"),
        "hidden-entry-of-gated-container": lambda: Graph([IfElseNode(lambda flag: True, when_true="sub", when_false="skip", name="pick"), Graph([fn("load_cfg", ["x"], "cfg", True), fn("work", ["cfg", "y"], "done")], name="sub").as_node(), fn("skip", ["x"], "skipped")], name="h6"),
        "hidden-gate": lambda: Graph([IfElseNode(lambda x: True, when_true="a", when_false="b", name="pick", hide=True), fn("a", ["x"], "ra"), fn("b", ["x"], "rb")], name="h5"),
    }
    for label, mk in shapes.items():
        try:
            g = mk()
        except Exception as e:  # noqa: BLE001
            ctx.inconc(f"hidden-node shape {label} not buildable: {e!r}")
            continue
        case = {"program": f"hide=True: {label}"}
        r = render_graph(g.to_flat_graph(), depth=0)
        nbs, ebs = r["meta"]["nodesByState"], r["meta"]["edgesByState"]
        for key in sorted(set(nbs) & set(ebs)):
            ids_ = {n_["id"] for n_ in nbs[key]}
            ctx.obs["hidden_node_states_checked"] += 1
            for e_ in ebs[key]:
                ctx.obs["edges_checked"] += 1
                for end in (e_["source"], e_["target"]):
                    if end not in ids_:
                        ctx.violation("C20:edge-endpoint-undeclared:hidden-node", f"{label}, state {key}: edge {e_['source']} -> {e_['target']} refers to {end!r}, which is not a node of that state (hidden nodes are left out)", {**case, "state": key})
                        break
        for depth in (0, 1, 2):
            for sep in (False, True):
                try:
                    src = str(g.to_mermaid(depth=depth, separate_outputs=sep))
                except Exception as e:  # noqa: BLE001
                    ctx.violation("C20:mermaid-raised:hidden-node", f"{label}: to_mermaid(depth={depth}, separate_outputs={sep}) raised {e!r}", case)
                    continue
                ctx.obs["mermaid_checked"] += 1
                declared = set(re.findall(r"^\s*(?:subgraph\s+)?([A-Za-z0-9_]+)\s*[\[\(\{]", src, re.M))
                for a_, b_ in re.findall(r"^\s*([A-Za-z0-9_]+)\s*-[-.]+>(?:\|[^|]*\|)?\s*([A-Za-z0-9_]+)\s*$", src, re.M):
                    for end in (a_, b_):
                        if end not in declared:
                            ctx.violation("C20:mermaid-endpoint-undeclared:hidden-node", f"{label}, Mermaid depth {depth} sep={sep}: edge {a_} --> {b_} refers to undeclared {end!r}", case)
    ctx.case({"directed": "hidden-nodes"}, True)


def run(ctx):
    n = 400 if ctx.tier == "quick" else 9000
    core.WARM_P = 0.0
    if ctx.replay:
        c = ctx.replay["case"]
        spec = c["spec"]
        rt.reset_program()
        g = build_program(spec).graph
        ids = all_ids(spec)
        deps = deps_of(spec)
        ALIASES[0] = boundary_aliases(spec)
        SHADOWED[0] = shadowed_names(spec)
        check_flat(ctx, spec, g, ids, deps, c)
        check_interactive(ctx, spec, g, deps, ids, c)
        ctx.case("r1")
        ctx.case("r2")
        return
    # directed: the same Graph object nested twice under different names
    from hypergraph import FunctionNode, Graph

    rt.reset_program()
    inner_spec = same_graph_twice(ctx.rng)
    ib = build_program(inner_spec)
    a = ib.graph.as_node(name="prep_a").with_inputs(text="text_a").with_outputs(tokens="tokens_a", cleaned="cleaned_a")
    b = ib.graph.as_node(name="prep_b").with_inputs(text="text_b").with_outputs(tokens="tokens_b", cleaned="cleaned_b")
    outer = Graph([a, b], name="twice")
    flat = outer.to_flat_graph()
    ctx.obs["flat_checked"] += 1
    for inst in ("prep_a", "prep_b"):
        if (f"{inst}/clean", f"{inst}/tokenize") not in set(flat.edges()):
            ctx.violation("C20:flat-inner-edge-missing", f"the same Graph nested twice: instance {inst} lacks its inner edge clean -> tokenize in to_flat_graph()", {"program": "same graph nested twice"})
    ctx.case({"directed": "same-graph-twice"}, True)
    if ctx.shard[0] == 0:
        hidden_node_consistency(ctx)
    directed = (shadowed_substring_specs() + colliding_id_specs() + exclusive_container_specs() + private_name_as_outer_input_specs()) if ctx.shard[0] == 0 else []
    for i in range(n + len(directed)):
        spec = directed[i - n] if i >= n else gen_viz_graph(ctx.rng)
        rt.reset_program()
        try:
            g = build_program(spec).graph
        except Exception as e:  # noqa: BLE001
            ctx.obs["build_failed"] += 1
            continue
        ids = all_ids(spec)
        deps = deps_of(spec)
        ALIASES[0] = boundary_aliases(spec)
        SHADOWED[0] = shadowed_names(spec)
        case = {"spec": spec}
        check_flat(ctx, spec, g, ids, deps, case)
        k = check_interactive(ctx, spec, g, deps, ids, case)
        maxd = max([i2.count("/") + 1 for i2, (ns, _) in ids.items() if ns["k"] == "sub"] or [0])
        check_mermaid(ctx, spec, g, deps, ids, case, maxd)
        ctx.case({"s": gen.shape_of(spec)}, any(ns["k"] != "fn" for ns, _ in ids.values()), sample=case if i < 2 else None)
