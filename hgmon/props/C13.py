"""C13 - observers cannot alter execution."""

from __future__ import annotations

import asyncio
from collections import Counter

from hgmon import core, families, gen, monitors, rt
from hgmon.build import all_fids

LEVEL = "fault_enumeration"
RULE = (
    "for generated executions of every family (DAG, gated, loop, nested, mapped, cached, optionally with a failing node "
    "and collected errors) a faulty processor is registered next to a healthy recorder; the faulty one raises at event "
    "index k for EVERY k of the baseline stream (all k up to 120 events, evenly sampled above), or on every event, or "
    "at shutdown; sync and async processor classes, faulty before or after the healthy one, healthy async recorder "
    "that really suspends, both runners. Oracle: status, values, error identity and the multiset of node invocations "
    "must equal the processor-free baseline, and the healthy processor must receive the same stream (compared as "
    "normalised span trees, sibling interleaving being schedule dependent) and exactly one shutdown. The emission "
    "sites hit (event type x nested or not) are tabulated. Non-trivial: baseline stream has >= 4 events; distinct = "
    "(program shape, variant, fault position class)."
    " Runs that pause at an interrupt (flat and nested), observed and with failing processors."
    " A processor that never raises but reorders / empties the lists in the events it is handed (multi-target decisions, uncached and replayed from a cache): outcome and invocations as without processors."
    " Two processors failing on the same event with healthy recorders before, between and behind them (layouts FFH, HFHFH, FHFH). Multi-target gates whose decision names END next to real targets."
    ' Also top-level runner.map over 0-3 items (empty maps included) with a processor failing on every event, on one event or at shutdown, next to a healthy one, both registration orders.'
    ' Failing observers also raise an exception whose __str__ fails (on events and at shutdown).'
)
ASSUMPTIONS = ["processors raise Exception subclasses (the dispatcher's contract); BaseException is out of scope"]
DECIDING = ["fault_runs", "streams_compared"]
THOROUGH_SHARDS = 12


def make_faulty():
    from hypergraph.events import AsyncEventProcessor, EventProcessor

    class ObserverBoom(Exception):
        pass

    class ObserverTimeout(TimeoutError):
        """An exporter's own deadline (TimeoutError is also asyncio.TimeoutError and socket.timeout)."""

    # the failing observer raises exceptions of several ordinary classes in turn, and is an UNHASHABLE object in a
    # third of the cases (a processor written as a dataclass, or defining __eq__ only)
    class ObserverNoStr(Exception):
        """An error whose own __str__ fails (a client error whose __str__ returns a status code)."""

        def __str__(self):
            return 503  # type: ignore[return-value]

    EXCS = [ObserverBoom, ObserverTimeout, ObserverNoStr, TimeoutError, OSError, KeyError, ObserverNoStr, LookupError, AssertionError, ObserverBoom]

    class Faulty(EventProcessor):
        _made = [0]

        def __init__(self, k=None, every=False, at_shutdown=False):
            self.k, self.every, self.at_shutdown, self.n = k, every, at_shutdown, 0
            self.fired = []
            Faulty._made[0] += 1
            self.exc_cls = EXCS[Faulty._made[0] % len(EXCS)]
            self.unhashable = Faulty._made[0] % 3 == 0
            if self.unhashable:
                self.__class__ = _unhashable_twin(type(self))

        def _raise(self, msg):
            raise self.exc_cls(msg)

        def on_event(self, event):
            i = self.n
            self.n += 1
            if self.every or i == self.k:
                self.fired.append(type(event).__name__ + ("/nested" if getattr(event, "parent_span_id", None) and type(event).__name__ == "RunStartEvent" else ""))
                self._raise(f"observer failed at event {i}")

        def shutdown(self):
            if self.at_shutdown:
                self.fired.append("shutdown")
                self._raise("observer failed at shutdown")

    class AFaulty(AsyncEventProcessor, Faulty):
        async def on_event_async(self, event):
            await asyncio.sleep(0)
            Faulty.on_event(self, event)

        async def shutdown_async(self):
            await asyncio.sleep(0)
            Faulty.shutdown(self)

    _twins = {}

    def _unhashable_twin(cls):
        if cls not in _twins:
            _twins[cls] = type(cls.__name__ + "Unhashable", (cls,), {"__eq__": lambda a, b: a is b, "__hash__": None})
        return _twins[cls]

    return Faulty, AFaulty


def outcome(o):
    inv = Counter()
    for e in o.rec.ev:
        if e[0] == "enter":
            inv[(e[1], repr(sorted(e[2].items(), key=lambda kv: kv[0])))] += 1
    vals = o.values
    if o.status == "map":
        vals = [(s, v, id(er) if er is not None else None) for s, v, er in o.values]
    return (o.status, vals, id(o.error) if o.error is not None else None, id(o.exc) if o.exc is not None else None), inv


def one_program(ctx, fam, i):
    rng = ctx.rng
    spec, inputs = fam["spec"], fam["inputs"]
    Rec, ARec = rt.make_processors()
    Faulty, AFaulty = make_faulty()
    fids = [f for f, ns in all_fids(spec).items() if ns["k"] == "fn"]
    fail = None
    mode = "raise"
    if fids and rng.random() < 0.4:
        fail = {rng.choice(fids): RuntimeError("node boom")}
        mode = rng.choice(["continue", "raise"])  # a raised node error must still surface, unchanged, to the caller
    cache_cls = None
    if fam["family"] == "cached":
        from hypergraph import InMemoryCache

        cache_cls = InMemoryCache
    sites = Counter()
    nontrivial = False
    for runner in fam.get("runners", ("sync", "async")):
        s = core.with_async(spec, runner == "async", rng, 0.6)

        def run_with(procs, prime=True):
            cache = cache_cls() if cache_cls else None
            kw = {"error_handling": mode}
            if fail:
                kw["fail"] = fail
            if cache is not None and prime:
                core.execute(s, inputs, runner, cache=cache, warm=False, **kw)  # prime: the observed run has cache hits
            return core.execute(s, inputs, runner, processors=procs, cache=cache, warm=False, **kw)

        base = run_with(None)
        if base.deadlock or base.inconclusive:
            continue
        b_out, b_inv = outcome(base)
        rec_run = run_with([Rec("h")])
        b_events = rt.events_of(rec_run.rec, "h")
        b_tree = monitors.span_tree(b_events)
        N = len(b_events)
        if outcome(rec_run)[0] != b_out:
            ctx.violation("C13:healthy-processor-changes-outcome", f"{runner}: a recording processor alone changed the outcome", {"family": fam["family"], "spec": spec, "inputs": inputs})
            continue
        nontrivial = nontrivial or N >= 4
        ks = list(range(N)) if N <= 120 else sorted(set(int(j * (N - 1) / 119) for j in range(120)))
        plans = [(kind, k, None) for kind, k in [("k", k) for k in ks] + [("every", None), ("shutdown", None)]]
        if runner == "async" and N:
            # async faulty processor next to a healthy async one that is still suspended (>= 3 loop turns) when the
            # faulty one raises: at the very last event, at the first, on every event; both registration orders
            plans += [(kind, k, first) for kind, k in (("k", N - 1), ("k", 0), ("every", None)) for first in (True, False)]
        if N:
            # TWO processors failing on the SAME event (every event / one index), healthy recorders before, between and
            # behind them: the dispatcher must go on behind the second failure as it does behind the first
            mid = N // 2
            for kind, k in (("every", None), ("k", mid), ("k", 0), ("k", N - 1)):
                for layout in ("FFH", "HFHFH", "FHFH"):
                    a_cls = runner == "async" and rng.random() < 0.5
                    Fs = [(AFaulty if a_cls else Faulty)(k=k, every=(kind == "every")) for _ in range(layout.count("F"))]
                    Hs = [Rec(f"h{j}") for j in range(layout.count("H"))]
                    fi, hi = iter(Fs), iter(Hs)
                    procs = [next(fi) if c == "F" else next(hi) for c in layout]
                    o = run_with(procs)
                    ctx.obs["fault_runs"] += 1
                    ctx.obs["two_faulty_runs"] += 1
                    case = {"family": fam["family"], "spec": spec, "inputs": inputs, "runner": runner, "fault": kind, "k": k, "layout": layout, "node_failure": sorted(fail) if fail else None}
                    if o.deadlock or o.inconclusive:
                        ctx.inconc(o.inconclusive or "deadlock")
                        continue
                    got, inv = outcome(o)
                    if got != b_out or inv != b_inv:
                        ctx.violation("C13:outcome-changed:two-faulty", f"{runner}: two processors raising at {kind} {k} (layout {layout}) changed the run", case)
                        continue
                    for j in range(len(Hs)):
                        ctx.obs["streams_compared"] += 1
                        hev = rt.events_of(o.rec, f"h{j}")
                        if monitors.span_tree(hev) != b_tree:
                            ctx.violation(
                                "C13:healthy-stream-incomplete:two-faulty",
                                f"{runner}: healthy processor #{j} of layout {layout} received {len(hev)} events (baseline {N}) when two others raised at {kind}{'' if k is None else ' ' + str(k)}",
                                case,
                            )
                            break
        for kind, k, forced_first in plans:
            use_async_cls = runner == "async" and (forced_first is not None or rng.random() < 0.5)
            F = (AFaulty if use_async_cls else Faulty)(k=k, every=(kind == "every"), at_shutdown=(kind == "shutdown"))
            if forced_first is not None:
                H = ARec("h", rng, 5, 3)
                ctx.obs["suspended_sibling_plans"] += 1
            else:
                H = ARec("h", rng, 4) if runner == "async" and rng.random() < 0.6 else Rec("h")
            first = rng.random() < 0.7 if forced_first is None else forced_first
            procs = [F, H] if first else [H, F]
            o = run_with(procs)
            ctx.obs["fault_runs"] += 1
            case = {"family": fam["family"], "spec": spec, "inputs": inputs, "runner": runner, "fault": kind, "k": k, "faulty_first": first, "faulty_async": use_async_cls, "node_failure": sorted(fail) if fail else None}
            if o.deadlock or o.inconclusive:
                ctx.inconc(o.inconclusive or "deadlock")
                continue
            for f in F.fired:
                sites[f] += 1
            if not F.fired and kind != "k":
                ctx.inconc("faulty processor never fired")
            got, inv = outcome(o)
            if got != b_out:
                ctx.violation(
                    "C13:outcome-changed:" + kind,
                    f"{runner}: processor raising at {kind}{'' if k is None else ' ' + str(k)} ({F.fired[:1]}) changed the run: {core.short(got, 300)} vs baseline {core.short(b_out, 300)}; exc={o.exc!r}",
                    case,
                )
                continue
            if inv != b_inv:
                ctx.violation("C13:invocations-changed:" + kind, f"{runner}: node invocations differ from the processor-free run", case)
                continue
            h_events = rt.events_of(o.rec, "h")
            ctx.obs["streams_compared"] += 1
            if monitors.span_tree(h_events) != b_tree:
                ctx.violation(
                    "C13:healthy-stream-incomplete:" + kind,
                    f"{runner}: the healthy processor received {len(h_events)} events (baseline {N}) / a different span tree when the other processor raised at {kind}{'' if k is None else ' ' + str(k)} ({F.fired[:1]})",
                    case,
                )
            shut = sum(1 for e in o.rec.ev if e[0] == "shutdown" and e[1] == "h")
            if shut != 1:
                ctx.violation("C13:healthy-shutdown-count:" + kind, f"{runner}: healthy processor shut down {shut} times", case)
    for k, v in sites.items():
        ctx.obs["site:" + k] += v
    ctx.case({"f": fam["family"], "s": gen.shape_of(spec), "fail": bool(fail)}, nontrivial, sample={"family": fam["family"], "spec": spec, "inputs": inputs} if i < 2 else None)


def top_level_map(ctx, i):
    """runner.map() over 0..3 items (an EMPTY map included) with a faulty processor (every event, one event, or at
    shutdown) next to a healthy one: same per-item results as without processors, healthy stream complete, one shutdown."""
    rng = ctx.rng
    Rec, ARec = rt.make_processors()
    Faulty, AFaulty = make_faulty()
    inner = gen.gen_dag(rng, n_nodes=(1, 3), n_inputs=(1, 2), p_default_input=0.0, p_default_edge=0.0, p_gen=0.0, p_noout=0.0, p_emit=0.0, name="mp", prefix="t")
    ins = gen.consumed_inputs(inner)
    over = ins[0]
    n_items = rng.choice([0, 0, 1, 2, 3])
    inputs = {k: ([f"{k}:{j}" for j in range(n_items)] if k == over else f"run:{k}") for k in ins}
    for runner in ("sync", "async"):
        s = core.with_async(inner, runner == "async", rng, 0.6)
        base = core.execute(s, inputs, runner, map_over=over, warm=False)
        if base.deadlock or base.inconclusive:
            continue
        b_out, b_inv = outcome(base)
        rec_run = core.execute(s, inputs, runner, map_over=over, processors=[Rec("h")], warm=False)
        b_tree = monitors.span_tree(rt.events_of(rec_run.rec, "h"))
        N = len(rt.events_of(rec_run.rec, "h"))
        plans = [("every", None), ("shutdown", None)] + ([("k", rng.randrange(N))] if N else [])
        for kind, k in plans:
            use_async_cls = runner == "async" and rng.random() < 0.5
            F = (AFaulty if use_async_cls else Faulty)(k=k, every=(kind == "every"), at_shutdown=(kind == "shutdown"))
            H = ARec("h", rng, 3) if runner == "async" and rng.random() < 0.5 else Rec("h")
            first = rng.random() < 0.6
            o = core.execute(s, inputs, runner, map_over=over, processors=[F, H] if first else [H, F], warm=False)
            ctx.obs["fault_runs"] += 1
            ctx.obs["top_level_map_runs"] += 1
            ctx.obs["empty_map_runs"] += int(n_items == 0)
            case = {"family": "runner.map", "spec": inner, "inputs": inputs, "runner": runner, "fault": kind, "k": k, "faulty_first": first, "faulty_async": use_async_cls, "items": n_items}
            if o.deadlock or o.inconclusive:
                ctx.inconc(o.inconclusive or "deadlock")
                continue
            for f in F.fired:
                ctx.obs["site:" + f] += 1
            got, inv = outcome(o)
            if got != b_out:
                ctx.violation("C13:outcome-changed:map:" + kind, f"{runner}.map over {n_items} items: processor raising at {kind} changed the call: {core.short(got, 240)} vs {core.short(b_out, 240)}; exc={o.exc!r}", case)
                continue
            if inv != b_inv:
                ctx.violation("C13:invocations-changed:map:" + kind, f"{runner}.map: node invocations differ from the processor-free call", case)
                continue
            ctx.obs["streams_compared"] += 1
            if monitors.span_tree(rt.events_of(o.rec, "h")) != b_tree:
                ctx.violation("C13:healthy-stream-incomplete:map:" + kind, f"{runner}.map over {n_items} items: the healthy processor's stream differs when the other raised at {kind}", case)
            shut = sum(1 for e in o.rec.ev if e[0] == "shutdown" and e[1] == "h")
            if shut != 1:
                ctx.violation("C13:healthy-shutdown-count:map:" + kind, f"{runner}.map over {n_items} items: healthy processor shut down {shut} times (faulty registered {'first' if first else 'second'})", case)
    ctx.case({"f": "runner.map", "s": gen.shape_of(inner), "n": n_items}, True)


def copy_nodes(nodes):
    import copy

    return copy.deepcopy(nodes)


def multi_end_program(cached: bool) -> dict:
    """A fan-out gate (multi_target) whose decision names one branch AND END, or both branches, by a selector input."""

    def fn(nm, params, outs):
        return {"k": "fn", "name": nm, "params": [{"n": p} for p in params], "outs": outs}

    gate = {"k": "route", "name": "fan", "params": [{"n": "s0"}], "targets": ["small", "big", "END"], "multi": True, "table": [["big", "END"], ["small", "big"], ["END"], ["END", "small"]], "open": False}
    if cached:
        gate["cache"] = True
    spec = {"name": "fanend", "nodes": [fn("load", ["i0"], ["x"]), gate, fn("small", ["x"], ["so"]), fn("big", ["x"], ["bo"])]}
    return spec


def meddling_observer(ctx):
    """A processor that never raises but treats the events it is handed as its own: it reorders / empties every list it
    finds in an event's fields (a log formatter sorting `decision` in place). Events are frozen dataclasses; whatever a
    processor does to what it was handed, the run's status, values and node invocations stay those of the processor-free
    run. Multi-target gates (decision lists), uncached and replayed from a cache, both runners."""
    from hypergraph import InMemoryCache
    from hypergraph.events import AsyncEventProcessor, EventProcessor

    class Meddler(EventProcessor):
        touched = 0

        def on_event(self, event):
            for name in getattr(event, "__dataclass_fields__", {}):
                v = getattr(event, name, None)
                if isinstance(v, list):
                    Meddler.touched += 1
                    v.reverse()
                    v.clear()
                elif isinstance(v, dict):
                    Meddler.touched += 1
                    v.clear()

    class AMeddler(AsyncEventProcessor, Meddler):
        async def on_event_async(self, event):
            Meddler.on_event(self, event)

    for sel in range(4):
        for cached in (False, True):
            spec = multi_end_program(cached)
            inputs = {"i0": "run:i0", "s0": sel}
            for runner in ("sync", "async"):
                s = core.with_async(spec, runner == "async", ctx.rng, 0.6)

                def run_with(procs):
                    cache = InMemoryCache() if cached else None
                    if cache is not None:
                        core.execute(s, inputs, runner, cache=cache, warm=False)
                    return core.execute(s, inputs, runner, processors=procs, cache=cache, warm=False)

                base = run_with(None)
                if base.deadlock or base.inconclusive:
                    continue
                o = run_with([(AMeddler if runner == "async" and sel % 2 else Meddler)()])
                ctx.obs["meddling_observer_runs"] += 1
                ctx.obs["fault_runs"] += 1
                if o.deadlock or o.inconclusive:
                    ctx.inconc(o.inconclusive or "deadlock")
                    continue
                if outcome(o) != outcome(base):
                    ctx.violation("C13:outcome-changed:event-payload-mutated", f"{runner}{' (cached gate)' if cached else ''}: a processor that reorders / empties the list in RouteDecisionEvent.decision changed the run: {core.short(outcome(o)[0], 300)} vs {core.short(outcome(base)[0], 300)}", {"family": "gated", "spec": spec, "inputs": inputs, "runner": runner, "cached": cached})
    ctx.obs["event_payloads_touched"] += Meddler.touched
    ctx.case({"directed": "meddling-observer"}, Meddler.touched > 0)


def run(ctx):
    n = 30 if ctx.tier == "quick" else 700
    core.WARM_P = 0.0
    if ctx.replay:
        c = ctx.replay["case"]
        one_program(ctx, {"family": c["family"], "spec": c["spec"], "inputs": c["inputs"]}, 99)
        ctx.case("r2")
        return
    if ctx.shard[0] == 0:
        for sel in range(4):
            for cached in (False, True):
                one_program(ctx, {"family": "cached" if cached else "gated", "spec": multi_end_program(cached), "inputs": {"i0": "run:i0", "s0": sel}}, 99)
                ctx.obs["multi_target_end_programs"] += 1
        meddling_observer(ctx)
        # runs that PAUSE at an interrupt (flat, and inside a nested graph): observed or not, with a processor failing at
        # any index, the call returns the same PAUSED result
        flat_p = {"name": "pz", "nodes": [{"k": "fn", "name": "mk", "params": [{"n": "i0"}], "outs": ["draft"]}, {"k": "int", "name": "ask", "params": [{"n": "draft"}], "outs": ["decision"], "handler": "pause"}, {"k": "fn", "name": "fin", "params": [{"n": "decision"}], "outs": ["final"]}], "bind": {}}
        nested_p = {"name": "pzo", "nodes": [{"k": "sub", "name": "review", "prog": {"name": "review", "nodes": copy_nodes(flat_p["nodes"][:2]), "bind": {}}}, {"k": "fn", "name": "fin", "params": [{"n": "decision"}], "outs": ["final"]}], "bind": {}}
        for pspec in (flat_p, nested_p):
            one_program(ctx, {"family": "pausing", "spec": pspec, "inputs": {"i0": "run:i0"}, "runners": ("async",)}, 99)
            ctx.obs["pausing_programs"] += 1
    for i in range(n):
        fam = families.rich(ctx.rng)
        one_program(ctx, fam, i)
        top_level_map(ctx, i)
