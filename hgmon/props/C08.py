"""C08 - input contract: the reported input spec is exact; violations fail before execution."""

from __future__ import annotations

import copy

from hgmon import core, gen, loops, ref, rt
from hgmon.build import build_program

LEVEL = "fault_enumeration"
RULE = (
    "generated programs (DAG, gated, cyclic loop templates, nested groups, nested loops) x random configurations (bind "
    "subset, graph-level select, with_entrypoint on 1-2 nodes, run-time select), 25% derived from objects already used; "
    "nested groups also with a name bound inside that a sibling consumes, and with wrapper inputs renamed so that the "
    "external name of an unbound inner parameter equals the inner name of a bound one (random and directed cases); "
    "for each configuration: sufficiency - exactly the reported required inputs (plus, per listed entry point in turn, "
    "its parameters) must be accepted, must not die of a missing value and (gate-free, no entry points) must produce "
    "the selected outputs; necessity - EVERY single required input omitted in turn (enumerated, both runners) must "
    "raise MissingInputError with an empty call log, empty event log and no shutdown; no entry point supplied on a "
    "cyclic graph likewise; bookkeeping - required/optional/entry-point parameters pairwise disjoint, bind removes a "
    "name from required and unbind restores it. Non-trivial: >= 1 required input or entry point; distinct = "
    "(program shape, configuration)."
    ' Graphs with several independent data cycles (grouped in the harness by SCC of the data edges): one listed entry point per cycle is supplied (every combination) and each cycle in turn is left without any of its seeds.'
    ' Also: every loop template (cycles with interchangeable entry points included); with several listed entry points the call is made with entrypoint=<name> and, when the supplied values fit no entry point with other parameters, without a name; exclusive branches writing one name where the second-listed branch is a chain with an input of its own, under graph-level and run-time selection.'
)
ASSUMPTIONS = [
    "the Graph's own report is the claim under test; the run is the judge",
    "runs use the default on_internal_override='warn'; that warning is not part of this property",
]
DECIDING = ["sufficiency_runs", "omission_runs"]
THOROUGH_SHARDS = 12


def gen_config(rng, spec):
    s = copy.deepcopy(spec)
    ins = gen.consumed_inputs(s)
    outs = [e for ns in s["nodes"] for e in ref.data_output_names(ns)]
    s["bind"] = dict(s.get("bind") or {})
    for n in ins:
        if rng.random() < 0.25:
            s["bind"][n] = f"bound:{n}"
    if outs and rng.random() < 0.45:
        s["select"] = rng.sample(outs, rng.randint(1, min(2, len(outs))))
    fnodes = [ns["name"] for ns in s["nodes"] if ns["k"] not in ("ifelse", "route")]
    if fnodes and rng.random() < 0.35:
        s["entry"] = rng.sample(fnodes, rng.randint(1, min(2, len(fnodes))))
    rsel = None
    if outs and rng.random() < 0.3:
        rsel = rng.sample(outs, rng.randint(1, min(2, len(outs))))
    return s, rsel


def gate_free(spec):
    for ns in spec["nodes"]:
        if ns["k"] in ("ifelse", "route", "int"):
            return False
        if ns["k"] == "sub" and not gate_free(ns["prog"]):
            return False
    return True


def bypass_mechanism(spec, omitted, provided):
    """Classifier for the known finding: the reported 'required' set lists a name that an
    active node itself produces (data edges are only inferred from the FIRST of several
    same-name producers, so an entry point placed on another producer loses its edges);
    supplying that name makes validation treat the producer as bypassed and its own
    inputs - among them the omitted one - as no longer needed."""
    for ns in spec["nodes"]:
        ins = {e for _, e in ref.node_inputs(ns)}
        outs = {e for _, e in ref.node_outputs(ns)}
        if omitted in ins and outs & set(provided):
            shared = [o for o in outs & set(provided) if sum(1 for x in spec["nodes"] if o in {e for _, e in ref.node_outputs(x)}) > 1]
            if shared:
                return True
    return False


def scope_mismatch_mechanism(spec, rsel):
    """Classifier: validation scopes the contract to the RUN-TIME selection, execution resolves bound
    values from the graph-level (cached) scope. A name bound inside a nested graph and also consumed by a
    sibling without default is optional for validation when the run-time selection brings the nested graph
    into scope, yet at execution the sibling finds no value (the graph-level selection excludes the nested
    graph) and silently never runs."""
    if not (spec.get("select") and rsel) or set(spec["select"]) == set(rsel):
        return False
    for ns in spec["nodes"]:
        if ns["k"] == "sub":
            for b in ns["prog"].get("bind") or {}:
                ext = ref.forward_map([b], ns.get("rename_in")).get(b, b)
                for o in spec["nodes"]:
                    if o is not ns and any(e == ext and not ref.has_fallback(o, fp) for fp, e in ref.node_inputs(o)):
                        return True
    return False


def check_config(ctx, spec, rsel, label):
    from hypergraph import MissingInputError

    case = {"spec": spec, "runtime_select": rsel, "program": label}
    rt.reset_program()
    warm = ctx.rng.random() < 0.25 if "force_warm" not in spec else bool(spec["force_warm"])
    try:
        built = build_program(spec, warm_inputs=({} if warm else None))
    except Exception as e:  # noqa: BLE001 - a configuration the API rejects is not a configuration
        ctx.obs["config_rejected"] += 1
        return None
    g = built.graph
    try:
        contract_graph = g.select(*rsel) if rsel else g
    except Exception:  # noqa: BLE001
        ctx.obs["config_rejected"] += 1
        return None
    spec_in = contract_graph.inputs
    req, opt = list(spec_in.required), list(spec_in.optional)
    entry = {k: list(v) for k, v in spec_in.entrypoints.items()}
    eparams = {p for v in entry.values() for p in v}
    # ---- bookkeeping ----
    ctx.obs["bookkeeping_checked"] += 1
    if set(req) & set(opt) or set(req) & eparams or set(opt) & eparams:
        ctx.violation("C08:overlap", f"required {req}, optional {opt} and entry-point parameters {entry} are not pairwise disjoint", case)
    for b in spec_in.bound:
        if b in req:
            ctx.violation("C08:bound-required", f"{b} is bound but still reported as required", case)
    emits = {e for ns in spec["nodes"] if ns["k"] != "sub" for e in ns.get("emit", [])}
    bindable = [r for r in req if r not in emits]  # bind() documents a ValueError for emit-only names
    if bindable:
        r0 = ctx.rng.choice(bindable)
        try:
            g2 = contract_graph.bind(**{r0: "tmp"})
            if r0 in g2.inputs.required:
                ctx.violation("C08:bind-keeps-required", f"bind({r0}) leaves it in required {g2.inputs.required}", case)
            g3 = g2.unbind(r0)
            if set(g3.inputs.required) != set(req) or set(g3.inputs.optional) != set(opt):
                ctx.violation("C08:unbind-not-restored", f"bind({r0}).unbind({r0}) gives required {g3.inputs.required} optional {g3.inputs.optional}, originally {req} / {opt}", case)
        except Exception as e:  # noqa: BLE001
            ctx.violation("C08:bind-raised", f"bind/unbind of required input {r0} raised {e!r}", case)
    Rec, _ = rt.make_processors()
    kw = {"select": rsel} if rsel else {}
    sel_names = rsel or spec.get("select")
    # ---- sufficiency ----
    entry_choices = list(entry.items()) or [(None, [])]
    base = {r: f"run:{r}" for r in req}
    groups = entry_groups(g, entry)
    if len(groups) > 1:
        # several INDEPENDENT cycles: "one listed entry point" is one per cycle (each cycle needs its own seed)
        return check_multi_cycle(ctx, built, spec, case, label, req, base, entry, groups, kw)
    for ename, eps in entry_choices:
        provided = dict(base)
        for p in eps:
            provided[p] = 0 if label.startswith("loop") or label.startswith("nested-loop") or spec.get("int_inputs") else f"run:{p}"
        if label.startswith("loop") or label.startswith("nested-loop"):
            for k in provided:
                provided[k] = 0 if not k.startswith("messages") else []
        # with several listed entry points the caller names the one it chose; when the values supplied fit no entry
        # point with OTHER parameters (interchangeable entry points: two readers of one cycle value) the choice needs
        # no name and the call is also made without one
        satisfied = [(n_, ps_) for n_, ps_ in entry.items() if set(ps_) <= set(provided)]
        implicit_ok = len(entry) > 1 and ename is not None and all(set(ps_) == set(eps) for _, ps_ in satisfied)
        for runner, named in [(r_, True) for r_ in ("sync", "async")] + ([(r_, False) for r_ in ("sync", "async")] if implicit_ok else []):
            ekw = {"entrypoint": ename} if len(entry) > 1 and named else {}
            if not named:
                ctx.obs["implicit_entry_runs"] += 1
            o = core.execute(built, provided, runner, processors=[Rec("p")], max_iterations=200, **ekw, **kw)
            ctx.obs["sufficiency_runs"] += 1
            c2 = {**case, "provided": provided, "runner": runner, "entry_point": ename, "entry_point_named": named}
            err = o.exc if o.exc is not None else o.error
            if isinstance(err, MissingInputError) or (isinstance(err, ValueError) and ("entry" in str(err).lower() or "internal override" in str(err))):
                # mechanism: the top-level call was accepted and a *nested* run rejected its inputs
                # because the wrapper exposes the parameters of all entry points of the inner cycle
                nested_reject = "Ambiguous cycle entry" in str(err) and any(e[0] == "run_begin" for e in o.rec.ev)
                ctx.violation(
                    "C08:sufficient-rejected" + (":nested-cycle-entry" if nested_reject else ":bound-output-name" if "Cannot mix compute and inject" in str(err) and bound_output_mechanism(spec) else ""),
                    f"{runner}: the reported contract required={req} entry={ename}->{eps} was supplied exactly, yet the run was rejected: {type(err).__name__}: {str(err)[:200]}",
                    c2,
                )
                continue
            if isinstance(err, KeyError) and "No value for input" in str(err):
                ctx.violation("C08:missing-value-at-run", f"{runner}: contract supplied exactly, a node died of a missing value: {err!r}", c2)
                continue
            if err is not None and not label.startswith("loop"):
                ctx.violation("C08:sufficient-failed:" + type(err).__name__, f"{runner}: contract supplied exactly, run failed with {err!r}", c2)
                continue
            if err is None and sel_names and (gate_free(spec) or spec.get("expect_selected")) and not spec.get("entry") and o.status == "completed":
                missing = [s for s in sel_names if s not in (o.values or {})]
                if missing:
                    ctx.violation("C08:selected-output-missing" + (":runtime-select-vs-graph-select-bound-scope" if scope_mismatch_mechanism(spec, rsel) else ""), f"{runner}: contract supplied exactly, selected outputs {missing} not produced", c2)
    # ---- necessity: every single omission ----
    ename, eps = entry_choices[0]
    full = dict(base)
    for p in eps:
        full[p] = 0
    for r in req:
        provided = {k: v for k, v in full.items() if k != r}
        for runner in ("sync", "async"):
            o = core.execute(built, provided, runner, processors=[Rec("p")], **kw)
            ctx.obs["omission_runs"] += 1
            c2 = {**case, "provided": provided, "omitted": r, "runner": runner}
            activity = [e[0] for e in o.rec.ev if e[0] in ("enter", "ev", "shutdown")]
            if not isinstance(o.exc, MissingInputError):
                ctx.violation("C08:omission-accepted" + (":required-lists-own-output" if bypass_mechanism(spec, r, provided) else ":bound-output-name" if bound_output_mechanism(spec, r) else ""), f"{runner}: required input {r} omitted, expected MissingInputError, got status {o.status} ({o.exc!r}); activity={activity[:5]}", c2)
            elif activity:
                ctx.violation("C08:activity-before-rejection", f"{runner}: rejected for missing {r} only after {activity[:6]}", c2)
    # ---- the same contract questions on graphs derived AFTER the runs above ----
    if bindable and not entry:
        from hgmon.build import Built

        r0 = bindable[0]
        try:
            gb = g.bind(**{r0: "late-bound"})
            gu = gb.unbind(r0)
        except Exception as e:  # noqa: BLE001
            gb = gu = None
        if gb is not None:
            less = {k: v for k, v in base.items() if k != r0}
            for runner in ("sync", "async"):
                bb = Built(gb, spec, built.path)
                o = core.execute(bb, less, runner, processors=[Rec("p")], **kw)
                ctx.obs["derived_runs"] += 1
                err = o.exc if o.exc is not None else o.error
                if isinstance(err, MissingInputError):
                    ctx.violation("C08:derived-bind-still-required", f"{runner}: after bind({r0}) on a graph that was already run, omitting {r0} is rejected: {str(err)[:120]}", {**case, "provided": less})
                bu = Built(gu, spec, built.path)
                o = core.execute(bu, less, runner, processors=[Rec("p")], **kw)
                ctx.obs["derived_runs"] += 1
                activity = [e[0] for e in o.rec.ev if e[0] in ("enter", "ev", "shutdown")]
                if not isinstance(o.exc, MissingInputError):
                    ctx.violation("C08:derived-unbind-not-required" + (":required-lists-own-output" if bypass_mechanism(spec, r0, less) else ":bound-output-name" if bound_output_mechanism(spec, r0) else ""), f"{runner}: after bind({r0}).unbind({r0}) on a graph that was already run, omitting {r0} is accepted: status {o.status} ({o.exc!r}) activity={activity[:4]}", {**case, "provided": less})
    if entry:
        for runner in ("sync", "async"):
            o = core.execute(built, dict(base), runner, processors=[Rec("p")], **kw)
            ctx.obs["omission_runs"] += 1
            activity = [e[0] for e in o.rec.ev if e[0] in ("enter", "ev", "shutdown")]
            if not isinstance(o.exc, MissingInputError):
                ctx.violation("C08:no-entry-accepted", f"{runner}: cyclic graph run without any entry point's parameters: status {o.status} ({o.exc!r})", {**case, "provided": base, "runner": runner})
            elif activity:
                ctx.violation("C08:activity-before-rejection", f"{runner}: rejected for missing entry point only after {activity[:6]}", case)
    return bool(req or entry)


def entry_groups(g, entry):
    """Listed entry points grouped by the data cycle they belong to: strongly connected components of the graph's
    DATA edges only (computed here, from the edge list, independently of the library's own grouping)."""
    import networkx as nx

    if len(entry) < 2:
        return [sorted(entry)] if entry else []
    dg = nx.DiGraph()
    dg.add_nodes_from(g.nx_graph.nodes)
    for u, v, d in g.nx_graph.edges(data=True):
        if d.get("edge_type") == "data":
            dg.add_edge(u, v)
    groups = []
    for scc in nx.strongly_connected_components(dg):
        names = sorted(n for n in scc if n in entry)
        if names:
            groups.append(names)
    return sorted(groups)


def check_multi_cycle(ctx, built, spec, case, label, req, base, entry, groups, kw):
    import itertools

    from hypergraph import MissingInputError

    Rec, _ = rt.make_processors()
    seed = (lambda p: 0) if spec.get("int_inputs") else (lambda p: f"run:{p}")
    ctx.obs["multi_cycle_configs"] += 1
    for combo in itertools.islice(itertools.product(*groups), 6):
        provided = dict(base)
        for e in combo:
            for p in entry[e]:
                provided[p] = seed(p)
        for runner in ("sync", "async"):
            o = core.execute(built, provided, runner, processors=[Rec("p")], max_iterations=200, **kw)
            ctx.obs["sufficiency_runs"] += 1
            err = o.exc if o.exc is not None else o.error
            c2 = {**case, "provided": provided, "runner": runner, "entry_points": list(combo)}
            if isinstance(err, MissingInputError):
                ctx.violation("C08:sufficient-rejected:multi-cycle", f"{runner}: one listed entry point per cycle supplied ({list(combo)} -> {sorted(provided)}), yet rejected: {str(err)[:200]}", c2)
            elif err is not None and spec.get("int_inputs"):
                ctx.violation("C08:sufficient-failed:" + type(err).__name__, f"{runner}: one entry point per cycle supplied ({list(combo)}), run failed with {err!r}", c2)
    # necessity: a cycle left without any complete entry point
    for gi, grp in enumerate(groups):
        own = {p for e in grp for p in entry[e]}
        provided = dict(base)
        for gj, other in enumerate(groups):
            if gj != gi:
                for p in entry[other[0]]:
                    if p not in own:
                        provided[p] = seed(p)
        for runner in ("sync", "async"):
            o = core.execute(built, provided, runner, processors=[Rec("p")], max_iterations=20, **kw)
            ctx.obs["omission_runs"] += 1
            activity = [e[0] for e in o.rec.ev if e[0] in ("enter", "ev", "shutdown")]
            c2 = {**case, "provided": provided, "runner": runner, "cycle_without_seed": grp}
            if not isinstance(o.exc, MissingInputError):
                ctx.violation("C08:omission-accepted:cycle-without-seed", f"{runner}: the cycle entered through {grp} got none of its seeds {sorted(own)} (provided {sorted(provided)}), expected MissingInputError, got status {o.status} ({o.exc!r}); activity={activity[:5]}", c2)
            elif activity:
                ctx.violation("C08:activity-before-rejection", f"{runner}: rejected for a missing cycle seed only after {activity[:6]}", c2)
    return True


def bound_output_mechanism(spec, omitted=None):
    """Classifier for the known finding: a name that a node of the graph PRODUCES is also bound (on the graph, or
    inside a nested graph under the wrapper's external name). The binding counts as a provided value, the producer
    is treated as bypassed at run time, but the reported contract still lists the producer's own inputs as
    required. With `omitted`: that input is consumed by such a bypassed producer only."""
    produced = {}
    for ns in spec["nodes"]:
        for e in ref.data_output_names(ns):
            produced.setdefault(e, []).append(ns)
    bound = set(spec.get("bind") or {})
    for ns in spec["nodes"]:
        if ns["k"] == "sub":
            ext = dict(ref.node_inputs(ns))
            bound |= {ext.get(k, k) for k in (ns["prog"].get("bind") or {})}
    hit = [n for b in bound & set(produced) for n in produced[b]]
    if not hit:
        return False
    if omitted is None:
        return True
    return any(omitted in {e for _, e in ref.node_inputs(n)} for n in hit)


def directed_cases():
    """Small hand-shaped configurations at the corners the random generator reaches rarely."""

    def inner(bind):
        return {"name": "inner", "nodes": [{"k": "fn", "name": "combine", "params": [{"n": "cfg"}, {"n": "data"}], "outs": ["answer"]}], "bind": dict(bind)}

    probe = {"k": "fn", "name": "probe", "params": [{"n": "tag"}], "outs": ["seen"]}
    out = []
    # external name of the unbound inner parameter == inner name of the bound one
    for lab, batches in (("swap", [{"cfg": "data", "data": "cfg"}]), ("sequential", [{"cfg": "settings"}, {"data": "cfg"}, {"settings": "data"}])):
        sub = {"k": "sub", "name": "inner", "prog": inner({"cfg": "bound:CFG"}), "rename_in": batches}
        out.append((f"directed:rename-collides-with-inner-bound:{lab}", {"name": "outer", "nodes": [copy.deepcopy(probe), sub], "bind": {}}, None))
    # a name bound inside a nested graph and consumed, default-less, by a sibling: narrowing the scope to the
    # sibling (select / entry point) leaves nothing that could supply it
    plain = {"k": "fn", "name": "plain", "params": [{"n": "cfg"}], "outs": ["o1"]}
    for lab, extra in (("select", {"select": ["o1"]}), ("entry", {"entry": ["plain"]}), ("select+entry", {"select": ["o1"], "entry": ["plain"]})):
        sub = {"k": "sub", "name": "inner", "prog": inner({"cfg": "bound:CFG"})}
        out.append((f"directed:shared-name-bound-in-out-of-scope-subgraph:{lab}", {"name": "outer", "nodes": [copy.deepcopy(plain), sub], "bind": {}, **extra}, None))
    # the same one level down: the graph whose selection leaves the binding's owner out of scope is itself used as a
    # node - what it reports as required stays required for the graph around it
    for lab, extra in (("select", {"select": ["o1"]}), ("entry", {"entry": ["plain"]})):
        sub = {"k": "sub", "name": "inner", "prog": inner({"cfg": "bound:CFG"})}
        mid = {"name": "mid", "nodes": [copy.deepcopy(plain), sub], "bind": {}, **extra}
        out.append((f"directed:out-of-scope-binding-one-level-down:{lab}", {"name": "outer", "nodes": [{"k": "sub", "name": "mid", "prog": mid}, {"k": "fn", "name": "side", "params": [{"n": "q"}], "outs": ["w"]}], "bind": {}}, None))
    # an UNSELECTED nested graph with an inner binding whose other inputs are satisfiable anyway (it still runs):
    # its bound input must resolve although the narrowed contract no longer lists it
    for lab, extra in (("select", {"select": ["p"]}), ("select-two", {"select": ["p", "m"]})):
        nodes = [
            {"k": "fn", "name": "up", "params": [{"n": "a"}], "outs": ["m"]},
            {"k": "sub", "name": "inner", "prog": {"name": "inner", "nodes": [{"k": "fn", "name": "f", "params": [{"n": "m"}, {"n": "k"}], "outs": ["o"]}], "bind": {"k": "bound:K"}}},
            {"k": "fn", "name": "other", "params": [{"n": "m"}], "outs": ["p"]},
        ]
        out.append((f"directed:unselected-subgraph-with-inner-binding:{lab}", {"name": "outer", "nodes": nodes, "bind": {}, **extra}, None))
        out.append((f"directed:unselected-subgraph-with-inner-binding:runtime-{lab}", {"name": "outer", "nodes": copy.deepcopy(nodes), "bind": {}}, extra["select"]))
    # a name PRODUCED by a node is bound as well - on the graph, or inside a nested graph that consumes it
    prod = {"k": "fn", "name": "P", "params": [{"n": "a"}], "outs": ["x"]}
    cons = {"k": "fn", "name": "f", "params": [{"n": "x"}], "outs": ["y"]}
    out.append(("directed:bound-output-name:graph-level", {"name": "outer", "nodes": [copy.deepcopy(prod), copy.deepcopy(cons)], "bind": {"x": "bound:X"}}, None))
    out.append(("directed:bound-output-name:inside-nested-graph", {"name": "outer", "nodes": [copy.deepcopy(prod), {"k": "sub", "name": "inner", "prog": {"name": "inner", "nodes": [copy.deepcopy(cons)], "bind": {"x": "bound:X"}}}], "bind": {}}, None))
    # two INDEPENDENT data cycles (two self-loop accumulators) tied together only by a gate that reads one and routes
    # into the other: each cycle needs its own seed; one listed entry point's parameters are enough
    two = [
        {"k": "fn", "name": "inc", "params": [{"n": "count"}], "outs": ["count"], "beh": ["inc", "count"]},
        {"k": "fn", "name": "acc", "params": [{"n": "total"}, {"n": "count"}], "outs": ["total"], "beh": ["sum", "total", "count"]},
        {"k": "route", "name": "gate", "params": [{"n": "total"}], "targets": ["inc", "END"], "cond": ["ge", "total", 6], "then": "END", "else": "inc"},
    ]
    out.append(("directed:two-data-cycles-coupled-by-a-gate", {"name": "twocyc", "nodes": two, "bind": {}, "int_inputs": True}, None))
    # exclusive branches that write ONE name; the branch listed second is a CHAIN whose later step has an input of its
    # own; the selected output is computed downstream of the shared name. Whichever way the (constant) gate routes,
    # the narrowed contract must be enough to obtain the selected output, and each of its names must be necessary
    for routes_to_chain in (True, False):
        for kind in ("ifelse", "route"):
            for chain_first in (False, True):
                if kind == "ifelse":
                    gate = {"k": "ifelse", "name": "is_retail", "params": [{"n": "qty"}], "key": "qty", "t": "list_price", "f": "lookup", "table": [not routes_to_chain], "open": False}
                else:
                    gate = {"k": "route", "name": "is_retail", "params": [{"n": "qty"}], "key": "qty", "targets": ["list_price", "lookup"], "table": ["lookup" if routes_to_chain else "list_price"], "open": False}
                direct = {"k": "fn", "name": "list_price", "params": [{"n": "qty"}], "outs": ["price"]}
                chain = [{"k": "fn", "name": "lookup", "params": [{"n": "qty"}], "outs": ["base"]}, {"k": "fn", "name": "discount", "params": [{"n": "base"}, {"n": "coupon"}], "outs": ["price"]}]
                nodes = [{"k": "fn", "name": "parse", "params": [{"n": "order"}], "outs": ["qty"]}, gate] + (chain + [direct] if chain_first else [direct] + chain)
                nodes += [{"k": "fn", "name": "bill", "params": [{"n": "price"}], "outs": ["invoice"]}, {"k": "fn", "name": "shipping", "params": [{"n": "address"}], "outs": ["label"]}]
                lab = f"directed:chain-branch-behind-shared-name:{kind}:{'chain' if routes_to_chain else 'direct'}-taken:{'chain' if chain_first else 'direct'}-listed-first"
                out.append((lab + ":graph-select", {"name": "shop", "nodes": copy.deepcopy(nodes), "bind": {}, "select": ["invoice"], "expect_selected": True}, None))
                out.append((lab + ":runtime-select", {"name": "shop", "nodes": copy.deepcopy(nodes), "bind": {}, "expect_selected": True}, ["invoice"]))
    # the producer of the selected output WAITS for a signal of a node it has no data edge from; that node has an
    # input of its own. The selection keeps the emitter (it must run first), so its input stays required
    for emitter_first in (True, False):
        emitter = {"k": "fn", "name": "prep", "params": [{"n": "cfg"}], "outs": ["prepared"], "emit": ["ready"]}
        waiter = {"k": "fn", "name": "main", "params": [{"n": "x"}], "outs": ["res"], "wait": ["ready"]}
        tail = {"k": "fn", "name": "tail", "params": [{"n": "res"}], "outs": ["final"]}
        other = {"k": "fn", "name": "other", "params": [{"n": "z"}], "outs": ["unrelated"]}
        nodes = [emitter, waiter, tail, other] if emitter_first else [other, tail, waiter, emitter]
        lab = f"directed:selected-output-behind-ordering-only-edge:{'emitter' if emitter_first else 'waiter'}-listed-first"
        out.append((lab + ":graph-select", {"name": "ord", "nodes": copy.deepcopy(nodes), "bind": {}, "select": ["final"], "expect_selected": True}, None))
        out.append((lab + ":runtime-select", {"name": "ord", "nodes": copy.deepcopy(nodes), "bind": {}, "expect_selected": True}, ["final"]))
        inner = {"name": "ordin", "nodes": copy.deepcopy(nodes), "bind": {}, "select": ["final"]}
        out.append((lab + ":nested-select", {"name": "outer", "nodes": [{"k": "sub", "name": "ordin", "prog": inner}, {"k": "fn", "name": "sink", "params": [{"n": "final"}], "outs": ["sunk"]}], "bind": {}, "select": ["sunk"], "expect_selected": True}, None))
    # two INDEPENDENT cycles with their own outputs, each narrowed to by a selection: the contract of the selected scope
    # (graph-level select, run-time select, and a run-time select that WIDENS a narrower graph-level one) names exactly
    # the cycles in that scope
    cyc = [
        {"k": "fn", "name": "ia", "params": [{"n": "a"}], "outs": ["a"], "beh": ["inc", "a"]},
        {"k": "route", "name": "ga", "params": [{"n": "a"}], "targets": ["ia", "END"], "cond": ["lt", "a", 2], "then": "ia", "else": "END"},
        {"k": "fn", "name": "ib", "params": [{"n": "b"}], "outs": ["b"], "beh": ["inc", "b"]},
        {"k": "route", "name": "gb", "params": [{"n": "b"}], "targets": ["ib", "END"], "cond": ["lt", "b", 2], "then": "ib", "else": "END"},
    ]
    for sel, rsel in ((["a"], None), (None, ["a"]), (None, ["b"]), (["a"], ["b"]), (["b"], ["a", "b"]), (["a"], "**")):
        spec_ = {"name": "twoind", "nodes": copy.deepcopy(cyc), "bind": {}, "int_inputs": True}
        if sel:
            spec_["select"] = list(sel)
        out.append((f"directed:two-independent-cycles:select={sel}:runtime={rsel}", spec_, rsel))
    # a mapping nested-graph node whose MAPPED parameter has a signature default inside (a default work list): the name
    # is optional outside, and leaving it out is accepted and runs
    inner_m = {"name": "batch", "nodes": [{"k": "fn", "name": "work", "params": [{"n": "item", "d": ["d0", "d1"]}, {"n": "tag"}], "outs": ["done"]}], "bind": {}}
    # a nested-graph node that is USED between two rename batches, the second of which re-uses the name the first freed
    # and hands the first's name on (a->t, then t->u and b->t): required / optional follow the parameters, not the names
    for used in (True, False):
        inner_r = {"name": "ren", "nodes": [{"k": "fn", "name": "f", "params": [{"n": "a"}, {"n": "b", "d": "def:b"}], "outs": ["r"]}], "bind": {}}
        for hist in ([{"a": "t"}, {"t": "u", "b": "t"}], [{"a": "t"}, {"t": "b", "b": "t"}], [{"b": "t"}, {"t": "a", "a": "t"}]):
            out.append((f"directed:renamed-again-after-use:{hist}:used={used}", {"name": "outer", "nodes": [{"k": "sub", "name": "ren", "prog": copy.deepcopy(inner_r), "rename_in": [dict(b) for b in hist]}], "bind": {}, "force_warm": used}, None))
    out.append(("directed:mapped-parameter-with-inner-default", {"name": "outer", "nodes": [{"k": "fn", "name": "pre", "params": [{"n": "raw"}], "outs": ["tag"]}, {"k": "sub", "name": "batch", "prog": inner_m, "map": {"over": ["item"], "mode": "zip", "err": "raise"}}], "bind": {}, "select": ["done"], "expect_selected": True}, None))
    out.append(("directed:two-data-cycles-coupled-by-a-gate:reordered", {"name": "twocyc", "nodes": [copy.deepcopy(two[2]), copy.deepcopy(two[1]), copy.deepcopy(two[0])], "bind": {}, "int_inputs": True}, None))
    return out


def run(ctx):
    n = 900 if ctx.tier == "quick" else 15000
    core.WARM_P = 0.0  # warm-up is done explicitly per configuration
    if ctx.replay:
        c = ctx.replay["case"]
        check_config(ctx, c["spec"], c.get("runtime_select"), c.get("program", "replay"))
        ctx.case("r1")
        ctx.case("r2")
        return
    # directed: a cyclic graph with two entry points nested as a node
    t = loops.nested_loop(3, 0, 2, "route", 1)
    nt = check_config(ctx, t["spec"], None, "nested-loop(L=2)")
    ctx.case({"directed": "nested-loop-L2"}, bool(nt))
    # directed: every loop template once (cycles with one, several, and interchangeable entry points)
    if ctx.shard[0] == 0:
        for t in loops.systematic_templates(2):
            if t["ref"].get("mechanism"):
                continue
            lbl = "nested-loop" if t["template"].startswith("nested") else "loop:" + t["template"]
            nt = check_config(ctx, copy.deepcopy(t["spec"]), None, lbl)
            ctx.obs["systematic_loop_templates"] += 1
            ctx.case({"directed": lbl}, bool(nt))
    for label, spec, rsel in directed_cases():
        nt = check_config(ctx, spec, rsel, label)
        ctx.case({"directed": label}, bool(nt))
    for i in range(n):
        rng = ctx.rng
        r = rng.random()
        if r < 0.45:
            base, label = gen.gen_dag(rng, p_default_edge=0.1), "dag"
        elif r < 0.65:
            base, label = gen.gen_gated(rng, deterministic=rng.random() < 0.5), "gated"
        elif r < 0.8:
            d = gen.gen_dag(rng, n_nodes=(4, 8))
            res = gen.nest_once(rng, d, "grp")
            base, label = (res[1] if res else d), "nested"
            if res and rng.random() < 0.5:
                # the nested graph binds a name that a sibling outside also consumes
                sub = next(ns for ns in base["nodes"] if ns["k"] == "sub")
                inner_in = {e for x in sub["prog"]["nodes"] for _, e in ref.node_inputs(x)} - {e for x in sub["prog"]["nodes"] for _, e in ref.node_outputs(x)}
                renamed = {k for b in (sub.get("rename_in") or []) for k in b}
                shared = [e for e in inner_in if e not in renamed and any(e2 == e and not ref.has_fallback(o2, f2) for o2 in base["nodes"] if o2 is not sub for f2, e2 in ref.node_inputs(o2)) and not any(ref.has_fallback(x, fp) for x in sub["prog"]["nodes"] for fp, ep in ref.node_inputs(x) if ep == e)]
                produced = {e for x in base["nodes"] for _, e in ref.node_outputs(x)}
                shared = [e for e in shared if e not in produced]
                if shared:
                    sub["prog"].setdefault("bind", {})[rng.choice(shared)] = "bound:inner-shared"
                    label = "nested-shared-bind"
            elif res:
                # the wrapper's inputs are renamed so that the external name of an unbound, default-less inner
                # parameter q coincides with the INNER name of a different parameter p that is bound inside
                sub = next(ns for ns in base["nodes"] if ns["k"] == "sub")
                prog = sub["prog"]
                inner_out = {e for x in prog["nodes"] for _, e in ref.node_outputs(x)}
                free = []
                for x in prog["nodes"]:
                    for fp, ep in ref.node_inputs(x):
                        if ep not in inner_out and ep not in free and ep not in (prog.get("bind") or {}) and not any(ref.has_fallback(x2, f2) for x2 in prog["nodes"] for f2, e2 in ref.node_inputs(x2) if e2 == ep):
                            free.append(ep)
                ext = dict(ref.node_inputs(sub))
                outer_out = {e for x in base["nodes"] for _, e in ref.node_outputs(x)}
                free = [f for f in free if f in ext and ext[f] not in outer_out]  # plain graph inputs only (no accidental cycles)
                if len(free) >= 2:
                    pq = rng.sample(free, 2)
                    prog.setdefault("bind", {})[pq[0]] = "bound:inner-p"
                    ep_, eq_ = ext[pq[0]], ext[pq[1]]
                    if rng.random() < 0.6:
                        batches = [{ep_: eq_, eq_: ep_}]
                    else:
                        batches = [{ep_: "tmp_swap"}, {eq_: ep_}, {"tmp_swap": eq_}]
                    sub["rename_in"] = list(sub.get("rename_in") or []) + batches
                    label = "nested-rename-collides-with-inner-bound"
        else:
            t = loops.gen_loop(rng)
            base, label = t["spec"], ("nested-loop" if t["template"].startswith("nested") else "loop:" + t["template"])
        if label.startswith("loop") or label.startswith("nested-loop"):
            spec, rsel = copy.deepcopy(base), None
            if rng.random() < 0.3 and not label.startswith("nested"):
                outs = [e for ns in spec["nodes"] for e in ref.data_output_names(ns)]
                rsel = [rng.choice(outs)]
        else:
            spec, rsel = gen_config(rng, base)
        nt = check_config(ctx, spec, rsel, label)
        if nt is None:
            continue
        ctx.case({"p": label, "s": gen.shape_of(spec), "b": sorted(spec.get("bind") or {}), "sel": spec.get("select"), "e": spec.get("entry"), "rs": rsel}, nt, sample={"spec": spec, "runtime_select": rsel} if i < 2 else None)
