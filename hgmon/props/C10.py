"""C10 - map: one result per input combination, in input order, equal to a single run."""

from __future__ import annotations

import copy
import itertools

from hgmon import core, gen, ref, rt
from hgmon.build import all_fids, build_program

LEVEL = "exploration"
RULE = (
    "inner graphs (small DAGs, gated programs whose selector is mapped so that items take different branches) mapped "
    "through runner.map and through map_over nested-graph nodes (also renamed, also one mapping node inside another): "
    "1-3 mapped parameters, zip and product, list lengths 0-4, broadcast values, clone False/True/[names] (on runner.map and on mapping nodes, where a value bound on the inner graph must bypass it) observed "
    "through the identity of the object each item's function received, chosen items failing (raise and continue), "
    "max_concurrency in {None,1,2,3} under random and adversarial (reverse) completion orders, both runners. Oracle: the "
    "combination list computed independently (zip position-wise, product row-major in map_over order); results[i] must "
    "equal a single run() on combination i; every output list of a mapping node has one entry per combination, None "
    "where the item failed (continue) or did not produce the output; raise mode surfaces the first failing item's own "
    "exception; RefEval as third voice. Non-trivial: >= 2 combinations; distinct = (inner shape, mode, lengths, "
    "clone, failure pattern, form)."
    ' Also: broadcast tuples holding a list under clone; raise mode with several failing items in flight and the later one finishing first (limits None/2/3, last-first and random completion orders, runner.map and mapping node).'
    ' Also: the mapping node renamed AFTER map_over, including a swap or shift in one with_inputs() call in which a new name equals another old name.'
)
ASSUMPTIONS = ["zip with unequal lengths raises by contract and is not generated", "the order in which items execute is free"]
DECIDING = ["map_calls", "items_compared"]
THOROUGH_SHARDS = 12
REPLAY_BY_SEED = True  # histories are regenerated from the seed; see main.py


class ItemBoom(Exception):
    pass


class ItemBoomFalsy(Exception):
    def __len__(self):
        return 0


class FailOn:
    """rt.FAIL_IF entry: fail when the mapped parameter has one of the bad values."""

    def __init__(self, param, excs):
        self.param, self.excs, self._cur = param, excs, None

    def __getitem__(self, i):
        return self._pred if i == 0 else self._cur

    def _pred(self, kw):
        v = kw.get(self.param)
        try:
            hit = v in self.excs
        except TypeError:
            return False
        if hit:
            self._cur = self.excs[v]
        return hit


def combos_of(inputs, over, mode):
    lists = [inputs[k] for k in over]
    if mode == "zip":
        return [dict(zip(over, c)) for c in zip(*lists)]
    return [dict(zip(over, c)) for c in itertools.product(*lists)]


def gen_inner(rng):
    if rng.random() < 0.4:
        spec = gen.gen_gated(rng, deterministic=True, n_blocks=(1, 3), prefix="")
        spec["name"] = "inner"
        inputs = gen.gated_inputs(rng, spec)
        kind = "gated"
    else:
        spec = gen.gen_dag(rng, n_nodes=(1, 4), n_inputs=(2, 3), p_default_input=0.2, p_default_edge=0.0, p_gen=0.0, name="inner")
        inputs = {k: f"run:{k}" for k in gen.consumed_inputs(spec)}
        kind = "dag"
    for ns in spec["nodes"]:
        ns["fid"] = f"inner/{ns['name']}"
    return spec, inputs, kind


def pick_map(rng, spec, base_inputs, kind):
    ins = [k for k in gen.consumed_inputs(spec) if k in base_inputs]
    sels = spec.get("selectors", [])
    k = rng.randint(1, min(3, len(ins)))
    over = rng.sample(ins, k)
    if sels and rng.random() < 0.8 and sels[0] in ins and sels[0] not in over:
        over[0] = sels[0]
    mode = rng.choice(["zip", "product"]) if len(over) > 1 else "zip"
    inputs = dict(base_inputs)
    if mode == "zip":
        n = rng.randint(0, 4)
        for p in over:
            inputs[p] = [(rng.randint(0, 7) if p in sels else f"{p}#{j}") for j in range(n)]
    else:
        for p in over:
            inputs[p] = [(rng.randint(0, 7) if p in sels else f"{p}#{j}") for j in range(rng.randint(0, 3))]
    return over, mode, inputs


def check_runner_map(ctx, i):
    rng = ctx.rng
    spec, base, kind = gen_inner(rng)
    if not base:
        return
    over, mode, inputs = pick_map(rng, spec, base, kind)
    combos = combos_of(inputs, over, mode)
    bcast = [k for k in inputs if k not in over]
    # failure pattern: items whose first mapped value is in a bad set
    p0 = over[0]
    consumers = [f for f, ns in all_fids(spec).items() if ns["k"] == "fn" and any(p["n"] == p0 for p in ns["params"])]
    bad_vals = {}
    if consumers and combos and rng.random() < 0.5 and not isinstance(inputs[p0][0], int):
        for v in rng.sample(inputs[p0], rng.randint(1, max(1, len(inputs[p0]) // 2))):
            bad_vals[v] = ItemBoom(f"item with {p0}={v} failed")
    victim = rng.choice(consumers) if consumers else None
    clone = rng.choice([False, False, True, [rng.choice(bcast)] if bcast else False])
    # broadcast values are fresh mutable objects so that sharing vs copying is observable
    # ... a third of them a TUPLE holding a list: only shallowly immutable, so clone must still copy it
    shared = {}
    tuple_form = set()
    for b in bcast:
        if not isinstance(inputs[b], int):
            if rng.random() < 0.35:
                tuple_form.add(b)
                ctx.obs["tuple_broadcasts"] += 1
            shared[b] = ([inputs[b]], "t") if b in tuple_form else [inputs[b]]
    case = {"form": "runner.map", "inner": spec, "over": over, "mode": mode, "inputs": core.jsonable(inputs), "clone": clone, "bad": [str(v) for v in bad_vals], "kind": kind}
    ctx.obs["map_calls"] += 0
    for runner in ("sync", "async"):
        s = core.with_async(spec, runner == "async", rng)
        rt.reset_program()
        built = build_program(s)
        # expected: a single run per combination (fault-free values; failing items fail)
        expected = []
        for c in combos:
            single = dict(inputs)
            single.update(c)
            for b in shared:
                single[b] = ([inputs[b]], "t") if b in tuple_form else [inputs[b]]
            rt.FAIL_IF.clear()
            if bad_vals and victim:
                rt.FAIL_IF[victim] = FailOn(p0, bad_vals)
            o1 = core.execute(built, single, runner, error_handling="continue", warm=False)
            expected.append((o1.status, o1.values, o1.error))
        for err_mode in ("continue", "raise"):
            for mc, pol in ((None, "rand"),) if runner == "sync" else ((None, "rand"), (1, "last"), (2, "last"), (3, "rand")):
                run_inputs = dict(inputs)
                for b in shared:
                    run_inputs[b] = ([inputs[b]], "t") if b in tuple_form else [inputs[b]]
                rt.FAIL_IF.clear()
                if bad_vals and victim:
                    rt.FAIL_IF[victim] = FailOn(p0, bad_vals)
                sched = None
                if runner == "async":
                    sched = rt.Sched(default=pol, rng=rng)
                o = core.execute(built, run_inputs, runner, sched=sched, map_over=over if len(over) > 1 else over[0], map_mode=mode, clone=clone, error_handling=err_mode, max_concurrency=mc, warm=False)
                ctx.obs["map_calls"] += 1
                c2 = {**case, "runner": runner, "error_handling": err_mode, "max_concurrency": mc}
                if o.deadlock or o.inconclusive:
                    ctx.inconc(o.inconclusive or "deadlock in map")
                    continue
                first_bad = next((j for j, e in enumerate(expected) if e[0] == "failed"), None)
                if err_mode == "raise" and first_bad is not None:
                    if o.exc is not expected[first_bad][2]:
                        ctx.violation("C10:raise-not-first-failing-item", f"{runner}/k={mc}: raise mode surfaced {o.exc!r}, the first failing item (index {first_bad}) raised {expected[first_bad][2]!r}", c2)
                    continue
                if o.exc is not None:
                    ctx.violation("C10:map-raised", f"{runner}/k={mc}/{err_mode}: map raised {o.exc!r}", c2)
                    continue
                res = o.result
                if len(res) != len(combos):
                    ctx.violation("C10:result-count", f"{runner}/k={mc}: {len(res)} results for {len(combos)} combinations ({mode} over {over})", c2)
                    continue
                for j, (r, exp) in enumerate(zip(res, expected)):
                    ctx.obs["items_compared"] += 1
                    if r.status.value != exp[0] or r.values != exp[1] or (exp[2] is not None and r.error is not exp[2]):
                        ctx.violation(
                            "C10:item-mismatch",
                            f"{runner}/k={mc}: results[{j}] (combination {combos[j]}) = {r.status.value} {core.short(r.values, 300)} error={r.error!r}; a single run on that combination gives {exp[0]} {core.short(exp[1], 300)} error={exp[2]!r}",
                            c2,
                        )
                        break
                # clone: identity of the broadcast object each item's function received
                if shared and combos:
                    for b in shared:
                        got = [e[2][b] for e in o.rec.ev if e[0] == "enter" and b in e[2]]
                        if not got:
                            continue
                        ctx.obs["clone_checked"] += 1
                        cloned = clone is True or (isinstance(clone, list) and b in clone)
                        src = run_inputs[b]
                        if not cloned and any(x is not src for x in got):
                            ctx.violation("C10:broadcast-copied", f"{runner}: clone={clone}: broadcast value {b} reached a function as a different object", c2)
                        if cloned:
                            if any(x is src for x in got) or any(x != src for x in got):
                                ctx.violation("C10:clone-not-copied", f"{runner}: clone={clone}: broadcast value {b} was shared with an item (or altered)", c2)
    ctx.case({"form": "runner.map", "s": gen.shape_of(spec), "mode": mode, "lens": [len(inputs[p]) for p in over], "clone": str(clone), "bad": len(bad_vals)}, len(combos) >= 2, sample=case if i < 2 else None)


def check_map_node(ctx, i):
    rng = ctx.rng
    spec, base, kind = gen_inner(rng)
    if not base:
        return
    over, mode, inputs = pick_map(rng, spec, base, kind)
    combos = combos_of(inputs, over, mode)
    err = rng.choice(["raise", "continue"])
    p0 = over[0]
    consumers = [f for f, ns in all_fids(spec).items() if ns["k"] == "fn" and any(p["n"] == p0 for p in ns["params"])]
    bad_vals = {}
    if consumers and combos and rng.random() < 0.45 and not isinstance(inputs[p0][0], int):
        for v in rng.sample(inputs[p0], rng.randint(1, max(1, len(inputs[p0]) // 2))):
            bad_vals[v] = ItemBoom(f"item with {p0}={v} failed")
    victim = rng.choice(consumers) if consumers else None
    sub = {"k": "sub", "name": "inner", "prog": spec, "map": {"over": list(over), "mode": mode, "err": err}}
    # renamed mapping node
    r_ = rng.random()
    ren_in = None
    all_in = [e for _, e in ref.node_inputs(sub)]
    others_ = [e for e in all_in if e != over[0]]
    if r_ < 0.25 and others_:
        # ONE with_inputs() call on the MAPPING node in which a new name equals another old name of the same call:
        # a swap of the mapped input with another input, or a shift (mapped -> other's name, other -> fresh name),
        # written with the mapped name first; renames of one call are simultaneous
        o_ = rng.choice(others_)
        ren_in = {over[0]: o_, o_: over[0]} if rng.random() < 0.5 else {over[0]: o_, o_: o_ + "_t"}
        sub["rename_in"] = [ren_in]
        sub["map"]["at"] = 0
        sub["map"]["over"] = [ren_in.get(p, p) for p in over]
        inputs = {ren_in.get(k, k): v for k, v in inputs.items()}
        ctx.obs["rename_after_map_over_swaps"] += 1
    elif r_ < 0.5:
        ren_in = {over[0]: over[0] + "_x"}
        sub["rename_in"] = [ren_in]
        if rng.random() < 0.5:
            sub["map"]["at"] = 0  # renamed after map_over
        sub["map"]["over"] = [ren_in.get(p, p) for p in over]
        inputs = {ren_in.get(k, k): v for k, v in inputs.items()}
    if ren_in is not None:
        outs = ref.sub_outputs(spec)
        if outs:
            o0 = rng.choice(outs)
            if o0 not in set(ref.sub_emit_only(spec)):
                sub["rename_out"] = [{o0: o0 + "_y"}]
    outer = {"name": "outer", "nodes": [sub], "bind": {}}
    ext_outs = [e for _, e in ref.node_outputs(sub) if e not in ref.sub_emit_only(spec)]
    if ext_outs:
        outer["nodes"].append({"k": "fn", "name": "post", "fid": "outer/post", "params": [{"n": rng.choice(ext_outs)}], "outs": ["post_out"]})
    two_level = rng.random() < 0.25
    if two_level:
        outer = {"name": "top", "nodes": [{"k": "sub", "name": "outer", "prog": outer}], "bind": {}}
    case = {"form": "map_over node", "spec": outer, "inputs": core.jsonable(inputs), "error_handling": err, "bad": [str(v) for v in bad_vals], "kind": kind}
    try:
        R = ref.ref_eval(outer, inputs, fail=frozenset())
    except ref.Ambiguous:
        ctx.obs["ref_ambiguous"] += 1
        return
    for runner in ("sync", "async"):
        s = core.with_async(outer, runner == "async", rng)
        rt.reset_program()
        built = build_program(s, warm_inputs=({} if rng.random() < 0.25 else None))
        # per-item expectation from single runs of the inner graph
        inner_built = built.subs["outer"].subs["inner"] if two_level else built.subs["inner"]
        fm_in = {e: i_ for i_, e in ref.node_inputs(sub)}
        fm_out = dict(ref.node_outputs(sub))
        inner_inputs = {fm_in.get(k, k): v for k, v in inputs.items()}
        inner_over = [fm_in.get(p, p) for p in sub["map"]["over"]]
        per_item = []
        for c in combos_of(inner_inputs, inner_over, mode):
            single = dict(inner_inputs)
            single.update(c)
            rt.FAIL_IF.clear()
            if bad_vals and victim:
                rt.FAIL_IF[victim] = FailOn(p0, bad_vals)
            o1 = core.execute(inner_built, single, runner, error_handling="continue", warm=False)
            per_item.append((o1.status, o1.values, o1.error))
        for mc, pol in ((None, "rand"),) if runner == "sync" else ((None, "rand"), (1, "last"), (2, "rand")):
            rt.FAIL_IF.clear()
            if bad_vals and victim:
                rt.FAIL_IF[victim] = FailOn(p0, bad_vals)
            sched = rt.Sched(default=pol, rng=rng) if runner == "async" else None
            o = core.execute(built, inputs, runner, sched=sched, error_handling="continue", max_concurrency=mc, warm=False)
            ctx.obs["map_calls"] += 1
            c2 = {**case, "runner": runner, "max_concurrency": mc}
            if o.deadlock or o.inconclusive:
                ctx.inconc(o.inconclusive or "deadlock in map node")
                continue
            first_bad = next((j for j, e in enumerate(per_item) if e[0] == "failed"), None)
            if err == "raise" and first_bad is not None:
                if o.error is not per_item[first_bad][2]:
                    ctx.violation("C10:node-raise-not-first-failing-item", f"{runner}/k={mc}: mapping node in raise mode surfaced {o.error!r}, the first failing item (index {first_bad}) raised {per_item[first_bad][2]!r}", c2)
                continue
            if o.exc is not None or o.status != "completed":
                ctx.violation("C10:node-run-failed", f"{runner}/k={mc}: outer run {o.status} {o.exc or o.error!r}", c2)
                continue
            for inner_name, ext in fm_out.items():
                if inner_name in ref.sub_emit_only(spec):
                    continue
                col = o.values.get(ext)
                exp_col = [(None if st == "failed" else vals.get(inner_name)) for st, vals, _ in per_item]
                ctx.obs["items_compared"] += len(exp_col)
                if col != exp_col:
                    why = "length" if not isinstance(col, list) or len(col) != len(exp_col) else "entries"
                    ctx.violation(
                        "C10:node-column:" + why,
                        f"{runner}/k={mc}: output list {ext} = {core.short(col, 300)}; per-item single runs give {core.short(exp_col, 300)} ({len(exp_col)} combinations, {mode} over {sub['map']['over']})",
                        c2,
                    )
                    break
            expR = ref.visible_values(outer, R)
            if not bad_vals and o.values != expR:
                ctx.violation("C10:node-vs-ref", f"{runner}/k={mc}: outer values differ from RefEval: {core.short(o.values, 300)} vs {core.short(expR, 300)}", c2)
    ctx.case({"form": "node", "s": gen.shape_of(outer), "mode": mode, "lens": [len(inputs[p]) for p in sub["map"]["over"]], "err": err, "bad": len(bad_vals), "two": two_level}, len(combos) >= 2, sample=case if i < 3 else None)


def check_raise_order(ctx, i):
    """Raise mode with SEVERAL failing items in flight at once and the later one finishing first (every completion
    order the scheduler can produce, concurrency limits None/2/3): the error that propagates is the one of the first
    failing item IN INPUT ORDER, whichever failed first in time."""
    rng = ctx.rng
    n = rng.randint(2, 5)
    items = [f"it{j}" for j in range(n)]
    bad = sorted(rng.sample(range(n), rng.randint(2, n)))
    falsy = i % 2 == 0  # exception objects whose truth value is False (an aggregate error with no recorded reasons)
    excs = {items[j]: (ItemBoomFalsy if falsy else ItemBoom)(f"item {j} failed") for j in bad}
    inner = {"name": "ro", "nodes": [{"k": "fn", "name": "work", "fid": "ro/work", "params": [{"n": "x"}], "outs": ["y"], "async": True}], "bind": {}}
    if rng.random() < 0.5:
        inner["nodes"].append({"k": "fn", "name": "post", "fid": "ro/post", "params": [{"n": "y"}], "outs": ["z"], "async": rng.random() < 0.5})
    via_node = rng.random() < 0.4
    case = {"form": "raise order", "items": items, "bad": bad, "via_node": via_node, "inner": inner}
    for mc, pol in ((None, "last"), (2, "last"), (3, "last"), (None, "rand"), (2, "rand")):
        rt.reset_program()
        if via_node:
            spec = {"name": "outer", "nodes": [{"k": "sub", "name": "ro", "prog": inner, "map": {"over": ["x"], "mode": "zip", "err": "raise"}}], "bind": {}}
            built = build_program(spec)
            kw = {}
        else:
            built = build_program(inner)
            kw = {"map_over": "x"}
        rt.FAIL_IF.clear()
        rt.FAIL_IF["ro/work"] = FailOn("x", excs)
        o = core.execute(built, {"x": list(items)}, "async", sched=rt.Sched(default=pol, rng=rng), max_concurrency=mc, warm=False, **kw)
        rt.FAIL_IF.clear()
        ctx.obs["map_calls"] += 1
        ctx.obs["raise_order_calls"] += 1
        if o.deadlock or o.inconclusive:
            ctx.inconc(o.inconclusive or "deadlock in map")
            continue
        want = excs[items[bad[0]]]
        if o.exc is not want:
            ctx.violation("C10:raise-not-first-failing-item", f"async/k={mc}/{pol}{' (mapping node)' if via_node else ''}: items {bad} fail; raise mode surfaced {o.exc!r}, the first failing item in input order raised {want!r}", {**case, "max_concurrency": mc, "policy": pol})
    # the synchronous runner has one order only: the first failing item in input order stops the map with ITS error
    sync_inner = {"name": "ro", "nodes": [dict(ns, **{"async": False}) for ns in inner["nodes"]], "bind": {}}
    rt.reset_program()
    if via_node:
        built = build_program({"name": "outer", "nodes": [{"k": "sub", "name": "ro", "prog": sync_inner, "map": {"over": ["x"], "mode": "zip", "err": "raise"}}], "bind": {}})
        kw = {}
    else:
        built = build_program(sync_inner)
        kw = {"map_over": "x"}
    rt.FAIL_IF.clear()
    rt.FAIL_IF["ro/work"] = FailOn("x", excs)
    o = core.execute(built, {"x": list(items)}, "sync", warm=False, **kw)
    rt.FAIL_IF.clear()
    ctx.obs["map_calls"] += 1
    ctx.obs["raise_order_calls"] += 1
    want = excs[items[bad[0]]]
    if o.exc is not want:
        ctx.violation("C10:raise-not-first-failing-item", f"sync{' (mapping node)' if via_node else ''}: items {bad} fail{' with falsy exception objects' if falsy else ''}; raise mode gave {o.status} {o.exc!r}, the first failing item in input order raised {want!r}", {**case, "runner": "sync", "falsy_exceptions": falsy})
    else:
        later = [e for e in o.rec.ev if e[0] == "enter" and e[1] == "ro/work" and any(str(v) in items[bad[0] + 1:] for v in e[2].values())]
        if later:
            ctx.violation("C10:raise-not-first-failing-item", f"sync: items after the first failing one ({items[bad[0]]}) were still executed in raise mode: {len(later)} calls", {**case, "runner": "sync", "falsy_exceptions": falsy})
    ctx.case({"form": "raise-order", "n": n, "bad": bad, "node": via_node}, True)


def check_node_clone(ctx, i):
    """clone on a mapping NODE: a broadcast input is shared or deep-copied per item as configured, while a value
    bound on the inner graph always reaches the function as the bound object itself (bind bypasses clone)."""
    rng = ctx.rng
    CFG = ["bound-cfg"]
    inner = {"name": "inner", "nodes": [{"k": "fn", "name": "use", "fid": "inner/use", "params": [{"n": "item"}, {"n": "cfg"}, {"n": "other"}], "outs": ["o"]}], "bind": {"cfg": CFG}}
    ren = rng.random() < 0.5
    ext = {"item": "items", "cfg": "cfg_x" if ren else "cfg", "other": "other_x" if ren else "other"}
    clone = rng.choice([False, True, [ext["cfg"]], [ext["other"]], [ext["cfg"], ext["other"]]])
    sub = {"k": "sub", "name": "inner", "prog": inner, "rename_in": [{k: v for k, v in ext.items() if k != v}], "map": {"over": ["items"], "mode": "zip", "err": "raise", "clone": clone}}
    outer = {"name": "outer", "nodes": [sub], "bind": {}}
    if rng.random() < 0.3:
        outer = {"name": "top", "nodes": [{"k": "sub", "name": "outer", "prog": outer}], "bind": {}}
    n = rng.randint(1, 4)
    for runner in ("sync", "async"):
        other = ["other-value"] if rng.random() < 0.6 else (["other-value"], "t")
        inputs = {"items": [f"it{j}" for j in range(n)], ext["other"]: other}
        # sometimes the caller's value is EQUAL to the bound one but another object: still the caller's
        override = (["cfg-from-caller"] if rng.random() < 0.5 else list(CFG)) if rng.random() < 0.45 else None
        if override is not None:
            inputs[ext["cfg"]] = override  # a run-time value beats the inner binding, also through a mapping node
        sched = rt.Sched(default="rand", rng=rng) if runner == "async" else None
        o = core.execute(core.with_async(outer, runner == "async", rng), inputs, runner, sched=sched, max_concurrency=rng.choice([None, 1, 2]) if runner == "async" else None)
        ctx.obs["map_calls"] += 1
        case = {"form": "map_over node clone", "spec": core.jsonable(outer), "clone": clone, "runner": runner}
        if o.deadlock or o.inconclusive:
            ctx.inconc(o.inconclusive or "deadlock")
            continue
        if o.exc is not None or o.status != "completed":
            ctx.violation("C10:node-run-failed", f"{runner}: clone={clone}: {o.status} {o.exc!r}", case)
            continue
        got = [e[2] for e in o.rec.ev if e[0] == "enter" and e[1].endswith("inner/use")]
        if len(got) != n:
            ctx.violation("C10:node-column:length", f"{runner}: {len(got)} invocations for {n} items", case)
            continue
        ctx.obs["clone_checked"] += 1
        b = o.built
        while "inner" not in b.subs:
            b = next(iter(b.subs.values()))
        bound_obj = b.subs["inner"].graph.inputs.bound["cfg"]  # the very object that was bound (the spec is copied on the way)
        if override is not None:
            ctx.obs["override_checked"] += 1
            cfg_cloned = clone is True or (isinstance(clone, list) and ext["cfg"] in clone)
            if any(kw["cfg"] != override for kw in got):
                ctx.violation("C10:runtime-value-lost-to-inner-binding", f"{runner}: clone={clone}: the caller supplied {override} for an input the inner graph also binds, items received {core.short([kw['cfg'] for kw in got])}", case)
            elif not cfg_cloned and any(kw["cfg"] is not override for kw in got):
                ctx.violation("C10:broadcast-copied", f"{runner}: clone={clone}: the caller's value for the inner-bound input reached a function as a different object", case)
            elif cfg_cloned and any(kw["cfg"] is override for kw in got):
                ctx.violation("C10:clone-not-copied", f"{runner}: clone={clone}: the caller's value for the inner-bound input was shared with an item", case)
        elif any(kw["cfg"] is not bound_obj for kw in got):
            ctx.violation("C10:inner-bound-value-copied", f"{runner}: clone={clone}: the value bound on the inner graph reached an item's function as a different object (bind values bypass clone)", case)
        cloned = clone is True or (isinstance(clone, list) and ext["other"] in clone)
        if not cloned and any(kw["other"] is not other for kw in got):
            ctx.violation("C10:broadcast-copied", f"{runner}: clone={clone}: broadcast value reached a function as a different object", case)
        if cloned and (any(kw["other"] is other for kw in got) or any(kw["other"] != other for kw in got) or len({id(kw["other"]) for kw in got}) != n):
            ctx.violation("C10:clone-not-copied", f"{runner}: clone={clone}: broadcast value was shared between items (or altered)", case)
    ctx.case({"form": "node-clone", "clone": str(clone), "ren": ren, "n": n}, n >= 2)


def check_mapped_inner_default(ctx, i):
    """A node inside the mapped graph mutates its default-valued argument: every item starts from a fresh default,
    through runner.map and through a mapping node alike (item i = a single run on that combination)."""
    import asyncio

    from hypergraph import AsyncRunner, FunctionNode, Graph, SyncRunner

    rng = ctx.rng

    def rec(x, acc=[]):  # noqa: B006 - the mutable default is the point
        acc.append(x)
        return list(acc)

    def rec_d(x, acc={"n": 0}):  # noqa: B006
        acc["n"] += 1
        acc[x] = acc["n"]
        return sorted(acc.items(), key=repr)

    f = rng.choice([rec, rec_d])
    # a clone setting on the mapping node concerns BROADCAST values; the inner default stays the nested run's business
    # (a fresh default per item, and per inner consumer) whatever is cloned
    clone = [False, True, ["other"]][ctx.obs["mapped_inner_default_cases"] % 3]
    ctx.obs["mapped_inner_default_cases"] += 1

    def rec_o(x, other, acc=[]):  # noqa: B006
        acc.append(x)
        return list(acc)

    def second(x, other, acc=[]):  # noqa: B006 - a second inner consumer of the same default
        acc.append(("second", x))
        return list(acc)

    if clone is not False:
        g = Graph([FunctionNode(rec_o, name="rec", output_name="seen"), FunctionNode(second, name="second", output_name="seen2")], name="inner")
        f = rec_o
    else:
        g = Graph([FunctionNode(f, name="rec", output_name="seen")], name="inner")
    items = [f"it{j}" for j in range(rng.randint(2, 4))]
    extra = {"other": ["shared"]} if clone is not False else {}
    single = [SyncRunner().run(g, {"x": it, **extra})["seen"] for it in items]
    node = g.as_node().map_over("x", clone=clone) if clone is not False else g.as_node().map_over("x")
    ctx.obs["mapped_inner_default_clone:" + repr(clone)] += 1
    if rng.random() < 0.5:
        node = node.with_inputs(x="xs")
    key = "xs" if "xs" in node.inputs else "x"
    outer = Graph([node], name="outer")
    for runner in ("sync", "async"):
        for form in ("node", "runner.map"):
            if form == "node":
                r = SyncRunner().run(outer, {key: list(items), **extra}) if runner == "sync" else asyncio.run(AsyncRunner().run(outer, {key: list(items), **extra}))
                got = r.values.get("seen")
            else:
                rs = SyncRunner().map(g, {"x": list(items), **extra}, map_over="x") if runner == "sync" else asyncio.run(AsyncRunner().map(g, {"x": list(items), **extra}, map_over="x"))
                got = [x.values.get("seen") for x in rs]
            ctx.obs["map_calls"] += 1
            ctx.obs["items_compared"] += len(items)
            if got != single:
                ctx.violation("C10:item-mismatch", f"{form}/{runner}: items of a graph whose node mutates its default-valued argument give {got}; single runs on the same combinations give {single}", {"form": form + " with a mutating inner default", "runner": runner, "items": items, "function": f.__name__})
    ctx.case({"form": "mapped-inner-default", "f": f.__name__, "n": len(items)}, True)


def check_map_missing_input(ctx, i):
    """Errors collected (continue mode): an item whose single run is REJECTED (a required input is missing) is one
    FAILED result carrying that error, under both runners; raise mode raises it."""
    import asyncio

    from hypergraph import AsyncRunner, FunctionNode, Graph, SyncRunner

    rng = ctx.rng

    def f(x, w):
        return (x, w)

    g = Graph([FunctionNode(f, name="f", output_name="y")], name="mi")
    items = [f"it{j}" for j in range(rng.randint(1, 3))]
    mc = rng.choice([None, 1, 2])
    for runner in ("sync", "async"):
        for mode in ("continue", "raise"):
            try:
                if runner == "sync":
                    res = SyncRunner().map(g, {"x": list(items)}, map_over="x", error_handling=mode)
                else:
                    res = asyncio.run(AsyncRunner().map(g, {"x": list(items)}, map_over="x", error_handling=mode, **({"max_concurrency": mc} if mc else {})))
                out = [(r.status.value, type(r.error).__name__) for r in res]
            except Exception as e:  # noqa: BLE001
                out = ("raised", type(e).__name__)
            ctx.obs["map_calls"] += 1
            ctx.obs["items_compared"] += len(items)
            want = [("failed", "MissingInputError")] * len(items) if mode == "continue" else ("raised", "MissingInputError")
            if out != want:
                ctx.violation("C10:item-mismatch", f"runner.map/{runner}/{mode}: every item lacks the required input w (a single run raises MissingInputError): got {out}, expected {want}", {"form": "runner.map with a missing required input", "runner": runner, "mode": mode, "items": items, "max_concurrency": mc})
    ctx.case({"form": "map-missing-input", "n": len(items)}, True)


def check_nested_map(ctx, i):
    """A mapping node inside a mapping node: xs = list of lists."""
    rng = ctx.rng
    inner2 = {"name": "leafg", "nodes": [{"k": "fn", "name": "leaf", "fid": "leafg/leaf", "params": [{"n": "y"}, {"n": "k"}], "outs": ["z"]}], "bind": {}}
    mid = {"name": "midg", "nodes": [{"k": "sub", "name": "leafg", "prog": inner2, "map": {"over": ["ys"], "mode": "zip", "err": "raise"}, "rename_in": [{"y": "ys"}]}, {"k": "fn", "name": "agg", "fid": "midg/agg", "params": [{"n": "z"}], "outs": ["w"]}], "bind": {}}
    top = {"name": "topg", "nodes": [{"k": "sub", "name": "midg", "prog": mid, "map": {"over": ["ys"], "mode": "zip", "err": "raise"}}], "bind": {}}
    rows = [[f"y{r}.{c}" for c in range(rng.randint(0, 3))] for r in range(rng.randint(0, 3))]
    inputs = {"ys": rows, "k": "run:k"}
    R = ref.ref_eval(top, inputs)
    exp = ref.visible_values(top, R)
    for runner in ("sync", "async"):
        for mc in (None, 1, 2) if runner == "async" else (None,):
            sched = rt.Sched(default="rand", rng=rng) if runner == "async" else None
            o = core.execute(core.with_async(top, runner == "async", rng), inputs, runner, sched=sched, max_concurrency=mc)
            ctx.obs["map_calls"] += 1
            if o.deadlock or o.inconclusive:
                ctx.inconc(o.inconclusive or "deadlock nested map")
                continue
            if o.exc is not None or o.values != exp:
                ctx.violation("C10:nested-map", f"{runner}/k={mc}: map inside map over {rows}: {o.exc!r} {core.short(o.values, 400)}; expected {core.short(exp, 400)}", {"spec": top, "inputs": inputs, "runner": runner})
    ctx.case({"nestedmap": [len(r) for r in rows]}, len(rows) >= 2)


def mapped_branch_renames(ctx):
    """Directed: a mapping node around an if/else graph whose branches produce DIFFERENT outputs, one or both of them
    renamed on the wrapper; the items alternate between the branches starting with either one, so the first successful
    item does not produce every output a later item produces. Each output list has one entry per item: the item's
    value, or None where the item took the other branch. Also with invalid limits the call is rejected or complete."""
    rng = ctx.rng
    for first in (0, 1):
        for ren in ({"ob": "ob_ext"}, {"oa": "oa_ext"}, {"oa": "oa_ext", "ob": "ob_ext"}, {"oa": "ob", "ob": "oa"}):
            inner = {"name": "inner", "nodes": [
                {"k": "ifelse", "name": "pick", "params": [{"n": "x"}], "key": "x", "t": "ta", "f": "tb", "table": [True, False], "open": False},
                {"k": "fn", "name": "ta", "fid": "inner/ta", "params": [{"n": "x"}], "outs": ["oa"]},
                {"k": "fn", "name": "tb", "fid": "inner/tb", "params": [{"n": "x"}], "outs": ["ob"]},
            ], "bind": {}, "selectors": ["x"]}
            items = [first, 1 - first, first, 1 - first, 1 - first]
            sub = {"k": "sub", "name": "inner", "prog": inner, "rename_out": [dict(ren)], "map": {"over": ["x"], "mode": "zip", "err": "raise"}}
            outer = {"name": "outer", "nodes": [sub], "bind": {}}
            fm = ref.forward_map(["oa", "ob"], [dict(ren)])
            # table index 0 -> True -> ta (oa); rt.sel(int) % 2
            exp = {fm["oa"]: [(("inner/ta", (("x", v),)) if v % 2 == 0 else None) for v in items], fm["ob"]: [(("inner/tb", (("x", v),)) if v % 2 == 1 else None) for v in items]}
            case = {"form": "mapped if/else, wrapper outputs renamed", "rename": ren, "items": items, "spec": outer}
            for runner in ("sync", "async"):
                o = core.execute(core.with_async(outer, runner == "async", rng), {"x": list(items)}, runner, sched=rt.Sched(default="rand", rng=rng) if runner == "async" else None)
                ctx.obs["map_calls"] += 1
                ctx.obs["mapped_branch_rename_runs"] += 1
                ctx.obs["items_compared"] += 2 * len(items)
                if o.exc is not None or o.status != "completed":
                    ctx.violation("C10:node-run-failed", f"{runner}: mapped if/else graph with renamed outputs {ren}: {o.status} {o.exc!r}", {**case, "runner": runner})
                elif o.values != exp:
                    ctx.violation("C10:node-column:entries", f"{runner}: mapped if/else graph, outputs renamed {ren}, items {items}: got {core.short(o.values, 400)}; one entry per item (None for the other branch) gives {core.short(exp, 400)}", {**case, "runner": runner})
    ctx.case({"directed": "mapped-branch-renames"}, True)


def remap_and_many_items(ctx):
    """Directed. (1) A mapping node that has already RUN, from which another mapping node is derived with map_over over a
    different parameter set (more, fewer, other parameters; zip and product): the derived node maps over ITS parameters.
    (2) runner.map over eleven to thirteen combinations with and without a concurrency limit: results stay in input
    order beyond the tenth item."""
    import asyncio
    import itertools

    from hypergraph import AsyncRunner, FunctionNode, Graph, SyncRunner

    def f(a, b, c="c0"):
        return (a, b, c)

    inner = Graph([FunctionNode(f, name="f", output_name="o")], name="inner")
    A, B = [1, 2, 3], [10, 20]
    for runner_kind in ("sync", "async"):
        def run(g, vals):
            return SyncRunner().run(g, vals) if runner_kind == "sync" else asyncio.run(AsyncRunner().run(g, vals))

        first = inner.as_node().map_over("a")
        r0 = run(Graph([first], name="g0"), {"a": A, "b": 7})
        ctx.obs["map_calls"] += 1
        if r0.values.get("o") != [(x, 7, "c0") for x in A]:
            ctx.violation("C10:node-column:entries", f"{runner_kind}: map_over('a'): {r0.values.get('o')!r}", {"form": "remap after run", "runner": runner_kind})
        derived = [
            ("b", "zip", first.map_over("b"), {"a": 5, "b": B}, [(5, y, "c0") for y in B]),
            ("a,b zip", "zip", first.map_over("a", "b"), {"a": A[:2], "b": B}, [(x, y, "c0") for x, y in zip(A[:2], B)]),
            ("b,a product", "product", first.map_over("b", "a", mode="product"), {"a": A, "b": B}, [(x, y, "c0") for y, x in itertools.product(B, A)]),
            ("renamed then b", "zip", first.with_inputs(a="a2").map_over("b"), {"a2": 5, "b": B}, [(5, y, "c0") for y in B]),
        ]
        for label, mode, nd, vals, exp in derived:
            try:
                r = run(Graph([nd], name="g1"), vals)
                got = r.values.get("o")
            except Exception as e:  # noqa: BLE001
                got = f"raised {e!r}"
            ctx.obs["map_calls"] += 1
            ctx.obs["remap_after_run_checks"] += 1
            ctx.obs["items_compared"] += len(exp)
            if got != exp:
                ctx.violation("C10:node-column:entries", f"{runner_kind}: a mapping node derived AFTER its parent had run, map_over({label}): {core.short(got, 300)}; one entry per combination of its own parameters gives {core.short(exp, 300)}", {"form": "remap after run", "derived": label, "runner": runner_kind})
    # (2) more than ten combinations
    def g(x, y=0):
        return (x, y)

    gg = Graph([FunctionNode(g, name="g", output_name="o")], name="many")
    for n_items in (11, 13):
        xs = list(range(n_items))
        exp = [{"o": (x, 0)} for x in xs]
        outs = {"sync": [r.values for r in SyncRunner().map(gg, {"x": xs}, map_over="x")]}
        for k in (None, 1, 2, 4):
            outs[f"async-k{k}"] = [r.values for r in asyncio.run(AsyncRunner().map(gg, {"x": xs}, map_over="x", max_concurrency=k))]
        xs2, ys2 = list(range(4)), list(range(3))
        for label, got in outs.items():
            ctx.obs["map_calls"] += 1
            ctx.obs["items_compared"] += n_items
            if got != exp:
                ctx.violation("C10:map-order", f"{label}: runner.map over {n_items} items returned them as {[v['o'][0] for v in got][:14]}", {"form": "many items", "n": n_items, "variant": label})
        expp = [{"o": (x, y)} for x, y in itertools.product(xs2, ys2)]
        for k in (None, 2):
            got = [r.values for r in asyncio.run(AsyncRunner().map(gg, {"x": xs2, "y": ys2}, map_over=["x", "y"], map_mode="product", max_concurrency=k))]
            ctx.obs["map_calls"] += 1
            if got != expp:
                ctx.violation("C10:map-order", f"async-k{k}: product map over 4x3 combinations returned {[v['o'] for v in got]}", {"form": "many items (product)", "variant": f"async-k{k}"})
    ctx.case({"directed": "remap-and-many-items"}, True)


def run(ctx):
    n = 500 if ctx.tier == "quick" else 9000
    core.WARM_P = 0.0
    if ctx.replay:
        ctx.inconc("C10 replays are re-generated from the seed; re-run the tier with the recorded seed")
        return
    if ctx.shard[0] == 0:
        mapped_branch_renames(ctx)
        remap_and_many_items(ctx)
    for i in range(n):
        r = i % 5
        if r in (0, 1):
            check_runner_map(ctx, i)
        elif r in (2, 3):
            check_map_node(ctx, i)
        else:
            sub = (i // 5) % 6
            if sub in (0, 3):
                check_node_clone(ctx, i)
            elif sub == 1:
                check_mapped_inner_default(ctx, i)
            elif sub == 2:
                check_map_missing_input(ctx, i)
            elif sub == 4:
                check_raise_order(ctx, i)
            else:
                check_nested_map(ctx, i)
