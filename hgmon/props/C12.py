"""C12 - events of every terminated run form a complete, well-nested span tree."""

from __future__ import annotations

import copy

from hgmon import ref as ref_mod
from hgmon import core, families, gen, monitors, rt
from hgmon.build import all_fids

LEVEL = "exploration"
RULE = (
    "all program families (DAG, fallback DAG, gated, loops, nested to depth 3, map_over nodes with zip/product and "
    "0-3 items, cached nodes and cached gates run twice on a shared cache (also a backend whose k-th write fails), wait_for DAGs, runner.map) under the sync runner and the async "
    "runner (natural schedule and random controlled completion orders, max_concurrency 1-2, yield-injecting async "
    "processors that turn every emission into a suspension point), fault-free, with each of 2 sampled nodes failing "
    "(raise and continue) and with a selected-but-missing output under on_missing='error'; rejected calls. Oracle: "
    "a single-pass span grammar over the delivered stream (root RunStart first / RunEnd last, every span opened once "
    "and closed once by the right kind, children closed before parents, nested runs parented to the open span of the "
    "graph node that launches exactly that graph, map items under the map run, cache-hit and route-decision events "
    "inside their spans, cached flag consistent), RunEnd status = status the caller observed, shutdown exactly once "
    "and after the last event, NodeStart count of leaf nodes = function invocations + cache hits. Non-trivial: the "
    "stream has >= 2 node spans; distinct = (program shape, variant)."
    ' Cache backends whose k-th write OR k-th lookup fails.'
    ' Two or three concurrent top-level calls on one AsyncRunner, each with its own processor (natural lock-step schedule and controlled schedules): every processor gets the whole tree of its own call and nothing else.'
    ' Calls with an option value the library refuses (on_missing outside its three values), raise and continue mode: nothing delivered, no body run. Node bodies that re-seed the global PRNG, executed several times in one call (loop, map items).'
    ' Also: map() with max_concurrency 0 / -1 (a rejected call or a whole span tree, never a mixture); two further processors that compare equal to each other, each owed the whole stream and one shutdown; a nested graph pausing in the step of a failing sibling.'
    ' Directed: an unbounded async map over more items than the library accepts is refused without any delivery; a recorder that itself raises once keeps a complete stream and its single shutdown.'
)
ASSUMPTIONS = ["PAUSED calls are outside the statement and are counted, not judged"]
DECIDING = ["streams_checked", "events_checked"]
THOROUGH_SHARDS = 12


def check_stream(ctx, o, spec, tag, label, case, cache_hits_expected=None):
    evs = rt.events_of(o.rec, tag)
    case = {**case, "variant": label}
    if o.deadlock or o.inconclusive:
        ctx.inconc(o.inconclusive or "deadlock")
        return
    rejected = o.exc is not None and not any(e[0] in ("run_begin", "enter") for e in o.rec.ev) and type(o.exc).__name__ in ("MissingInputError", "ValueError", "GraphConfigError", "IncompatibleRunnerError", "TypeError")
    shut = [i for i, e in enumerate(o.rec.ev) if e[0] == "shutdown" and e[1] == tag]
    evidx = [i for i, e in enumerate(o.rec.ev) if e[0] == "ev" and e[1] == tag]
    if rejected:
        ctx.obs["rejected_calls"] += 1
        if evs or shut:
            ctx.violation("C12:rejected-call-emitted", f"{label}: rejected call ({type(o.exc).__name__}) delivered {len(evs)} events and {len(shut)} shutdowns", case)
        return
    if o.status == "paused":
        ctx.obs["paused_not_judged"] += 1
        return
    ctx.obs["streams_checked"] += 1
    ctx.obs["events_checked"] += len(evs)
    bad, st = monitors.span_check(evs, spec)
    for k in ("nested_runs", "map_runs", "cache_hits", "route_decisions", "node_errors"):
        ctx.obs[k] += st[k]
    paused_chain = _paused_chain(o, spec) if bad and spec is not None else None
    for key, what in bad[:2]:
        if paused_chain is not None and key in ("C12:parent-closed-before-child", "C12:run-never-closed", "C12:node-never-closed") and set(st["open_nodes"]) <= paused_chain[0] and set(st["open_runs"]) <= paused_chain[1]:
            # known finding: the run FAILED (a sibling's error won) while a nested graph of the same step had paused;
            # exactly the spans from the pausing interrupt up to the nested-graph node stay open
            key = "C12:open-spans:failed-run-with-paused-nested-sibling"
        ctx.violation(key, f"{label}: {what}", case)
    if len(shut) != 1:
        ctx.violation("C12:shutdown-count", f"{label}: shutdown invoked {len(shut)} times for one top-level call", case)
    elif evidx and shut[0] < evidx[-1]:
        ctx.violation("C12:shutdown-before-last-event", f"{label}: shutdown at log index {shut[0]} but events continue until {evidx[-1]}", case)
    observed = "failed" if (o.exc is not None or o.status == "failed") else "completed"
    if o.status == "map":
        observed = "completed"
    if st.get("root_status") is not None and st["root_status"] != observed:
        ctx.violation("C12:runend-status", f"{label}: root RunEnd says {st['root_status']} but the caller observed {observed} ({o.exc!r})", case)
    # leaf NodeStart count = invocations + cache hits
    from hypergraph.events import NodeStartEvent

    if spec is not None:
        fidx = monitors.fid_index(spec)
        leaf_names = {}
        for fid, (ns, prog) in fidx.items():
            leaf_names[(prog["name"], ns["name"])] = fid
        starts = sum(1 for e in evs if isinstance(e, NodeStartEvent) and (e.graph_name, e.node_name) in leaf_names)
        calls = o.rec.count("enter")
        if starts != calls + st["cache_hits"]:
            ctx.violation("C12:nodestart-count", f"{label}: {starts} NodeStart events of leaf nodes but {calls} function invocations + {st['cache_hits']} cache hits", case)
    return st


def _paused_chain(o, spec):
    """If an interrupt handler of a NESTED graph answered None (a pause) in this execution: the (graph, node) spans and
    the graph names on the way from that interrupt up to the top-level graph - the spans a pause legitimately leaves
    open. None when no nested interrupt paused."""
    fidx = monitors.fid_index(spec)
    lidx = monitors.level_index(spec)
    nodes, graphs = set(), set()
    for e in o.rec.ev:
        if e[0] == "exit" and e[2] is None and e[1] in fidx and fidx[e[1]][0]["k"] == "int":
            ns, prog = fidx[e[1]]
            path = lidx[prog["name"]][1].split("/")  # top graph name, then the wrapper node names down to this level
            if len(path) < 2:
                continue
            nodes.add((prog["name"], ns["name"]))
            graphs.add(prog["name"])
            # enclosing wrappers: the graph-node named path[i] lives in the graph whose path is path[:i]
            by_path = {pp: g for g, (_, pp) in lidx.items()}
            for i in range(1, len(path)):
                owner = by_path.get("/".join(path[:i]))
                if owner is not None:
                    nodes.add((owner, path[i]))
                    if i > 1:
                        graphs.add(owner)
    return (nodes, graphs) if nodes else None


def pause_next_to_failure(ctx, i):
    """A nested graph that pauses (its interrupt's handler answers None) in the same step as an ordinary sibling that
    fails. Whatever outcome the runner reports - PAUSED is outside the statement - a FAILED outcome is a terminated run
    and owes the observer a closed span tree."""
    rng = ctx.rng
    _, ARec = rt.make_processors()
    inner_nodes = [{"k": "int", "name": "ask", "params": [{"n": "x"}], "outs": ["decision"], "handler": "pause"}]
    if rng.random() < 0.5:
        inner_nodes.insert(0, {"k": "fn", "name": "prep", "params": [{"n": "w"}], "outs": ["x"]})
    sub = {"k": "sub", "name": "review", "prog": {"name": "review", "nodes": inner_nodes, "bind": {}}}
    if rng.random() < 0.4:
        sub = {"k": "sub", "name": "wrap", "prog": {"name": "wrap", "nodes": [sub], "bind": {}}}
    boom = {"k": "fn", "name": "boom", "params": [{"n": "q"}], "outs": ["b"]}
    other = {"k": "fn", "name": "fine", "params": [{"n": "q"}], "outs": ["f"]}
    for order in ("failing-first", "nested-first"):
        nodes = [boom, sub, other] if order == "failing-first" else [sub, other, boom]
        spec = {"name": "outer", "nodes": nodes, "bind": {}}
        inputs = {"q": "run:q", "x": "run:x", "w": "run:w"}
        from hgmon import ref

        inputs = {k: v for k, v in inputs.items() if k in ref.ref_inputs(spec)[0]}
        for mode in ("raise", "continue"):
            for sched in (None, rt.Sched(default="rand", rng=rng)):
                o = core.execute(core.with_async(spec, True, rng, 0.6), inputs, "async", sched=sched, processors=[ARec("p", rng, 2)], fail={"outer/boom": RuntimeError("boom")}, error_handling=mode)
                ctx.obs["pause_next_to_failure_runs"] += 1
                ctx.obs["pause_next_to_failure:" + str(o.status).split(":")[0]] += 1
                check_stream(ctx, o, spec, "p", f"pause-next-to-failure/{order}/{mode}", {"family": "pause-next-to-failure", "spec": spec, "inputs": inputs, "order": order, "mode": mode, "fail": ["outer/boom"]})
    ctx.case({"pause-next-to-failure": len(inner_nodes), "wrapped": sub["name"]}, True)


def _bad_shutdown_classes():
    from hypergraph.events import AsyncEventProcessor, EventProcessor

    class BadShutdown(EventProcessor):
        def on_event(self, event):
            pass

        def shutdown(self):
            raise OSError("flush failed")

    class ABadShutdown(AsyncEventProcessor):
        async def on_event_async(self, event):
            pass

        async def shutdown_async(self):
            raise OSError("flush failed")

    return BadShutdown, ABadShutdown


def _BadShutdown():
    return _bad_shutdown_classes()[0]()


def _ABadShutdown():
    return _bad_shutdown_classes()[1]()


class _NoStr(Exception):
    """A node failure whose exception cannot be turned into text (its __str__ raises)."""

    def __str__(self):
        return "failed in %d" % self.args[0]  # args[0] is a str: TypeError


class FlakySetCache:
    """A user-supplied backend whose k-th write fails (quota, full disk): reads and the other writes work."""

    def __init__(self, fail_at, get_fail_at=None):
        from hypergraph import InMemoryCache

        self.inner, self.fail_at, self.sets = InMemoryCache(), fail_at, 0
        self.get_fail_at, self.gets = get_fail_at, 0

    def get(self, key):
        # optionally the k-th LOOKUP fails (backend unreachable): the run fails, with a complete span tree
        self.gets += 1
        if self.gets == self.get_fail_at:
            raise ConnectionError("cache backend: lookup failed")
        return self.inner.get(key)

    def set(self, key, value):
        self.sets += 1
        if self.sets == self.fail_at:
            raise OSError("cache backend: write failed")
        self.inner.set(key, value)


def variants(ctx, fam):
    spec, inputs, kw = fam["spec"], fam["inputs"], dict(fam.get("kw", {}))
    Rec, ARec = rt.make_processors()
    rng = ctx.rng
    if fam["family"] == "gated" and rng.random() < 0.7:
        # cached gates and cached branch nodes: a hit must still put the route decision inside the gate's span
        spec = copy.deepcopy(spec)
        for ns in spec["nodes"]:
            if ns["k"] in ("ifelse", "route", "fn") and rng.random() < 0.7:
                ns["cache"] = True
        fam = {**fam, "family": "cached", "spec": spec}
        ctx.obs["cached_gated_programs"] += 1
    case = {"family": fam["family"], "spec": spec, "inputs": inputs}
    fids = [f for f, ns in all_fids(spec).items() if ns["k"] == "fn"]
    # failing nodes; half of the exceptions have an EMPTY message (a failure is a failure whatever str(e) is)
    fails = [None] + ([{f: (RuntimeError(f"boom {f}") if rng.random() < 0.4 else RuntimeError() if rng.random() < 0.5 else _NoStr(f))} for f in rng.sample(fids, min(2, len(fids)))] if fids else [])
    flaky_at = rng.randint(1, 4) if fam["family"] == "cached" and rng.random() < 0.5 else None
    flaky_get = flaky_at is not None and rng.random() < 0.5
    nstreams = 0
    for fail in fails:
        modes = ("raise",) if fail is None else ("raise", "continue")
        for mode in modes:
            k2 = {**kw, "error_handling": mode}
            if fail:
                k2["fail"] = fail
            cache = None
            if fam["family"] == "cached":
                from hypergraph import InMemoryCache

                cache = InMemoryCache() if flaky_at is None else (FlakySetCache(0, flaky_at) if flaky_get else FlakySetCache(flaky_at))
                ctx.obs["flaky_cache_configs"] += int(flaky_at is not None)
                ctx.obs["flaky_lookup_configs"] += int(flaky_at is not None and flaky_get)
            c2 = {**case, "fail": sorted(fail) if fail else None, "mode": mode}
            runs = 2 if cache is not None else 1
            # a third of the programs are observed by TWO further processors that compare equal to each other
            # (distinct objects): each of them is owed the whole stream and one shutdown
            twins = rng.random() < 0.34
            # half of the executions have, registered FIRST, a processor whose shutdown fails (a final flush that
            # raises): the processors after it are still shut down exactly once
            bad_first = rng.random() < 0.5
            ctx.obs["failing_shutdown_first_configs"] += int(bad_first)
            for rep in range(runs):
                procs = ([_BadShutdown()] if bad_first else []) + [Rec("p")] + ([Rec("q1", eq_group="twins"), Rec("q2", eq_group="twins")] if twins else [])
                o = core.execute(core.with_async(spec, False), inputs, "sync", processors=procs, cache=cache, **k2)
                st = check_stream(ctx, o, spec, "p", f"sync{'-rerun' if rep else ''}", c2)
                if twins:
                    for tg in ("q1", "q2"):
                        check_stream(ctx, o, spec, tg, f"sync{'-rerun' if rep else ''}/equal-processor-{tg}", c2)
                        ctx.obs["equal_processor_streams"] += 1
                nstreams += 1
            aspec = core.with_async(spec, True, rng, 0.7)
            for label, sched, mc in (("async-natural", None, None), ("async-sched", rt.Sched(default="rand", rng=rng), None), ("async-k", rt.Sched(default="last"), rng.choice([1, 2]))):
                procs = ([_ABadShutdown() if rng.random() < 0.5 else _BadShutdown()] if bad_first else []) + [ARec("p", rng, 3)] + ([ARec("q1", rng, 1, eq_group="twins"), ARec("q2", rng, 1, eq_group="twins")] if twins else [])
                o = core.execute(aspec, inputs, "async", sched=sched, max_concurrency=mc, processors=procs, cache=cache, **k2)
                check_stream(ctx, o, spec, "p", label, c2)
                if twins:
                    for tg in ("q1", "q2"):
                        check_stream(ctx, o, spec, tg, f"{label}/equal-processor-{tg}", c2)
                        ctx.obs["equal_processor_streams"] += 1
                nstreams += 1
    # a selected output that is not produced, with on_missing='error' (failure after execution)
    from hgmon import ref

    outs = [e for ns in spec["nodes"] for e in ref.data_output_names(ns)]
    if outs and fam["family"] in ("gated", "dag", "nested", "cached", "compose"):
        # prefer a name that this very execution does NOT produce (the branch not taken): the run's nodes all
        # succeed and the failure arises afterwards, while the result is assembled
        probe = core.execute(core.with_async(spec, False), inputs, "sync", select="**", **kw)
        unproduced = [e for e in outs if probe.exc is None and e not in (probe.values or {})]
        sel = [rng.choice(unproduced or outs)]
        ctx.obs["post_execution_failures_planned"] += int(bool(unproduced))
        for runner in ("sync", "async"):
            o = core.execute(core.with_async(spec, runner == "async", rng), inputs, runner, processors=[(Rec if runner == "sync" else ARec)("p")], select=sel, on_missing="error", error_handling=rng.choice(["raise", "continue"]))
            check_stream(ctx, o, spec, "p", f"{runner}-on_missing_error", {**case, "select": sel})
            nstreams += 1
    # rejected call: an option value the library refuses (on_missing outside ignore / warn / error). Whether the refusal
    # is raised or, with collected errors, comes back as the result's error: the call was rejected, so nothing was
    # delivered and no body ran
    if rng.random() < 0.5:
        for runner in ("sync", "async"):
            for mode in ("raise", "continue"):
                o = core.execute(core.with_async(spec, runner == "async", rng), inputs, runner, processors=[(Rec if runner == "sync" else ARec)("p")], on_missing="raise", error_handling=mode, **kw)
                ctx.obs["invalid_option_calls"] += 1
                err = o.exc if o.exc is not None else o.error
                if isinstance(err, ValueError) and "on_missing" in str(err):
                    evs_ = rt.events_of(o.rec, "p")
                    bodies = o.rec.count("enter")
                    if evs_ or bodies or any(e[0] == "shutdown" for e in o.rec.ev):
                        ctx.violation("C12:rejected-call-emitted", f"{runner}/{mode}: the call was refused for its option value ({err}), yet {len(evs_)} events were delivered and {bodies} node bodies ran", {**case, "option": "on_missing='raise'", "mode": mode})
    # rejected call: one required input omitted
    if inputs:
        k = rng.choice(sorted(inputs))
        less = {a: b for a, b in inputs.items() if a != k}
        o = core.execute(core.with_async(spec, False), less, "sync", processors=[Rec("p")])
        if o.exc is not None and type(o.exc).__name__ == "MissingInputError":
            check_stream(ctx, o, spec, "p", "sync-rejected", {**case, "omitted": k})
    return nstreams


def map_call(ctx, i, force_n=None):
    rng = ctx.rng
    fam = families.dag(rng)
    spec, inputs = fam["spec"], dict(fam["inputs"])
    cands = [k for k in inputs]
    while not cands and force_n is not None:
        fam = families.dag(rng)
        spec, inputs = fam["spec"], dict(fam["inputs"])
        cands = [k for k in inputs]
    if not cands:
        return
    over = rng.choice(cands)
    n = rng.randint(0, 3) if force_n is None else force_n
    inputs[over] = [f"{over}:{j}" for j in range(n)]
    Rec, ARec = rt.make_processors()
    fids = [f for f, ns in all_fids(spec).items() if ns["k"] == "fn"]
    for fail in (None, {rng.choice(fids): RuntimeError("boom")} if fids else None):
        for mode in ("raise", "continue"):
            k2 = {"error_handling": mode, "map_over": over}
            if fail:
                k2["fail"] = fail
            case = {"family": "runner.map", "spec": spec, "inputs": inputs, "over": over, "mode": mode, "fail": sorted(fail) if fail else None}
            o = core.execute(core.with_async(spec, False), inputs, "sync", processors=[Rec("p")], **k2)
            if n > 0:
                check_stream(ctx, o, spec, "p", "sync-map", case)
            else:
                empty_map(ctx, o, "sync-map", case)
            for mc in (None, 2):
                o = core.execute(core.with_async(spec, True, rng), inputs, "async", sched=rt.Sched(default="rand", rng=rng), max_concurrency=mc, processors=[ARec("p", rng, 2)], **k2)
                if n > 0:
                    check_stream(ctx, o, spec, "p", f"async-map-k{mc}", case)
                else:
                    empty_map(ctx, o, f"async-map-k{mc}", case)
    # a map() call with a concurrency limit that admits nothing (0) or is no count at all (-1): whatever the library
    # makes of it - a rejected call (nothing delivered, no shutdown) or a terminated map (a complete span tree, one
    # shutdown) - it must not be a mixture of the two
    if n > 0:
        for bad_limit in (-1, 0):
            case = {"family": "runner.map", "spec": spec, "inputs": inputs, "over": over, "max_concurrency": bad_limit}
            o = core.execute(core.with_async(spec, True, rng), inputs, "async", max_concurrency=bad_limit, processors=[ARec("p", rng, 1)], map_over=over, error_handling="raise")
            ctx.obs["invalid_limit_map_calls"] += 1
            check_stream(ctx, o, spec, "p", f"async-map-k{bad_limit}", case)
    # a map() call rejected for an INTERNAL OVERRIDE under on_internal_override='error' (a value supplied for a name that
    # a node of the graph produces): like run(), map() raises before anything is delivered
    produced = [e for ns in spec["nodes"] for e in ref_mod.data_output_names(ns) if e != over]
    if n > 0 and produced:
        internal = rng.choice(produced)
        for runner in ("sync", "async"):
            o = core.execute(core.with_async(spec, runner == "async", rng), {**inputs, internal: "run:override"}, runner, processors=[(Rec if runner == "sync" else ARec)("p")], map_over=over, error_handling="raise", kwargs_inputs={"on_internal_override": "error"})
            ctx.obs["internal_override_map_calls"] += 1
            if o.exc is not None and not any(e[0] == "enter" for e in o.rec.ev):
                ctx.obs["rejected_calls"] += 1
                evs = rt.events_of(o.rec, "p")
                shut = sum(1 for e in o.rec.ev if e[0] == "shutdown" and e[1] == "p")
                if evs or shut:
                    ctx.violation("C12:rejected-call-emitted", f"{runner}-map: map() rejected for an internal override ({type(o.exc).__name__}) delivered {len(evs)} events ({[type(e).__name__ for e in evs][:4]}) and {shut} shutdowns", {"family": "runner.map", "spec": spec, "inputs": inputs, "over": over, "internal_override": internal})
    # a map() call that cannot run (a required input is missing, errors are raised): rejected, nothing delivered
    from hgmon import ref

    spec2 = {**copy.deepcopy(spec), "bind": {}}  # nothing bound: every input without a default is required
    req2 = [r for r in ref.ref_inputs(spec2)[0] if r != over]
    full2 = {r: f"run:{r}" for r in ref.ref_inputs(spec2)[0]}
    for k in req2[:2]:
        less = {a: b for a, b in full2.items() if a != k}
        less[over] = [f"{over}:r{j}" for j in range(2)]
        for runner in ("sync", "async"):
            o = core.execute(core.with_async(spec2, runner == "async", rng), less, runner, processors=[(Rec if runner == "sync" else ARec)("p")], map_over=over, error_handling="raise")
            if o.exc is not None and type(o.exc).__name__ == "MissingInputError":
                ctx.obs["rejected_calls"] += 1
                ctx.obs["rejected_map_calls"] += 1
                evs = rt.events_of(o.rec, "p")
                shut = sum(1 for e in o.rec.ev if e[0] == "shutdown" and e[1] == "p")
                if evs or shut:
                    ctx.violation("C12:rejected-call-emitted", f"{runner}-map: rejected map() call (MissingInputError for {k}) delivered {len(evs)} events ({[type(e).__name__ for e in evs][:4]}) and {shut} shutdowns", {**case, "omitted": k})
    ctx.case({"map": gen.shape_of(spec), "n": n}, n > 0)


def empty_map(ctx, o, label, case):
    """map() over nothing: no run happened, so no events; the call ended, so exactly one shutdown."""
    ctx.obs["empty_maps_checked"] += 1
    if rt.events_of(o.rec, "p"):
        ctx.violation("C12:empty-map-emitted", f"{label}: runner.map over an empty list delivered events", case)
    shut = sum(1 for e in o.rec.ev if e[0] == "shutdown" and e[1] == "p")
    if shut != 1:
        ctx.violation("C12:shutdown-count", f"{label}: runner.map over an empty list: shutdown invoked {shut} times for one top-level call", case)


def concurrent_calls(ctx, i):
    """Two or three top-level calls on ONE AsyncRunner at the same time (asyncio.gather), each with its OWN processor:
    every processor is owed the complete, well-nested tree of exactly its own call - nested runs and map items parented
    to the node that launched them in the stream they are delivered to - and one shutdown after its last event. Natural
    schedule (plain function bodies: the calls move through their steps in lock-step) and the controlled scheduler."""
    import asyncio

    from hgmon.build import build_program
    from hypergraph import AsyncRunner

    rng = ctx.rng
    fam = families.nested(rng, depth=rng.randint(1, 2)) if i % 2 == 0 else families.mapped(rng, err="continue")
    controlled = rng.random() < 0.5
    spec = core.with_async(fam["spec"], True, rng, 0.6) if controlled else fam["spec"]
    rt.reset_program()
    try:
        built = build_program(spec)
    except Exception as e:  # noqa: BLE001
        ctx.inconc(f"concurrent_calls: program not buildable: {e!r}")
        return
    k = rng.randint(2, 3)
    Rec, ARec = rt.make_processors()
    procs = [(ARec(f"q{j}", rng, 2) if rng.random() < 0.4 else Rec(f"q{j}")) for j in range(k)]
    runner = AsyncRunner()
    rt.install_taps()
    rec = rt.new_rec()
    sched = rt.Sched(default="rand", rng=rng) if controlled else None

    async def one(j):
        tok = rt.TAG.set(f"q{j}")
        try:
            return await runner.run(built.graph, dict(fam["inputs"]), event_processors=[procs[j]])
        finally:
            rt.TAG.reset(tok)

    async def main():
        return await asyncio.gather(*[asyncio.ensure_future(one(j)) for j in range(k)], return_exceptions=True)

    try:
        results = rt.run_async(main, sched=sched) if controlled else asyncio.run(main())
    except rt.Deadlock:
        ctx.violation("C12:concurrent-deadlock", "concurrent calls on one runner deadlocked", {"spec": spec})
        return
    except rt.Inconclusive as e:
        ctx.inconc(str(e))
        return
    case = {"family": fam["family"], "spec": spec, "inputs": fam["inputs"], "calls": k, "controlled": controlled}
    for j, res in enumerate(results):
        tag = f"q{j}"
        evs = rt.events_of(rec, tag)
        ctx.obs["concurrent_call_streams"] += 1
        ctx.obs["streams_checked"] += 1
        ctx.obs["events_checked"] += len(evs)
        if isinstance(res, BaseException):
            ctx.violation("C12:concurrent-call-raised", f"call {j} of {k} concurrent calls raised {res!r}", case)
            return
        bad, st = monitors.span_check(evs, spec)
        for key, what in bad[:1]:
            ctx.violation(key + ":concurrent-calls", f"call {j} of {k} concurrent calls on one runner: {what}", case)
            return
        from hypergraph.events import NodeStartEvent, RunStartEvent

        others = sum(1 for e in evs if isinstance(e, RunStartEvent) and e.parent_span_id is None)
        if others != 1:
            ctx.violation("C12:foreign-events:concurrent-calls", f"processor of call {j} received {others} root RunStart events", case)
            return
        shut = [n_ for n_, e in enumerate(rec.ev) if e[0] == "shutdown" and e[1] == tag]
        last = max((n_ for n_, e in enumerate(rec.ev) if e[0] == "ev" and e[1] == tag), default=-1)
        if len(shut) != 1 or shut[0] < last:
            ctx.violation("C12:shutdown-count" if len(shut) != 1 else "C12:shutdown-before-last-event", f"processor of call {j}: shutdowns at {shut}, last event at {last}", case)
            return
        ctx.obs["nested_runs"] += st["nested_runs"]
    ctx.case({"concurrent": k, "f": fam["family"], "s": gen.shape_of(spec), "ctl": controlled}, True)


def oversize_and_flaky_recorder(ctx):
    """(1) An unbounded AsyncRunner.map() over more items than the library accepts without a limit is REFUSED (ValueError):
    like every rejected call it delivers nothing and shuts nothing down. (2) A recording processor that ALSO raises once
    (after recording, at some event index) is still a registered processor: its own stream stays a complete, well-nested
    tree and it is shut down exactly once - flat, nested and mapped programs, both runners."""
    import asyncio

    from hypergraph import AsyncRunner, FunctionNode, Graph
    from hypergraph.events import AsyncEventProcessor, EventProcessor

    Rec, ARec = rt.make_processors()
    g = Graph([FunctionNode(lambda x: x, name="idn", output_name="y")], name="big")
    rec = rt.new_rec()
    try:
        asyncio.run(AsyncRunner().map(g, {"x": list(range(10001))}, map_over="x", event_processors=[Rec("p")]))
        refused = None
    except ValueError as e:
        refused = e
    except Exception as e:  # noqa: BLE001
        refused = e
    ctx.obs["oversize_map_calls"] += 1
    evs = rt.events_of(rec, "p")
    if refused is not None and (evs or any(e[0] == "shutdown" for e in rec.ev)):
        ctx.violation("C12:rejected-call-emitted", f"an unbounded map over 10001 items was refused ({type(refused).__name__}), yet {len(evs)} events were delivered: {[type(e).__name__ for e in evs[:3]]}", {"program": "oversize unbounded AsyncRunner.map"})
    ctx.obs["rejected_calls"] += int(refused is not None)

    class FlakyRec(EventProcessor):
        def __init__(self, tag, k):
            self.tag, self.k, self.n = tag, k, 0

        def on_event(self, event):
            rt.CUR.add("ev", self.tag, event)
            self.n += 1
            if self.n - 1 == self.k:
                raise RuntimeError("sink hiccup")

        def shutdown(self):
            rt.CUR.add("shutdown", self.tag)

    class AFlakyRec(AsyncEventProcessor, FlakyRec):
        async def on_event_async(self, event):
            FlakyRec.on_event(self, event)

        async def shutdown_async(self):
            FlakyRec.shutdown(self)

    for fam in (families.nested(ctx.rng, depth=1), families.mapped(ctx.rng, err="continue"), families.dag(ctx.rng)):
        spec, inputs = fam["spec"], fam["inputs"]
        for runner in ("sync", "async"):
            base = core.execute(core.with_async(spec, runner == "async", ctx.rng), inputs, runner, processors=[Rec("p")])
            N = len(rt.events_of(base.rec, "p"))
            for k in sorted({0, 1, N // 2, max(N - 2, 0), max(N - 1, 0)}):
                P = (AFlakyRec if runner == "async" and k % 2 else FlakyRec)("p", k)
                o = core.execute(core.with_async(spec, runner == "async", ctx.rng), inputs, runner, processors=[P])
                ctx.obs["flaky_recorder_runs"] += 1
                check_stream(ctx, o, spec, "p", f"{runner}/recorder-that-raised-once-at-{k}", {"family": fam["family"], "spec": spec, "inputs": inputs, "flaky_at": k})
    ctx.case({"directed": "oversize-map-and-flaky-recorder"}, True)


def run(ctx):
    n = 90 if ctx.tier == "quick" else 2000
    if ctx.replay:
        c = ctx.replay["case"]
        fam = {"family": c.get("family", "dag"), "spec": c["spec"], "inputs": c["inputs"], "kw": {}}
        variants(ctx, fam)
        ctx.case("r1")
        ctx.case("r2")
        return
    if ctx.shard[0] == 0:
        # directed: an if/else program with the output of the branch not taken selected under on_missing='error',
        # and a top-level map() over nothing
        for flag in (0, 1):
            dfam = {"family": "gated", "spec": {"name": "dsel", "nodes": [
                {"k": "ifelse", "name": "pick", "params": [{"n": "s"}], "key": "s", "t": "ta", "f": "tb", "table": [True, False], "open": False},
                {"k": "fn", "name": "ta", "params": [{"n": "x"}], "outs": ["oa"]},
                {"k": "fn", "name": "tb", "params": [{"n": "x"}], "outs": ["ob"]},
            ], "bind": {}, "selectors": ["s"]}, "inputs": {"s": flag, "x": "run:x"}, "kw": {}}
            variants(ctx, dfam)
        ctx.case({"directed": "unproduced-selected-output"}, True)
        map_call(ctx, -1, force_n=0)
        # directed: node bodies that re-seed the process-global PRNG with a constant, executed several times within one
        # top-level call (map items, loop iterations, a nested graph): span ids stay unique within the trace
        from hgmon import loops

        t = loops.counter_loop(3, 0, 1, "route", True)
        lspec = copy.deepcopy(t["spec"])
        next(ns for ns in lspec["nodes"] if ns["name"] == "b0")["beh"] = ["reseed_inc", "count"]
        variants(ctx, {"family": "loop", "spec": lspec, "inputs": dict(t["inputs"]), "kw": {}})
        mspec = {"name": "outer", "nodes": [{"k": "sub", "name": "inner", "prog": {"name": "inner", "nodes": [{"k": "fn", "name": "draw", "params": [{"n": "mx"}], "outs": ["drawn"], "beh": ["reseed", "mx"]}, {"k": "fn", "name": "use", "params": [{"n": "drawn"}], "outs": ["used"]}], "bind": {}}, "map": {"over": ["mx"], "mode": "zip", "err": "raise"}}], "bind": {}}
        variants(ctx, {"family": "mapped", "spec": mspec, "inputs": {"mx": ["a", "b", "c"]}, "kw": {}})
        ctx.case({"directed": "reseeding-bodies"}, True)
        # directed: a mapping nested-graph node whose mapped input is an EMPTY list at run time (an upstream filter kept
        # nothing), observed by processors
        for _ in range(2):
            efam = families.mapped(ctx.rng, err="continue")
            for k_ in efam["over"]:
                efam["inputs"][k_] = []
            variants(ctx, efam)
        ctx.case({"directed": "empty-mapping-node"}, True)
        oversize_and_flaky_recorder(ctx)
    for i in range(n):
        if i % 6 == 5:
            map_call(ctx, i)
            continue
        if i % 30 == 8:
            pause_next_to_failure(ctx, i)
            continue
        if i % 10 == 2:
            concurrent_calls(ctx, i // 10)
            continue
        fam = families.gated(ctx.rng, deterministic=True) if i % 7 == 3 else families.rich(ctx.rng)
        k = variants(ctx, fam)
        ctx.case({"f": fam["family"], "s": gen.shape_of(fam["spec"])}, k > 0 and len(fam["spec"]["nodes"]) >= 2, sample={"family": fam["family"], "spec": fam["spec"], "inputs": fam["inputs"]} if i < 2 else None)
