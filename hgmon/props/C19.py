"""C19 - structural mistakes are rejected at graph construction, wherever they occur."""

from __future__ import annotations

import collections.abc as cabc
import copy
import itertools
import typing

from hgmon import core, gen, ref, rt
from hgmon.build import build_program

LEVEL = "fault_enumeration"
RULE = (
    "valid generated graphs (DAGs, gated programs, nested groups, explicit-edge graphs, typed chains in strict mode) x "
    "ONE injected flaw at EVERY applicable position (each gate, each node, each parameter; also inside nested graphs): "
    "unknown gate target (gates with 1-3 real targets, route and if/else, with and without END), a second plainly "
    "unordered non-exclusive producer of a name, 3 producers whose neighbours are ordered but first/last are not, "
    "duplicate node name, non-identifier and keyword node/output names, END as node name, graph name with '.' or '/', "
    "inconsistent defaults (present/absent, different values, None as a value), wait_for on an unproduced name, explicit edge with unknown "
    "source / target / value, strict mode: missing producer or consumer annotation and incompatible types. The flawed "
    "graph must raise GraphConfigError (nothing else, no acceptance), the unflawed base and the plainly ordered / "
    "plainly exclusive duplicates must be accepted. Type relation: closed universe (atoms incl. subclass pair, Any, "
    "X|Y and Union in both orders, Optional, list/dict/tuple/Sequence/Mapping parameterised and bare, one nesting "
    "level) x ALL ordered pairs against a three-valued reference built from the documented rules, plus metamorphic "
    "rules (reflexivity, union order, union distribution); two-node strict graphs accept/reject accordingly. "
    "Non-trivial: a flaw was injected; distinct = (base shape, flaw class, position) resp. type pair."
    ' Directed: two producers that both run on one branch because one reads a name shared with the other branch (both gate kinds, both list orders); a route with three exclusive targets and a join below two of them.'
    ' Also: explicit edges whose endpoints are node OBJECTS (members, non-members, stale pre-rename objects), flat and nested; strict mode: mapped nested inputs renamed before/after map_over or swapped with a broadcast input; two exclusive producers INSIDE a nested graph, the one under test listed first or second.'
)
ASSUMPTIONS = [
    "mistakes that the node constructors own (string 'END' target, emit/wait_for overlap) raise ValueError by documented contract and are not injected",
    "pairs the documentation does not decide (bare incoming generic vs parameterised required) are skipped; an incoming Any satisfies only a required Any",
]
DECIDING = ["flaws_injected", "type_pairs_checked"]
THOROUGH_SHARDS = 12


# ---------------------------------------------------------------------------
# flaw injection
# ---------------------------------------------------------------------------


def flaws_for(spec):
    """Yield (flaw class, position label, mutated spec)."""
    nodes = spec["nodes"]
    prod = ref.producers(spec)
    # unknown gate target
    for i, ns in enumerate(nodes):
        if ns["k"] == "route":
            s = copy.deepcopy(spec)
            g = s["nodes"][i]
            g["targets"] = list(g["targets"]) + ["no_such_node"]
            yield "unknown-gate-target", f"route {ns['name']} ({len(ref.gate_targets(ns))} real targets)", s
            s = copy.deepcopy(spec)
            g = s["nodes"][i]
            g["targets"] = ["no_such_node"] + list(g["targets"])
            yield "unknown-gate-target", f"route {ns['name']} (unknown first)", s
        if ns["k"] == "ifelse":
            for side in ("t", "f"):
                s = copy.deepcopy(spec)
                s["nodes"][i][side] = "no_such_node"
                if s["nodes"][i]["t"] != s["nodes"][i]["f"]:
                    yield "unknown-gate-target", f"ifelse {ns['name']}.{side}", s
    for i, ns in enumerate(nodes):
        if ns["k"] != "fn":
            continue
        # duplicate node name
        others = [o for o in nodes if o is not ns]
        if others:
            s = copy.deepcopy(spec)
            s["nodes"][i]["name"] = others[0]["name"]
            s["nodes"][i]["pyname"] = "dup_fn"
            yield "duplicate-node-name", ns["name"], s
        is_target = bool(ref.controlling(spec).get(ns["name"]))
        for bad in ("not-valid", "class", "END", "1abc"):
            if bad == "END" and is_target:
                continue  # the spec language writes the END sentinel as "END": not expressible for a target
            s = copy.deepcopy(spec)
            old = s["nodes"][i]["name"]
            s["nodes"][i]["name"] = bad
            s["nodes"][i]["pyname"] = "renamed_fn"
            for o in s["nodes"]:
                if o["k"] == "ifelse":
                    for side in ("t", "f"):
                        if o[side] == old:
                            o[side] = bad
                elif o["k"] == "route":
                    o["targets"] = [bad if t == old else t for t in o["targets"]]
                    if o.get("fallback") == old:
                        o["fallback"] = bad
                    o["table"] = [([bad if x == old else x for x in d] if isinstance(d, list) else (bad if d == old else d)) for d in o["table"]]
            if s.get("edges"):
                s["edges"] = [[bad if x == old else x for x in e] for e in s["edges"]]
            yield "illegal-node-name", f"{ns['name']} -> {bad!r}", s
        if ns.get("outs"):
            for bad in ("bad-name", "for"):
                s = copy.deepcopy(spec)
                old = s["nodes"][i]["outs"][0]
                s["nodes"][i]["outs"][0] = bad
                if s.get("edges"):
                    s["edges"] = None
                yield "illegal-output-name", f"{ns['name']}.{old} -> {bad!r}", s
        # wait_for on a name nobody produces
        s = copy.deepcopy(spec)
        s["nodes"][i]["wait"] = list(s["nodes"][i].get("wait", [])) + ["never_produced"]
        yield "wait-for-unproduced", ns["name"], s
        # inconsistent defaults for a parameter shared with another node
        for p in ns["params"]:
            sharers = [o for o in nodes if o is not ns and o["k"] != "sub" and any(q["n"] == p["n"] for q in o.get("params", []))]
            if not sharers:
                continue
            s = copy.deepcopy(spec)
            q = next(x for x in s["nodes"][i]["params"] if x["n"] == p["n"])
            if "d" in q:
                q.pop("d")
                yield "inconsistent-defaults", f"{ns['name']}.{p['n']} default removed", s
                s2 = copy.deepcopy(spec)
                q2 = next(x for x in s2["nodes"][i]["params"] if x["n"] == p["n"])
                q2["d"] = "a-different-default"
                yield "inconsistent-defaults", f"{ns['name']}.{p['n']} different value", s2
                # a default that IS None is a default (not "no default")
                s3 = copy.deepcopy(spec)
                q3 = next(x for x in s3["nodes"][i]["params"] if x["n"] == p["n"])
                q3["d"] = None
                yield "inconsistent-defaults", f"{ns['name']}.{p['n']} different value (None)", s3
            else:
                q["d"] = "only-here"
                s["nodes"][i]["params"].sort(key=lambda x: "d" in x)
                yield "inconsistent-defaults", f"{ns['name']}.{p['n']} default added", s
                s3 = copy.deepcopy(s)
                next(x for x in s3["nodes"][i]["params"] if x["n"] == p["n"])["d"] = None
                yield "inconsistent-defaults", f"{ns['name']}.{p['n']} default None added", s3
        # a second, plainly unordered and non-exclusive producer of one of this node's outputs
        if ns.get("outs") and len(prod.get(ns["outs"][0], [])) == 1 and not ref.controlling(spec).get(ns["name"]):
            s = copy.deepcopy(spec)
            s["nodes"].append({"k": "fn", "name": "rival", "fid": "rival", "params": [{"n": "rival_in"}], "outs": [ns["outs"][0]]})
            if s.get("edges") is None:
                yield "unordered-duplicate-producer", f"rival of {ns['name']}.{ns['outs'][0]}", s
    for bad in ("a.b", "a/b"):
        s = copy.deepcopy(spec)
        s["name"] = bad
        yield "illegal-graph-name", bad, s
    if spec.get("edges"):
        names = [n["name"] for n in nodes]
        e0 = spec["edges"][0]
        s = copy.deepcopy(spec)
        s["edges"].append(["ghost", names[0]])
        yield "edge-unknown-source", "ghost", s
        s = copy.deepcopy(spec)
        s["edges"].append([names[0], "ghost"])
        yield "edge-unknown-target", "ghost", s
        s = copy.deepcopy(spec)
        s["edges"].append([e0[0], e0[1], "not_a_value"])
        yield "edge-unknown-value", f"{e0[0]}->{e0[1]}", s


def wrapper_flaws(spec):
    """The valid program used as a nested-graph node whose WRAPPER carries the mistake (with_outputs / with_name)."""
    outs = [e for ns in spec["nodes"] for e in ref.data_output_names(ns)]
    inner = copy.deepcopy(spec)
    inner["name"] = "innerg"

    def outer(**kw):
        return {"name": "outer", "nodes": [{"k": "sub", "name": "innerg", "prog": copy.deepcopy(inner), **kw}], "bind": {}}

    if outs:
        yield "fine-wrapper-rename", "with_outputs to a fresh identifier", outer(rename_out=[{outs[0]: "renamed_ok"}]), True
        for bad in ("bad-name", "for", "a.b"):
            yield "illegal-output-name", f"nested-graph node output {outs[0]} -> {bad!r} via with_outputs", outer(rename_out=[{outs[0]: bad}]), False
    # an ordering signal emitted INSIDE the nested graph is not produced by the wrapper node: waiting for it outside
    # is a wait on a name nobody produces
    fn0 = next((ns for ns in inner["nodes"] if ns["k"] == "fn"), None)
    if fn0 is not None:
        with_emit = copy.deepcopy(inner)
        next(ns for ns in with_emit["nodes"] if ns["name"] == fn0["name"])["emit"] = list(fn0.get("emit", [])) + ["inner_sig"]
        o2 = {"name": "outer", "nodes": [{"k": "sub", "name": "innerg", "prog": with_emit}, {"k": "fn", "name": "outside_waiter", "params": [{"n": "ow_in"}], "outs": ["ow_out"], "wait": ["inner_sig"]}], "bind": {}}
        yield "wait-for-unproduced", "outer wait_for on a signal emitted inside a nested graph", o2, False
        o3 = copy.deepcopy(o2)
        o3["nodes"][1]["wait"] = []
        yield "fine-wrapper-rename", "the same graph without the outer wait", o3, True
    yield "fine-wrapper-rename", "with_name to a hyphenated name", outer(rename_name="inner-g2"), True
    for bad in ("a.b", "a/b"):
        yield "illegal-node-name", f"nested-graph node renamed to {bad!r} via with_name", outer(rename_name=bad), False


def must_accept_variants(spec):
    """Duplicates that are plainly fine: ordered by an emit/wait_for chain, or the two branches of one if/else."""
    nodes = spec["nodes"]
    fn = next((ns for ns in nodes if ns["k"] == "fn" and ns.get("outs") and not ref.controlling(spec).get(ns["name"])), None)
    if fn is None or spec.get("edges"):
        return
    o = fn["outs"][0]
    if len(ref.producers(spec).get(o, [])) != 1:
        return
    s = copy.deepcopy(spec)
    tgt = next(x for x in s["nodes"] if x["name"] == fn["name"])
    tgt["emit"] = list(tgt.get("emit", [])) + ["first_done"]
    s["nodes"].append({"k": "fn", "name": "second", "fid": "second", "params": [{"n": "second_in"}], "outs": [o], "wait": ["first_done"]})
    yield "ordered-duplicate", s, True
    # three producers: totally ordered chain (accept) / first and last unordered (reject)
    s3 = copy.deepcopy(s)
    sec = next(x for x in s3["nodes"] if x["name"] == "second")
    sec["emit"] = ["second_done"]
    s3["nodes"].append({"k": "fn", "name": "third", "fid": "third", "params": [{"n": "third_in"}], "outs": [o], "wait": ["second_done"]})
    yield "three-ordered-duplicates", s3, True
    s4 = copy.deepcopy(spec)
    t4 = next(x for x in s4["nodes"] if x["name"] == fn["name"])
    t4["emit"] = list(t4.get("emit", [])) + ["first_done"]
    s4["nodes"].append({"k": "fn", "name": "middle", "fid": "middle", "params": [{"n": "middle_in"}], "outs": [o], "wait": ["first_done", "last_done"]})
    s4["nodes"].append({"k": "fn", "name": "last", "fid": "last", "params": [{"n": "last_in"}], "outs": [o], "emit": ["last_done"]})
    yield "first-last-unordered", s4, False
    # list order must not matter for that verdict
    s5 = copy.deepcopy(s4)
    mid = next(x for x in s5["nodes"] if x["name"] == "middle")
    s5["nodes"].remove(mid)
    s5["nodes"].append(mid)
    yield "first-last-unordered(middle listed last)", s5, False


def independent_gates_cases():
    """Two producers of one name, each a branch of a DIFFERENT, independent gate: not exclusive (both can run in one
    run), whichever branch position each sits in. Yields (label, spec, must_accept)."""
    for kind in ("ifelse", "route"):
        for s1 in ("t1", "f1"):
            for s2 in ("t2", "f2"):
                for repaired in (False, True):
                    outs = {"t1": "o_t1", "f1": "o_f1", "t2": "o_t2", "f2": "o_f2"}
                    outs[s1] = "x"
                    outs[s2] = "x2" if repaired else "x"
                    if kind == "ifelse":
                        gates = [{"k": "ifelse", "name": "g1", "params": [{"n": "p"}], "t": "t1", "f": "f1", "table": [True, False]},
                                 {"k": "ifelse", "name": "g2", "params": [{"n": "q"}], "t": "t2", "f": "f2", "table": [True, False]}]
                    else:
                        gates = [{"k": "route", "name": "g1", "params": [{"n": "p"}], "targets": ["t1", "f1"], "table": ["t1", "f1"]},
                                 {"k": "route", "name": "g2", "params": [{"n": "q"}], "targets": ["t2", "f2"], "table": ["t2", "f2"]}]
                    nodes = gates + [{"k": "fn", "name": n, "params": [{"n": "p" if n.endswith("1") else "q"}], "outs": [outs[n]]} for n in ("t1", "f1", "t2", "f2")]
                    yield f"{kind} gates, producers in {s1}/{s2}{' (repaired)' if repaired else ''}", {"name": "g", "nodes": nodes, "bind": {}}, repaired


def shared_name_reach_cases():
    """Two producers m, p of `r` that BOTH run on one branch: branch b2 produces the shared name `w` (also produced,
    first, by branch b1) and `u`; m reads w, p reads u.  m is downstream of both branches, so m and p are not exclusive
    (and not ordered): must be rejected whichever order the branches are listed in.  Repaired (p -> r2) is accepted.
    Yields (label, spec, must_accept)."""
    for kind in ("ifelse", "route"):
        for first in ("b1", "b2"):
            for order in ("mp", "pm"):
                for repaired in (False, True):
                    gate = ({"k": "ifelse", "name": "g", "params": [{"n": "k"}], "t": "b1", "f": "b2", "table": [True, False]} if kind == "ifelse"
                            else {"k": "route", "name": "g", "params": [{"n": "k"}], "targets": ["b1", "b2"], "table": ["b1", "b2"]})
                    b1 = {"k": "fn", "name": "b1", "params": [{"n": "k"}], "outs": ["w"]}
                    b2 = {"k": "fn", "name": "b2", "params": [{"n": "k"}], "outs": ["w", "u"]}
                    m = {"k": "fn", "name": "m", "params": [{"n": "w"}], "outs": ["r"]}
                    p = {"k": "fn", "name": "p", "params": [{"n": "u"}], "outs": ["r2" if repaired else "r"]}
                    nodes = [gate] + ([b1, b2] if first == "b1" else [b2, b1]) + ([m, p] if order == "mp" else [p, m])
                    yield f"{kind}, {first} listed first, {order}{' (repaired)' if repaired else ''}", {"name": "g", "nodes": nodes, "bind": {}}, repaired


def graphnode_name_collision_cases():
    """A nested-graph node called `foo` next to ANOTHER node that outputs a value called `foo` (the library's own rule: a
    nested-graph node's name must not be an output name of another node - paths like `foo.x` would be ambiguous). The
    nested graph also outputs `foo` itself (allowed on its own); the two producers are exclusive branches of one gate.
    The verdict must not depend on which of the two is listed first. Repaired (other -> foo2) is accepted.
    Yields (label, spec, must_accept)."""
    for kind in ("ifelse", "route"):
        for order in ("sub-first", "other-first", "gate-last"):
            for repaired in (False, True):
                gate = ({"k": "ifelse", "name": "g", "params": [{"n": "k"}], "t": "foo", "f": "other", "table": [True, False]} if kind == "ifelse"
                        else {"k": "route", "name": "g", "params": [{"n": "k"}], "targets": ["foo", "other"], "table": ["foo", "other"]})
                sub = {"k": "sub", "name": "foo", "prog": {"name": "foo", "nodes": [{"k": "fn", "name": "mk", "params": [{"n": "k"}], "outs": ["foo"]}], "bind": {}}}
                other = {"k": "fn", "name": "other", "params": [{"n": "k"}], "outs": ["foo2" if repaired else "foo"]}
                nodes = {"sub-first": [gate, sub, other], "other-first": [gate, other, sub], "gate-last": [other, sub, gate]}[order]
                yield f"{kind}, {order}{' (repaired)' if repaired else ''}", {"name": "g", "nodes": nodes, "bind": {}}, repaired


def exclusive_branches_in_cycle_cases():
    """The two branches of ONE single-target gate write the same name, and the gate reads that name: a(x0)->x, b(x0)->x,
    gate(x) -> a | b | END (a loop that alternates between two strategies). They are exclusive gate branches - the
    constructor must accept the graph, as it accepts it when the same edges are spelled out. Yields (label, spec)."""
    for kind in ("route", "ifelse"):
        for order in (0, 1):
            a = {"k": "fn", "name": "a", "params": [{"n": "x0"}], "outs": ["x"]}
            b = {"k": "fn", "name": "b", "params": [{"n": "x0"}], "outs": ["x"]}
            gate = ({"k": "route", "name": "g", "params": [{"n": "x"}], "targets": ["a", "b", "END"], "table": ["a", "b", "END"], "key": "x"} if kind == "route"
                    else {"k": "ifelse", "name": "g", "params": [{"n": "x"}], "t": "a", "f": "b", "table": [True, False], "key": "x"})
            yield f"{kind}, {'a' if order == 0 else 'b'} listed first", {"name": "g", "nodes": ([a, b] if order == 0 else [b, a]) + [gate], "bind": {}}


def three_target_cases():
    """A route with THREE exclusive targets b1,b2,b3.  join(t, i=None) is downstream of b1 and b2 (not of b3); p(t) is
    downstream of b1 only; both produce `r`.  On branch b1 both run: not exclusive, not ordered -> rejected for every
    listing order of the targets and of the nodes.  Repaired (p -> r2) is accepted.  Yields (label, spec, must_accept)."""
    import itertools

    for perm in itertools.permutations(["b1", "b2", "b3"]):
        for order in ("jp", "pj"):
            for repaired in (False, True):
                gate = {"k": "route", "name": "g", "params": [{"n": "k"}], "targets": list(perm), "table": list(perm)}
                b1 = {"k": "fn", "name": "b1", "params": [{"n": "k"}], "outs": ["t"]}
                b2 = {"k": "fn", "name": "b2", "params": [{"n": "k"}], "outs": ["i"]}
                b3 = {"k": "fn", "name": "b3", "params": [{"n": "k"}], "outs": ["o3"]}
                j = {"k": "fn", "name": "join", "params": [{"n": "t", "d": None}, {"n": "i", "d": None}], "outs": ["r"]}
                p = {"k": "fn", "name": "p", "params": [{"n": "t", "d": None}], "outs": ["r2" if repaired else "r"]}
                nodes = [gate, b1, b2, b3] + ([j, p] if order == "jp" else [p, j])
                yield f"targets {'/'.join(perm)}, {order}{' (repaired)' if repaired else ''}", {"name": "g", "nodes": nodes, "bind": {}}, repaired


def try_build(spec):
    from hypergraph import GraphConfigError

    rt.reset_program()
    try:
        build_program(spec)
        return "accepted", None
    except GraphConfigError as e:
        return "config-error", e
    except Exception as e:  # noqa: BLE001
        return "other-error", e


def check_base(ctx, spec, label, i):
    base_case = {"base": spec, "program": label}
    st, e = try_build(spec)
    if st != "accepted":
        ctx.violation("C19:valid-graph-rejected", f"{label}: valid base graph rejected: {e!r}", base_case)
        return
    n = 0
    for cls, pos, bad in flaws_for(spec):
        st, e = try_build(bad)
        ctx.obs["flaws_injected"] += 1
        ctx.obs["flaw:" + cls] += 1
        n += 1
        case = {"flawed": bad, "flaw": cls, "position": pos, "program": label}
        if st == "accepted":
            ctx.violation("C19:flaw-accepted:" + cls, f"{label}: {cls} at {pos} was accepted by the constructor", case)
        elif st == "other-error":
            ctx.violation("C19:flaw-wrong-error:" + cls + ":" + type(e).__name__, f"{label}: {cls} at {pos} raised {type(e).__name__}: {str(e)[:160]} instead of GraphConfigError", case)
        ctx.case({"b": gen.shape_of(spec), "flaw": cls, "pos": pos}, True, sample=case if (i < 1 and n < 3) else None)
    for name, variant, ok in must_accept_variants(spec):
        st, e = try_build(variant)
        ctx.obs["flaws_injected" if not ok else "must_accept_checked"] += 1
        case = {"variant": variant, "kind": name, "program": label}
        if ok and st != "accepted":
            ctx.violation("C19:plainly-fine-duplicate-rejected", f"{label}: {name} rejected: {e!r}", case)
        if not ok and st == "accepted":
            ctx.violation("C19:flaw-accepted:unordered-among-three", f"{label}: {name}: three producers of one name, first and last neither ordered nor exclusive, accepted", case)
        if not ok and st == "other-error":
            ctx.violation("C19:flaw-wrong-error:unordered-among-three", f"{label}: {name}: raised {e!r}", case)
    if not spec.get("edges"):
        for cls, pos, variant, ok in wrapper_flaws(spec):
            st, e = try_build(variant)
            ctx.obs["flaws_injected" if not ok else "must_accept_checked"] += 1
            ctx.obs["flaw_wrapper"] += 0 if ok else 1
            case = {"flawed": variant, "flaw": cls, "position": pos, "program": label}
            if ok and st != "accepted":
                ctx.violation("C19:valid-graph-rejected:wrapper", f"{label}: {pos}: rejected: {e!r}", case)
            elif not ok and st == "accepted":
                ctx.violation("C19:flaw-accepted:wrapper:" + cls, f"{label}: {pos} was accepted by the constructor", case)
            elif not ok and st == "other-error":
                ctx.violation("C19:flaw-wrong-error:wrapper:" + cls + ":" + type(e).__name__, f"{label}: {pos} raised {type(e).__name__}: {str(e)[:160]} instead of GraphConfigError", case)
    # the same flaws one level down: the flawed graph is the inner graph of a nested node
    inner_flaws = list(flaws_for(spec))
    ctx.rng.shuffle(inner_flaws)
    for cls, pos, bad in inner_flaws[: (3 if ctx.tier == "quick" else 12)]:
        if cls in ("illegal-graph-name",):
            continue
        inner = copy.deepcopy(bad)
        inner["name"] = "innerg"
        outer = {"name": "outer", "nodes": [{"k": "sub", "name": "innerg", "prog": inner}], "bind": {}}
        st, e = try_build(outer)
        ctx.obs["flaws_injected"] += 1
        ctx.obs["flaw_nested"] += 1
        if st == "accepted":
            ctx.violation("C19:flaw-accepted:nested:" + cls, f"{label}: {cls} at {pos} inside a nested graph was accepted", {"flawed": outer, "flaw": cls})
        elif st == "other-error":
            ctx.violation("C19:flaw-wrong-error:nested:" + cls, f"{label}: {cls} at {pos} inside a nested graph raised {e!r}", {"flawed": outer, "flaw": cls})


# ---------------------------------------------------------------------------
# type universe
# ---------------------------------------------------------------------------


class Base:
    pass


class Derived(Base):
    pass


ATOMS = [int, str, bool, float, type(None), Base, Derived]


def universe():
    U = list(ATOMS) + [typing.Any]
    small = [int, str, Base, Derived, type(None)]
    for a, b in itertools.permutations(small, 2):
        U.append(a | b)
        U.append(typing.Union[a, b])
    for a in small[:4]:
        U.append(typing.Optional[a])
    for a in [int, str, Base, Derived, typing.Any]:
        U.append(list[a])
        U.append(cabc.Sequence[a])
    for k, v in [(str, int), (str, str), (int, Base), (str, Derived)]:
        U.append(dict[k, v])
        U.append(cabc.Mapping[k, v])
    for a, b in [(int, str), (str, int), (Base, Derived), (Derived, Base)]:
        U.append(tuple[a, b])
    U += [list, dict, tuple[int]]
    U += [list[int | str], list[list[int]], dict[str, list[int]], list[Derived] | None, typing.Optional[list[int]]]
    return U


def is_union(t):
    import types

    return isinstance(t, types.UnionType) or typing.get_origin(t) is typing.Union


def R(a, b):
    """Three-valued reference: True / False / None (not decided by the documented rules)."""
    if a == b:
        return True
    if b is typing.Any:
        return True
    if a is typing.Any and not is_union(b):
        # the documented conditions for compatibility (identical, required Any, union members, generic origin and
        # arguments, subclassing) are read as exhaustive: a PRODUCER typed Any satisfies none of them for a concrete
        # consumer type - Any is a wildcard on the required side only
        return False
    if is_union(a):
        rs = [R(m, b) for m in typing.get_args(a)]
        if any(r is False for r in rs):
            return False
        return True if all(r is True for r in rs) else None
    if is_union(b):
        rs = [R(a, m) for m in typing.get_args(b)]
        if any(r is True for r in rs):
            return True
        return False if all(r is False for r in rs) else None
    oa, ob = typing.get_origin(a) or a, typing.get_origin(b) or b
    if not (isinstance(oa, type) and isinstance(ob, type)):
        return None
    if not issubclass(oa, ob):
        return False
    aa, ab = typing.get_args(a), typing.get_args(b)
    if not ab:
        return True  # bare required accepts any arguments / plain classes: subclassing
    if not aa:
        return None  # bare incoming vs parameterised required: not documented
    if len(aa) != len(ab):
        return False if oa is ob else None
    rs = [R(x, y) for x, y in zip(aa, ab)]
    if any(r is False for r in rs):
        return False
    return True if all(r is True for r in rs) else None


def check_types(ctx):
    from hypergraph._typing import is_type_compatible

    U = universe()
    for a in U:
        for b in U:
            exp = R(a, b)
            if exp is None:
                ctx.obs["type_pairs_unspecified"] += 1
                continue
            ctx.obs["type_pairs_checked"] += 1
            got = is_type_compatible(a, b)
            if got != exp:
                ctx.violation("C19:type-relation:" + ("accepts" if got else "rejects"), f"is_type_compatible({a!r}, {b!r}) = {got}, the documented rules give {exp}", {"incoming": repr(a), "required": repr(b)})
    # metamorphic rules on all pairs
    for a in U:
        if not is_type_compatible(a, a):
            ctx.violation("C19:type-not-reflexive", f"is_type_compatible({a!r}, {a!r}) is False", {"t": repr(a)})
    small = [int, str, Base, Derived, type(None), list[int], list[str]]
    for x, y in itertools.permutations(small, 2):
        for c in U:
            ctx.obs["metamorphic_checked"] += 1
            l1, l2 = is_type_compatible(x | y, c), is_type_compatible(y | x, c)
            if l1 != l2:
                ctx.violation("C19:type-union-order", f"{x!r}|{y!r} vs {y!r}|{x!r} against {c!r}: {l1} / {l2}", {})
            if R(x, c) is not None and R(y, c) is not None and l1 != (is_type_compatible(x, c) and is_type_compatible(y, c)):
                ctx.violation("C19:type-union-distribution", f"R({x!r}|{y!r}, {c!r}) = {l1} but R({x!r},.)={is_type_compatible(x, c)} and R({y!r},.)={is_type_compatible(y, c)}", {})
            r1, r2 = is_type_compatible(c, x | y), is_type_compatible(c, y | x)
            if r1 != r2:
                ctx.violation("C19:type-union-order", f"{c!r} against {x!r}|{y!r} vs {y!r}|{x!r}: {r1} / {r2}", {})
    ctx.case({"types": "universe", "n": len(U)}, True, sample={"universe_size": len(U), "pairs": len(U) ** 2})
    ctx.case({"types": "metamorphic"}, True)
    return U


def check_strict_graphs(ctx, U):
    """Two-node (and nested) strict graphs accept/reject per the reference relation."""
    from hypergraph import FunctionNode, Graph, GraphConfigError

    rng = ctx.rng
    pairs = [(a, b) for a in U for b in U if R(a, b) is not None]
    sample = pairs if ctx.tier == "thorough" and ctx.shard == (0, 1) else rng.sample(pairs, min(len(pairs), 260 if ctx.tier == "quick" else 1500))
    for a, b in sample:
        exp = R(a, b)
        for nested in (False, True, "renamed-nested-output", "swapped-nested-outputs", "non-first-producer", "with-ordering-edge", "nested-first-of-two-producers", "nested-second-of-two-producers"):
            rt.reset_program()
            vname = "val2" if nested == "renamed-nested-output" else "val_b" if nested == "swapped-nested-outputs" else "val"
            prod = rt.make_function("prod", "t/prod", [{"n": "seed", "ann": int}], ret_ann=a)
            cons = rt.make_function("cons", "t/cons", [{"n": vname, "ann": b}], ret_ann=int)
            p = FunctionNode(prod, name="prod", output_name="val")
            c = FunctionNode(cons, name="cons", output_name="out")
            try:
                if nested == "renamed-nested-output":
                    # the producer sits in a nested graph whose output is renamed by the wrapper; half of the time
                    # the wrapper node was already used (its annotations computed) before it is renamed
                    inner = Graph([p], name="inner_t", strict_types=True)
                    gn = inner.as_node()
                    if rng.random() < 0.5:
                        Graph([gn], strict_types=True)
                        gn.get_output_type("val")
                    Graph([gn.with_outputs(val="val2"), c], strict_types=True)
                elif nested == "swapped-nested-outputs":
                    # two outputs swap their names on the wrapper: the consumer of 'val_b' receives the inner 'val'
                    class _Other:
                        pass

                    p2 = FunctionNode(rt.make_function("prod2", "t/prod2", [{"n": "seed", "ann": int}], ret_ann=_Other), name="prod2", output_name="val_b")
                    inner = Graph([p, p2], name="inner_t", strict_types=True)
                    gn = inner.as_node()
                    if rng.random() < 0.5:
                        Graph([gn], strict_types=True)
                        gn.get_output_type("val_b")
                    Graph([gn.with_outputs(val="val_b", val_b="val"), c], strict_types=True)
                elif nested == "with-ordering-edge":
                    # the typed data edge plus an emit/wait_for edge between the same graph's nodes: the signal
                    # carries no value and needs no type
                    pe = FunctionNode(prod, name="prod", output_name="val", emit="made")
                    w = FunctionNode(rt.make_function("waiter", "t/waiter", [{"n": "other", "ann": int}], ret_ann=int), name="waiter", output_name="w_out", wait_for="made")
                    Graph([pe, c, w], strict_types=True)
                elif nested == "non-first-producer":
                    # two exclusive branches produce the value; the one under test is listed second,
                    # the first one has exactly the consumer's type
                    from hypergraph import ifelse

                    @ifelse(when_true="prod0", when_false="prod")
                    def pick(flag: bool) -> bool:
                        return flag

                    p0 = FunctionNode(rt.make_function("prod0", "t/prod0", [{"n": "seed", "ann": int}], ret_ann=b), name="prod0", output_name="val")
                    Graph([pick, p0, p, c], strict_types=True)
                elif nested in ("nested-first-of-two-producers", "nested-second-of-two-producers"):
                    # the two exclusive producers sit INSIDE a nested graph; the other one has exactly the consumer's
                    # type, the one under test is listed first / second in the inner graph
                    from hypergraph import ifelse

                    @ifelse(when_true="prod0", when_false="prod")
                    def pick(flag: bool) -> bool:
                        return flag

                    p0 = FunctionNode(rt.make_function("prod0", "t/prod0", [{"n": "seed", "ann": int}], ret_ann=b), name="prod0", output_name="val")
                    inner = Graph([pick, p, p0] if nested == "nested-first-of-two-producers" else [pick, p0, p], name="inner_t", strict_types=True)
                    Graph([inner.as_node(), c], strict_types=True)
                elif nested:
                    inner = Graph([p], name="inner_t", strict_types=True)
                    Graph([inner.as_node(), c], strict_types=True)
                else:
                    Graph([p, c], strict_types=True)
                got = True
            except GraphConfigError:
                got = False
            except Exception as e:  # noqa: BLE001
                ctx.violation("C19:strict-wrong-error", f"strict graph {a!r} -> {b!r} raised {e!r}", {"incoming": repr(a), "required": repr(b), "nested": nested})
                continue
            ctx.obs["strict_graphs_checked"] += 1
            if got != exp:
                ctx.violation("C19:strict-graph:" + ("accepted" if got else "rejected") + (":" + nested if isinstance(nested, str) else ""), f"strict_types graph (nested={nested}) with producer type {a!r} and consumer type {b!r} was {'accepted' if got else 'rejected'}; the documented relation says {'compatible' if exp else 'incompatible'}", {"incoming": repr(a), "required": repr(b), "nested": nested})
    # a nested-graph node MAPPED over a typed parameter: the producer must deliver list[...] of it
    msample = [(a, b) for a, b in sample if R(a, b) is not None][: (60 if ctx.tier == "quick" else 600)]
    for a, b in msample:
        for shape in ("list-of-a", "bare-a"):
            try:
                la, lb = list[a], list[b]
            except TypeError:
                continue
            exp = R(la, lb) if shape == "list-of-a" else R(a, lb)
            if exp is None:
                continue
            rt.reset_program()
            # how the mapping node is mounted: as it is, with the mapped input renamed after / before map_over, or with
            # the mapped input and a broadcast one swapped in one call - the list type follows the mapped parameter
            style = ("plain", "rename-after", "rename-before", "swap")[ctx.obs["strict_mapped_checked"] % 4]
            feed = {"plain": "val", "rename-after": "items", "rename-before": "items", "swap": "other"}[style]
            prod = rt.make_function("prod", "t/prod", [{"n": "seed", "ann": int}], ret_ann=(la if shape == "list-of-a" else a))
            cons = rt.make_function("cons", "t/cons", [{"n": "val", "ann": b}, {"n": "other", "ann": bytes, "d": b"x"}], ret_ann=int)
            try:
                inner = Graph([FunctionNode(cons, name="cons", output_name="out")], name="inner_m", strict_types=True)
                gn = inner.as_node()
                if style == "plain":
                    gn = gn.map_over("val")
                elif style == "rename-after":
                    gn = gn.map_over("val").with_inputs(val="items")
                elif style == "rename-before":
                    gn = gn.with_inputs(val="items").map_over("items")
                else:
                    gn = gn.map_over("val").with_inputs(val="other", other="val")
                ctx.obs["strict_mapped_style:" + style] += 1
                Graph([FunctionNode(prod, name="prod", output_name=feed), gn], strict_types=True)
                got = True
            except GraphConfigError:
                got = False
            except Exception as e:  # noqa: BLE001
                ctx.violation("C19:strict-wrong-error", f"strict mapped graph {a!r} -> {b!r} raised {e!r}", {"incoming": repr(a), "required": repr(b), "nested": "mapped-" + shape})
                continue
            ctx.obs["strict_graphs_checked"] += 1
            ctx.obs["strict_mapped_checked"] += 1
            if got != exp:
                ctx.violation("C19:strict-graph:" + ("accepted" if got else "rejected") + ":mapped-input", f"strict_types graph: producer type {(la if shape == 'list-of-a' else a)!r} feeding a nested-graph node mapped over a parameter of type {b!r} was {'accepted' if got else 'rejected'}; the documented relation on list[...] says {'compatible' if exp else 'incompatible'}", {"incoming": repr(a), "required": repr(b), "nested": "mapped-" + shape, "mount": style})
    # missing annotations
    for missing in ("producer", "consumer"):
        rt.reset_program()
        prod = rt.make_function("prod", "t/prod", [{"n": "seed", "ann": int}], ret_ann=(None if missing == "producer" else int))
        cons = rt.make_function("cons", "t/cons", [{"n": "val"} if missing == "consumer" else {"n": "val", "ann": int}], ret_ann=int)
        try:
            Graph([FunctionNode(prod, name="prod", output_name="val"), FunctionNode(cons, name="cons", output_name="out")], strict_types=True)
            ctx.violation("C19:flaw-accepted:missing-annotation", f"strict graph with missing {missing} annotation accepted", {"missing": missing})
        except GraphConfigError:
            ctx.obs["flaws_injected"] += 1
        except Exception as e:  # noqa: BLE001
            ctx.violation("C19:flaw-wrong-error:missing-annotation", f"missing {missing} annotation raised {e!r}", {"missing": missing})
    ctx.case({"strict": "graphs"}, True)


def nested_consumer_types(ctx):
    """Strict mode, an edge into a nested graph that holds TWO consumers of the input with different annotations
    (1-2 levels deep): the producer must satisfy both, whatever the order of the inner node list."""
    from hypergraph import FunctionNode, Graph, GraphConfigError

    def mk(name, ann, out):
        def f(x):
            return x

        f.__annotations__ = {"x": ann, "return": ann}
        f.__name__ = name
        return FunctionNode(f, name=name, output_name=out)

    def prod_of(t):
        def prod():
            return None

        prod.__annotations__ = {"return": t}
        return FunctionNode(prod, name="prod", output_name="x")

    for depth in (1, 2):
        for first in ("int", "str"):
            for ptype, ok in ((str, False), (int, False), (bool, False)):
                a, b = mk("i1", int, "o1"), mk("i2", str, "o2")
                inner = Graph([a, b] if first == "int" else [b, a], name="inner")
                for _ in range(depth - 1):
                    inner = Graph([inner.as_node()], name="mid")
                ctx.obs["flaws_injected"] += 1
                try:
                    Graph([prod_of(ptype), inner.as_node()], strict_types=True)
                    ctx.violation("C19:strict-graph:accepted:nested-second-consumer", f"depth {depth}, inner consumers listed {first}-first: a {ptype.__name__} producer feeds inner consumers annotated int AND str, accepted", {"depth": depth, "first": first, "producer": ptype.__name__})
                except GraphConfigError:
                    pass
                except Exception as e:  # noqa: BLE001
                    ctx.violation("C19:flaw-wrong-error:nested-second-consumer", f"raised {e!r}", {"depth": depth, "first": first})
            # repaired: both consumers take what the producer gives
            a, b = mk("i1", int, "o1"), mk("i2", int, "o2")
            inner = Graph([a, b] if first == "int" else [b, a], name="inner")
            for _ in range(depth - 1):
                inner = Graph([inner.as_node()], name="mid")
            ctx.obs["must_accept_checked"] += 1
            try:
                Graph([prod_of(bool), inner.as_node()], strict_types=True)
            except Exception as e:  # noqa: BLE001
                ctx.violation("C19:valid-graph-rejected:nested-consumers", f"depth {depth}: bool producer, two int consumers inside a nested graph: {e!r}", {"depth": depth, "first": first})
    ctx.case({"strict": "nested-consumers"}, True)


def explicit_edges_by_object(ctx):
    """Explicit edges whose endpoints are written as node OBJECTS. An object that is a member of the graph is fine; an
    object that is not (a node forgotten from the list) is an unknown node; the stale pre-rename object of a member
    stands for that member, so an edge naming a value the member no longer produces / consumes is an unknown value.
    Flat and inside a nested graph."""
    from hypergraph import FunctionNode, Graph
    from hypergraph.graph.validation import GraphConfigError

    def mk(name, params, out):
        fid = f"eo/{name}"
        fn = rt.make_function(name, fid, [{"n": p} for p in params])
        rt.KIND[fid] = "fn"
        return FunctionNode(fn, name=name, output_name=out)

    rt.reset_program()
    a, b, c, ghost = mk("a", ["x"], "y"), mk("b", ["y"], "z"), mk("c", ["z"], "w"), mk("ghost", ["q"], "y")
    a2 = a.with_outputs(y="y2")
    b2 = b.with_inputs(y="y2")
    b3 = b.with_inputs(y="yin")
    cases = [
        # (label, nodes, edges, must_accept)
        ("member objects", [a, b, c], [(a, b), (b, c)], True),
        ("member objects, 3-tuples", [a, b, c], [(a, b, "y"), (b, c, "z")], True),
        ("renamed members, current value", [a2, b2, c], [(a2, b2, "y2"), (b2, c)], True),
        ("source object not in the graph", [a, b, c], [(ghost, b), (b, c)], False),
        ("target object not in the graph", [a, b], [(a, b), (b, c)], False),
        ("source object not in the graph, 3-tuple", [a, b, c], [(ghost, b, "y"), (b, c)], False),
        ("stale source object names the value before with_outputs", [a2, b2, c], [(a, b2, "y"), (b2, c)], False),
        ("stale target object names the value before with_inputs", [a, b3, c], [(a, b, "y"), (b3, c)], False),
    ]
    for nested in (False, True):
        for label, nodes, edges, ok in cases:
            ctx.obs["flaws_injected" if not ok else "valid_built"] += 1
            ctx.obs["edge_object_cases"] += 1
            case = {"program": "explicit edges by node object", "label": label, "nested": nested}
            try:
                g = Graph(list(nodes), edges=list(edges), name="eo")
                if nested:
                    Graph([g.as_node(), mk("tail", ["w"], "t")], name="outer")
                err = None
            except GraphConfigError as e:
                err = e
            except Exception as e:  # noqa: BLE001
                ctx.violation("C19:raw-exception:" + type(e).__name__, f"explicit edges by object ({label}): the constructor raised {e!r} instead of a configuration error", case)
                continue
            if ok and err is not None:
                ctx.violation("C19:valid-rejected", f"explicit edges by object ({label}): a valid graph was rejected: {str(err)[:200]}", case)
            elif not ok and err is None:
                ctx.violation("C19:accepted:edge-endpoint-object", f"explicit edges by object ({label}): the constructor accepted the graph", case)
    ctx.case({"directed": "explicit-edges-by-object"}, True)


def constructor_argument_forms(ctx):
    """Directed. (1) The node collection given as an iterator / generator / tuple: a mistake in it (two unordered
    producers of one name, an unknown gate target) is rejected exactly as when it is given as a list, a valid one is
    accepted and has the same nodes and outputs. (2) One node declaring the same output name twice. (3) An explicit
    edge whose value part is malformed (None, a number, a list holding a non-string) is a configuration error, not a
    raw TypeError."""
    from hypergraph import END, FunctionNode, Graph, RouteNode
    from hypergraph.graph.validation import GraphConfigError

    def mk(name, params, out):
        fid = f"cf/{name}"
        fn = rt.make_function(name, fid, [{"n": p} for p in params])
        rt.KIND[fid] = "fn"
        return FunctionNode(fn, name=name, output_name=out)

    rt.reset_program()
    a, b, c = mk("a", ["x"], "r"), mk("b", ["y"], "r"), mk("c", ["r"], "w")
    ok_nodes = [mk("p", ["x"], "m"), mk("q", ["m"], "n")]
    gate_fn = rt.make_function("g", "cf/g", [{"n": "x"}])
    rt.KIND["cf/g"] = "gate"
    bad_gate = [RouteNode(gate_fn, targets=["p", "nowhere", END], name="g"), ok_nodes[0]]
    forms = {"list": list, "tuple": tuple, "iterator": iter, "generator": lambda ns: (n for n in ns), "dict-values": lambda ns: {n.name: n for n in ns}.values()}
    for form, conv in forms.items():
        for label, nodes, must_accept in (("two-unordered-producers", [a, b, c], False), ("unknown-gate-target", bad_gate, False), ("valid-chain", ok_nodes, True)):
            ctx.obs["flaws_injected" if not must_accept else "valid_built"] += 1
            ctx.obs["constructor_form_cases"] += 1
            case = {"program": "node collection as " + form, "content": label}
            try:
                g = Graph(conv(nodes), name="cf")
                err = None
            except GraphConfigError as e:
                err = e
            except Exception as e:  # noqa: BLE001
                ctx.violation("C19:raw-exception:" + type(e).__name__, f"Graph(<{form} of nodes>) with {label}: raised {e!r} instead of a configuration error", case)
                continue
            if must_accept:
                if err is not None:
                    ctx.violation("C19:valid-rejected", f"Graph(<{form}>) of a valid chain was rejected: {str(err)[:160]}", case)
                elif sorted(g.nodes) != ["p", "q"] or set(g.outputs) != {"m", "n"} or tuple(g.inputs.required) != ("x",):
                    ctx.violation("C19:valid-built-wrong", f"Graph(<{form}>) of a valid chain has nodes {sorted(g.nodes)}, outputs {g.outputs}, inputs {g.inputs}", case)
            elif err is None:
                ctx.violation("C19:accepted:" + label + ":collection-form", f"Graph(<{form} of nodes>) accepted a graph with {label} that Graph(<list>) rejects", case)
    # (2) one node, one output name twice
    ctx.obs["flaws_injected"] += 1
    try:
        fn2 = rt.make_function("twice", "cf/twice", [{"n": "x"}])
        rt.KIND["cf/twice"] = "fn"
        Graph([FunctionNode(fn2, name="twice", output_name=("o", "o"))], name="cf2")
        ctx.violation("C19:accepted:duplicate-output-name-in-node", "a node declaring output_name=('o', 'o') was accepted by the node and by the graph constructor", {"program": "duplicate output name inside one node"})
    except (GraphConfigError, ValueError):
        pass  # (node constructors report their own mistakes as ValueError by contract)
    except Exception as e:  # noqa: BLE001
        ctx.violation("C19:raw-exception:" + type(e).__name__, f"duplicate output name inside one node: raised {e!r}", {"program": "duplicate output name inside one node"})
    # (3) malformed value part of an explicit edge
    p_, q_ = ok_nodes
    for bad in (None, 5, ["m", 7], [None], {"m": 1}.keys()):
        ctx.obs["flaws_injected"] += 1
        case = {"program": "explicit edge with a malformed value part", "value": repr(bad)}
        try:
            Graph([p_, q_], edges=[(p_, q_, bad)], name="cf3")
            if not (hasattr(bad, "__iter__") and all(isinstance(v, str) for v in bad)):
                ctx.violation("C19:accepted:malformed-edge-values", f"edges=[(p, q, {bad!r})] was accepted", case)
        except GraphConfigError:
            pass
        except Exception as e:  # noqa: BLE001
            ctx.violation("C19:raw-exception:" + type(e).__name__, f"edges=[(p, q, {bad!r})]: raised {e!r} instead of a configuration error", case)
    # (4) two producers that share TWO output names: a data edge between them that carries only contested names
    # orders nothing (rejected); one that carries an uncontested name does (accepted)
    for label, n1, n2, ok in (
        ("consumer-of-one-contested-name", mk("p1", ["a"], ("x", "y")), mk("p2", ["x"], ("x", "y")), False),
        ("consumer-of-the-other-contested-name", mk("p1", ["a"], ("x", "y")), mk("p2", ["y"], ("x", "y")), False),
        ("circular-pair", mk("p1", ["y"], ("x", "y")), mk("p2", ["x"], ("x", "y")), False),
        ("ordered-by-an-uncontested-name", mk("p1", ["a"], ("x", "y", "z")), mk("p2", ["z"], ("x", "y")), True),
    ):
        for order in ((n1, n2), (n2, n1)):
            ctx.obs["flaws_injected" if not ok else "valid_built"] += 1
            case = {"program": "two producers sharing two output names", "shape": label, "order": [n.name for n in order]}
            try:
                Graph(list(order), name="cf4")
                err = None
            except GraphConfigError as e:
                err = e
            except Exception as e:  # noqa: BLE001
                ctx.violation("C19:raw-exception:" + type(e).__name__, f"two producers sharing two names ({label}): raised {e!r}", case)
                continue
            if ok and err is not None:
                ctx.violation("C19:valid-rejected", f"two producers sharing two names, ordered by an uncontested value: rejected: {str(err)[:160]}", case)
            elif not ok and err is None:
                ctx.violation("C19:accepted:duplicate-producers:edge-of-contested-names-only", f"two unordered producers of x and y ({label}, listed {[n.name for n in order]}) were accepted: the only edge between them carries a contested name", case)
    ctx.case({"directed": "constructor-argument-forms"}, True)


def swapped_consumer_inputs(ctx):
    """Strict mode and default consistency follow PARALLEL renames (one with_inputs() call / one rename_inputs= argument
    whose targets are other sources: a swap, a shift): the annotation and the default of a parameter are found under its
    NEW external name. A producer that does not fit the parameter now behind the name is rejected, the fitting one is
    accepted; a shared name whose readers disagree about having a default is rejected. Function nodes and gates, flat
    and inside a nested graph."""
    from hypergraph import FunctionNode, Graph, GraphConfigError, IfElseNode

    def cons(x: int, y: str) -> str:
        return y * x

    def cons_d(x: int, y: str = "d") -> str:
        return y * x

    def gate_f(x: int, y: str) -> bool:
        return True

    def p_int() -> int:
        return 1

    def p_str() -> str:
        return "s"

    def other(x: str, q: int) -> int:  # reads the name `x` WITHOUT a default
        return q

    def mk_consumer(kind, how):
        if kind == "fn":
            nd = FunctionNode(cons, name="c", output_name="r") if how != "ctor" else FunctionNode(cons, name="c", output_name="r", rename_inputs={"x": "y", "y": "x"})
        else:
            nd = IfElseNode(gate_f, when_true="t", when_false="t2", name="c") if how != "ctor" else IfElseNode(gate_f, when_true="t", when_false="t2", name="c", rename_inputs={"x": "y", "y": "x"})
        if how == "with_inputs":
            nd = nd.with_inputs(x="y", y="x")
        elif how == "shift":
            nd = nd.with_inputs(x="y", y="z")  # external y -> param x (int); external z -> param y (str)
        return nd

    targets = [FunctionNode(lambda: 0, name="t", output_name="to"), FunctionNode(lambda: 0, name="t2", output_name="to2")]
    for kind in ("fn", "gate"):
        for how in ("with_inputs", "ctor", "shift"):
            for nested in (False, True):
                if nested and kind == "gate":
                    continue
                # after the rename the external name `y` is the int parameter x (swap and shift alike)
                for prod, fits in ((p_int, True), (p_str, False)):
                    c = mk_consumer(kind, how)
                    extra = targets if kind == "gate" else []
                    consumer_side = [Graph([c], name="box").as_node()] if nested else [c]
                    producer = FunctionNode(prod, name="p", output_name="y")
                    case = {"flawed": f"{kind} consumer with inputs renamed by {how}, producer of 'y' typed {prod.__annotations__['return']}, nested={nested}", "flaw": "strict-type-mismatch-behind-parallel-rename" if not fits else "none"}
                    ctx.obs["flaws_injected" if not fits else "must_accept_checked"] += 1
                    try:
                        Graph([producer, *consumer_side, *extra], strict_types=True, name="sw")
                        st = "accepted"
                    except GraphConfigError as e:
                        st = "config-error"
                        err = e
                    except Exception as e:  # noqa: BLE001
                        st = "other-error"
                        err = e
                    if fits and st != "accepted":
                        ctx.violation("C19:valid-graph-rejected:parallel-rename-types", f"{case['flawed']}: external name y is the int parameter now; rejected: {str(err)[:160]!r}", case)
                    elif not fits and st == "accepted":
                        ctx.violation("C19:flaw-accepted:strict-type-mismatch-behind-parallel-rename", f"{case['flawed']}: a str producer feeding the int parameter (behind the name y after the rename) was accepted in strict mode", case)
                    elif not fits and st == "other-error":
                        ctx.violation("C19:flaw-wrong-error:strict-type-mismatch-behind-parallel-rename", f"{case['flawed']}: raised {err!r}", case)
    # defaults follow the swap as well: cons_d(x, y='d') swapped -> external x carries the default; `other` reads x without one
    for how in ("with_inputs", "ctor"):
        c = FunctionNode(cons_d, name="c", output_name="r").with_inputs(x="y", y="x") if how == "with_inputs" else FunctionNode(cons_d, name="c", output_name="r", rename_inputs={"x": "y", "y": "x"})
        ctx.obs["flaws_injected"] += 1
        case = {"flawed": f"cons_d(x, y='d') swapped by {how} next to other(x, q): x has a default in one reader only", "flaw": "inconsistent-defaults-behind-parallel-rename"}
        try:
            Graph([c, FunctionNode(other, name="o", output_name="oo")], name="swd")
            ctx.violation("C19:flaw-accepted:inconsistent-defaults-behind-parallel-rename", f"{case['flawed']}: accepted", case)
        except GraphConfigError:
            pass
        except Exception as e:  # noqa: BLE001
            ctx.violation("C19:flaw-wrong-error:inconsistent-defaults-behind-parallel-rename", f"{case['flawed']}: raised {e!r}", case)
    ctx.case({"directed": "swapped-consumer-inputs"}, True)


def run(ctx):
    n = 28 if ctx.tier == "quick" else 600
    core.WARM_P = 0.0
    if ctx.replay:
        c = ctx.replay["case"]
        if "flawed" in c:
            st, e = try_build(c["flawed"])
            if st != "config-error":
                ctx.violation("C19:replay", f"replayed flaw: {st} {e!r}", c)
        ctx.case("r1")
        ctx.case("r2")
        return
    if ctx.shard[0] == 0:
        U = check_types(ctx)
        check_strict_graphs(ctx, U)
        nested_consumer_types(ctx)
        explicit_edges_by_object(ctx)
        constructor_argument_forms(ctx)
        swapped_consumer_inputs(ctx)
        for label, spec, ok in independent_gates_cases():
            st, e = try_build(spec)
            ctx.obs["flaws_injected" if not ok else "must_accept_checked"] += 1
            case = {"flawed": spec, "flaw": "duplicate-producer-under-independent-gates", "position": label}
            if ok and st != "accepted":
                ctx.violation("C19:valid-graph-rejected:independent-gates", f"{label}: rejected: {e!r}", case)
            elif not ok and st == "accepted":
                ctx.violation("C19:flaw-accepted:duplicate-producer-under-independent-gates", f"{label}: two producers of 'x' that can both run were accepted", case)
            elif not ok and st == "other-error":
                ctx.violation("C19:flaw-wrong-error:duplicate-producer-under-independent-gates", f"{label}: raised {e!r}", case)
        ctx.case({"directed": "independent-gates"}, True)
        for label, spec, ok in shared_name_reach_cases():
            st, e = try_build(spec)
            ctx.obs["flaws_injected" if not ok else "must_accept_checked"] += 1
            case = {"flawed": spec, "flaw": "duplicate-producer-downstream-of-shared-name", "position": label}
            if ok and st != "accepted":
                ctx.violation("C19:valid-graph-rejected:shared-name-reach", f"{label}: rejected: {e!r}", case)
            elif not ok and st == "accepted":
                ctx.violation("C19:flaw-accepted:duplicate-producer-downstream-of-shared-name", f"{label}: two producers of 'r' that both run on branch b2 were accepted", case)
            elif not ok and st == "other-error":
                ctx.violation("C19:flaw-wrong-error:duplicate-producer-downstream-of-shared-name", f"{label}: raised {e!r}", case)
        ctx.case({"directed": "shared-name-reach"}, True)
        for label, spec, ok in graphnode_name_collision_cases():
            st, e = try_build(spec)
            ctx.obs["flaws_injected" if not ok else "must_accept_checked"] += 1
            case = {"flawed": spec, "flaw": "nested-graph-node-name-is-another-nodes-output", "position": label}
            if ok and st != "accepted":
                ctx.violation("C19:valid-graph-rejected:graphnode-name-collision-repaired", f"{label}: rejected: {e!r}", case)
            elif not ok and st == "accepted":
                ctx.violation("C19:flaw-accepted:graphnode-name-collides-with-output", f"{label}: a nested-graph node named like another node's output was accepted (the other listing order is rejected)", case)
            elif not ok and st == "other-error":
                ctx.violation("C19:flaw-wrong-error:graphnode-name-collides-with-output", f"{label}: raised {e!r}", case)
        ctx.case({"directed": "graphnode-name-collision"}, True)
        for label, spec in exclusive_branches_in_cycle_cases():
            st, e = try_build(spec)
            ctx.obs["must_accept_checked"] += 1
            if st != "accepted":
                ctx.violation("C19:valid-graph-rejected:exclusive-branches-in-cycle", f"{label}: the two branches of one gate write the name the gate reads; rejected: {str(e)[:160]!r}", {"flawed": spec, "flaw": "none (valid graph)", "position": label})
        ctx.case({"directed": "exclusive-branches-in-cycle"}, True)
        for label, spec, ok in three_target_cases():
            st, e = try_build(spec)
            ctx.obs["flaws_injected" if not ok else "must_accept_checked"] += 1
            case = {"flawed": spec, "flaw": "duplicate-producer-on-one-of-three-branches", "position": label}
            if ok and st != "accepted":
                ctx.violation("C19:valid-graph-rejected:three-targets", f"{label}: rejected: {e!r}", case)
            elif not ok and st == "accepted":
                ctx.violation("C19:flaw-accepted:duplicate-producer-on-one-of-three-branches", f"{label}: join and p both run on branch b1 and both produce 'r', yet the graph was accepted", case)
            elif not ok and st == "other-error":
                ctx.violation("C19:flaw-wrong-error:duplicate-producer-on-one-of-three-branches", f"{label}: raised {e!r}", case)
        ctx.case({"directed": "three-targets"}, True)
    for i in range(n):
        rng = ctx.rng
        r = rng.random()
        if r < 0.35:
            spec, label = gen.gen_dag(rng, n_nodes=(3, 6), p_default_input=0.5, p_gen=0.0), "dag"
        elif r < 0.75:
            spec, label = gen.gen_gated(rng, deterministic=rng.random() < 0.5), "gated"
        else:
            spec, label = gen.with_explicit_edges(gen.gen_gated(rng, deterministic=True)), "explicit-edges"
        check_base(ctx, spec, label, i)
