"""C15 - max_concurrency bounds all node executions globally and never deadlocks."""

from __future__ import annotations

from collections import Counter

from hgmon import core, gen, ref, rt

LEVEL = "exploration"
RULE = (
    "wide programs: 1-4 parallel function nodes per level (async coroutines, async generators, plain sync functions "
    "mixed), nested graphs to depth 0-3, map_over nodes with fan-out 1-4 at any level (also a mapping node inside a "
    "mapped graph), and runner.map over 1-4 items of such a program; max_concurrency k in 1..4 and unlimited; in 40% of the programs 1-3 leaf "
    "functions (plain sync ones preferred) raise, errors raised or collected. The "
    "controlled scheduler parks every async body and releases one only when the event loop is exactly quiescent, so at "
    "each quiescent point as many bodies are open as the framework allows (worst case for the bound, and the state in "
    "which a permit held across a nested run deadlocks); release policies FIFO, LIFO, seeded random; optional "
    "yield-injecting processors; every fifth case is a SEQUENCE in one task: a bounded map/run that fails, then a run "
    "with a smaller limit. Oracle: the in-flight counter of function-node bodies (incremented at function entry, "
    "decremented at return/raise, maintained by the instrumented functions) never exceeds k; no logical deadlock "
    "(quiescent, nothing parked, call unfinished); result equals the unlimited run's result. Non-trivial: >= k+1 bodies "
    "could run concurrently (unlimited peak > k); distinct = (program shape, k, policy, form)."
    ' Asynchronous auto-answering interrupt handlers are bodies too; two burst schedules per limit release a second body 1-7 loop passes after the first without waiting for quiescence.'
    ' Directed: a nested chain next to 2-4 siblings queued on the limiter, k = 1..3, 12 (quick) / 60 (thorough) burst schedules each: a release, a woken waiter and a new arrival in one loop turn.'
    ' Directed: runner.map in raise mode with several failing items, each with its own error, k = 1..4, later failures finishing first: same end as the unlimited call.'
    ' Directed: sibling nested graphs with async interrupt handlers (k = 1..3); a sweep over small body delays under the NATURAL asyncio schedule (nested chain next to three siblings, 128 delay assignments x k = 1..3) with an in-body counter.'
    ' One AsyncRunner used for bounded, contended calls from successive event loops.'
)
ASSUMPTIONS = [
    "the bound is on function-node bodies and asynchronous interrupt-handler bodies; gate functions and synchronous handlers are instantaneous decisions that cannot overlap anything",
    "quiescence is read exactly from the event loop's ready queue",
]
DECIDING = ["limited_runs", "quiescent_points", "bodies_entered"]
THOROUGH_SHARDS = 12


def gen_wide(rng, depth, name="w0", prefix="", counter=None, mapped=False, coro_only=None):
    counter = counter if counter is not None else [0]
    if coro_only is None:
        # one program in six has NO `async def` anywhere: every suspending body is a plain def that returns a coroutine
        coro_only = rng.random() < 0.17
    P = prefix
    nodes = []
    w = rng.randint(1, 4)
    outs = []
    for i in range(w):
        kind = rng.random()
        ns = {"k": "fn", "name": f"{P}f{i}", "params": [{"n": "x"}], "outs": [f"{P}v{i}"]}
        if coro_only:
            ns["async"] = "coro" if kind < 0.8 else False
        elif kind < 0.45:
            ns["async"] = True
        elif kind < 0.55:
            ns["async"] = "coro"
        elif kind < 0.75:
            ns["async"] = True
            ns["gen"] = True
        else:
            ns["async"] = False
        nodes.append(ns)
        outs.append(f"{P}v{i}")
    if not mapped and not coro_only and rng.random() < 0.25:
        # an auto-answering ASYNC interrupt handler: its body suspends like any node body and must hold a permit
        nodes.append({"k": "int", "name": f"{P}ask", "params": [{"n": "x"}], "outs": [f"{P}ans"], "handler": ["auto", f"ans:{P}"], "async": True})
    inputs = {"x": "run:x"}
    if depth > 0:
        for j in range(rng.randint(1, 2)):
            counter[0] += 1
            cn = f"n{counter[0]}"
            do_map = rng.random() < 0.5
            inner, inner_inputs = gen_wide(rng, depth - 1, name=cn, prefix=f"{cn}_", counter=counter, mapped=mapped or do_map, coro_only=coro_only)
            sub = {"k": "sub", "name": cn, "prog": inner}
            if do_map:
                # mapped over a list: fan-out at this level
                fan = rng.randint(1, 4)
                sub["rename_in"] = [{"x": f"{cn}_xs"}]
                sub["map"] = {"over": [f"{cn}_xs"], "mode": "zip", "err": "raise"}
                inputs[f"{cn}_xs"] = [f"item{q}" for q in range(fan)]
            # every other inner input becomes an input here under its own name
            for k2, v2 in inner_inputs.items():
                if k2 != "x":
                    inputs[k2] = v2
            nodes.append(sub)
    rng.shuffle(nodes)
    return {"name": name, "nodes": nodes, "bind": {}}, inputs


def fill_flags(spec):
    """with_async must not override the mixed sync/async choice made by the generator."""
    return spec


class Boom(Exception):
    pass


def norm(o):
    if o.exc is not None:
        return ("raised", type(o.exc).__name__, str(o.exc))
    if o.status == "map":
        return ("map", [(s, v, (type(e).__name__, str(e)) if e else None) for s, v, e in o.values])
    return (o.status, o.values, (type(o.error).__name__, str(o.error)) if o.error else None)


def one(ctx, i):
    rng = ctx.rng
    depth = rng.randint(0, 3)
    use_map = rng.random() < 0.3
    # (every seventh program has no `async def` at all: its suspending bodies are plain defs returning coroutines)
    spec, inputs = gen_wide(rng, depth, mapped=use_map, coro_only=True if i % 7 == 3 else None)
    form = "run"
    map_kw = {}
    if use_map:
        form = "runner.map"
        n = rng.randint(1, 4)
        inputs = dict(inputs)
        inputs["x"] = [f"x{q}" for q in range(n)]
        map_kw = {"map_over": "x"}
    case = {"spec": spec, "inputs": core.jsonable(inputs), "form": form, "depth": depth}
    # failing nodes (a permit must be given back on every exit path): 1-3 leaf functions raise, sync ones preferred
    fkw = {}
    if rng.random() < 0.4:
        from hgmon.build import all_fids

        fids = all_fids(spec)
        sync_f = [f for f, ns in fids.items() if ns["k"] == "fn" and not ns.get("async")]
        pool = sync_f if sync_f and rng.random() < 0.7 else list(fids)
        chosen = rng.sample(pool, rng.randint(1, min(3, len(pool))))
        fkw = {"fail": {f: Boom(f) for f in chosen}, "error_handling": rng.choice(["continue", "continue", "raise"])}
        case["fail"] = chosen
        case["error_handling"] = fkw["error_handling"]
        ctx.obs["programs_with_failing_nodes"] += 1
        map_kw = {**map_kw, **fkw}
    Rec, ARec = rt.make_processors()
    base = core.execute(spec, inputs, "async", sched=rt.Sched(default="first"), **map_kw)
    if base.deadlock or base.inconclusive or (base.exc is not None and not fkw):
        if base.deadlock:
            ctx.violation("C15:deadlock-unlimited", "unlimited run deadlocked", case)
        else:
            ctx.inconc(base.inconclusive or f"baseline failed: {base.exc!r}")
        return
    peak_unlimited = base.rec.max_inflight_fn
    b = norm(base)
    for k in (1, 2, 3, 4):
        for pol in ("first", "last", "rand", "burst", "burst"):
            if ctx.tier == "quick" and pol == "rand" and rng.random() < 0.5:
                continue
            sched = rt.Sched(default=pol, rng=rng) if pol != "burst" else rt.Sched(default="rand", rng=rng, burst=(0.6, 6))
            procs = [ARec("y", rng, 2)] if rng.random() < 0.3 else None
            o = core.execute(spec, inputs, "async", sched=sched, max_concurrency=k, processors=procs, **map_kw)
            ctx.obs["limited_runs"] += 1
            ctx.obs["quiescent_points"] += sched.quiescent_points
            ctx.obs["burst_releases"] += sched.bursts
            ctx.obs["bodies_entered"] += o.rec.count("enter")
            ctx.obs["handler_bodies_entered"] += sum(1 for e in o.rec.ev if e[0] == "enter" and rt.KIND.get(e[1]) == "int-async")
            c2 = {**case, "k": k, "policy": pol, "yield_injection": bool(procs)}
            if o.deadlock:
                ctx.violation("C15:deadlock", f"k={k} {pol}: loop quiescent, nothing parked, call not finished (permits leaked or held across a nested run); unlimited run completes", c2)
                continue
            if o.inconclusive:
                ctx.inconc(o.inconclusive)
                continue
            peak = o.rec.max_inflight_fn
            ctx.obs[f"peak_k{k}={min(peak, 9)}"] += 1
            if peak > k:
                # witness: the entry at which the counter first exceeded k
                w = next((e for e in o.rec.ev if e[0] == "enter" and e[5] > k), None)
                ctx.violation("C15:bound-exceeded", f"k={k} {pol} ({form}, depth {depth}): {peak} function-node bodies executing at the same instant (at entry of {w[1] if w else '?'}); parked sets seen: {sched.parked_sets[-3:]}", c2)
                continue
            if norm(o) != b:
                ctx.violation("C15:result-differs", f"k={k} {pol}: result differs from the unlimited run: {core.short(norm(o), 300)} vs {core.short(b, 300)}", c2)
            if peak_unlimited > k and sched.max_parked < min(k, peak_unlimited) and not any(True for _ in ()):  # informational only
                ctx.obs["schedule_not_saturated"] += 1
    ctx.obs["unlimited_peak_max"] = max(ctx.obs["unlimited_peak_max"], peak_unlimited)
    ctx.case({"s": gen.shape_of(spec), "form": form, "n": len(inputs.get("x")) if isinstance(inputs.get("x"), list) else 0}, peak_unlimited >= 2, sample=case if i < 2 else None)


def sequence_case(ctx, i):
    """Two bounded top-level calls awaited one after the other from ONE task; the first one fails (raise mode).
    The second call's own limit must hold: nothing of the first call's limiter may survive its failure."""
    from hgmon.build import all_fids, build_program
    from hypergraph import AsyncRunner

    rng = ctx.rng
    spec1, in1 = gen_wide(rng, rng.randint(0, 1), name="wa", prefix="a_", mapped=True)
    spec2, in2 = gen_wide(rng, rng.randint(0, 1), name="wb", prefix="b_", mapped=True)
    # make the second program wide enough to exceed a small limit
    for j in range(4):
        spec2["nodes"].append({"k": "fn", "name": f"b_extra{j}", "params": [{"n": "x"}], "outs": [f"b_ev{j}"], "async": True})
    k1, k2 = rng.choice([4, 6, 8]), rng.choice([1, 2, 3])
    first_form = rng.choice(["map", "run"])
    rt.install_taps()
    rt.reset_program()
    b1, b2 = build_program(spec1), build_program(spec2)
    f1 = [f for f, ns in all_fids(spec1).items() if ns["k"] == "fn"]
    rt.FAIL.clear()
    rt.FAIL[rng.choice(f1)] = Boom("first call fails")
    rec = rt.new_rec()
    runner = AsyncRunner()
    in1 = dict(in1)
    if first_form == "map":
        in1["x"] = [f"x{q}" for q in range(rng.randint(2, 4))]

    async def seq():
        try:
            if first_form == "map":
                await runner.map(b1.graph, in1, map_over="x", max_concurrency=k1)
            else:
                await runner.run(b1.graph, in1, max_concurrency=k1)
        except Boom:
            pass
        return await runner.run(b2.graph, in2, max_concurrency=k2)

    pol = rng.choice(["first", "last", "rand"])
    sched = rt.Sched(default=pol, rng=rng)
    case = {"first": spec1, "second": spec2, "k_first": k1, "k_second": k2, "first_form": first_form, "policy": pol}
    try:
        res = rt.run_async(seq, sched=sched)
    except rt.Deadlock:
        ctx.violation("C15:deadlock", f"second call (k={k2}) after a failed first call (k={k1}): loop quiescent, nothing parked, call not finished", case)
        return
    except rt.Inconclusive as e:
        ctx.inconc(str(e))
        return
    except Exception as e:  # noqa: BLE001
        ctx.violation("C15:result-differs", f"second call raised {e!r} after a failed first call", case)
        return
    finally:
        rt.FAIL.clear()
    ctx.obs["sequence_cases"] += 1
    ctx.obs["limited_runs"] += 1
    # in-flight count among the SECOND program's bodies
    open_b, peak = 0, 0
    for e in rec.ev:
        if e[0] == "enter" and e[1].startswith("wb/"):
            open_b += 1
            peak = max(peak, open_b)
        elif e[0] in ("exit", "raise") and isinstance(e[1], str) and e[1].startswith("wb/"):
            open_b -= 1
    ctx.obs["bodies_entered"] += rec.count("enter")
    if peak > k2:
        ctx.violation("C15:bound-exceeded", f"second call max_concurrency={k2} after a failed {first_form}(max_concurrency={k1}) in the same task: {peak} of its function-node bodies executing at the same instant", case)
    elif getattr(res, "status", None) is None or res.status.value != "completed":
        ctx.violation("C15:result-differs", f"second call after a failed first call: {getattr(res, 'status', res)!r}", case)
    ctx.case({"seq": first_form, "k1": k1, "k2": k2, "s": gen.shape_of(spec2)}, True)


def release_window_directed(ctx):
    """Directed stress of the hand-over window of the limiter: a nested chain P -> Q (Q reaches the limiter a few loop
    turns after P released its permit) next to 2-4 siblings that queue on the limiter, k = 1..3, under many burst
    schedules (several bodies released in ONE loop turn, so a release, a woken waiter and a new arrival coincide)."""
    rng = ctx.rng
    for n_sib in (2, 3, 4):
        for chain in (2, 3):
            inner = {"name": "nest", "nodes": [{"k": "fn", "name": f"c{j}", "params": [{"n": "x" if j == 0 else f"cv{j - 1}"}], "outs": [f"cv{j}"], "async": True} for j in range(chain)], "bind": {}}
            nodes = [{"k": "sub", "name": "nest", "prog": inner}] + [{"k": "fn", "name": f"s{j}", "params": [{"n": "x"}], "outs": [f"sv{j}"], "async": True} for j in range(n_sib)]
            spec = {"name": "relwin", "nodes": nodes, "bind": {}}
            inputs = {"x": "run:x"}
            base = core.execute(spec, inputs, "async", sched=rt.Sched(default="first"))
            if base.deadlock or base.inconclusive or base.exc is not None:
                ctx.inconc(base.inconclusive or f"release-window baseline: {base.exc!r}")
                continue
            b = norm(base)
            for k in (1, 2, 3):
                for rep in range(30 if ctx.tier == "quick" else 80):
                    sched = rt.Sched(default="rand", rng=rng, burst=(rng.choice([0.4, 0.6, 0.8]), rng.randint(2, 6)))
                    o = core.execute(spec, inputs, "async", sched=sched, max_concurrency=k)
                    ctx.obs["limited_runs"] += 1
                    ctx.obs["release_window_runs"] += 1
                    ctx.obs["quiescent_points"] += sched.quiescent_points
                    ctx.obs["burst_releases"] += sched.bursts
                    ctx.obs["bodies_entered"] += o.rec.count("enter")
                    c2 = {"spec": spec, "inputs": inputs, "form": "run", "depth": 1, "k": k, "policy": "burst", "directed": "release-window"}
                    if o.deadlock:
                        ctx.violation("C15:deadlock", f"k={k} burst (release-window program): loop quiescent, nothing parked, call not finished", c2)
                        break
                    if o.inconclusive:
                        ctx.inconc(o.inconclusive)
                        continue
                    if o.rec.max_inflight_fn > k:
                        ctx.violation("C15:bound-exceeded", f"k={k} burst (release-window program, {n_sib} siblings, chain {chain}): {o.rec.max_inflight_fn} bodies executing at the same instant", c2)
                        break
                    if norm(o) != b:
                        ctx.violation("C15:result-differs", f"k={k} burst (release-window program): result differs from the unlimited run", c2)
                        break
    # sibling nested graphs that each hold an ASYNC auto-answering interrupt handler next to an async leaf: handlers are
    # node bodies like any other (they hold a permit while they run) - bound and termination for k = 1..3
    for n_sub in (2, 3):
        nodes = []
        for j in range(n_sub):
            inner = {"name": f"rev{j}", "nodes": [
                {"k": "int", "name": f"ask{j}", "params": [{"n": "x"}], "outs": [f"ans{j}"], "handler": ["auto", f"ans:{j}"], "async": True},
                {"k": "fn", "name": f"leaf{j}", "params": [{"n": "x"}], "outs": [f"lv{j}"], "async": True},
            ], "bind": {}}
            nodes.append({"k": "sub", "name": f"rev{j}", "prog": inner})
        nodes.append({"k": "fn", "name": "outer_leaf", "params": [{"n": "x"}], "outs": ["ol"], "async": True})
        spec = {"name": "sibint", "nodes": nodes, "bind": {}}
        inputs = {"x": "run:x"}
        base = core.execute(spec, inputs, "async", sched=rt.Sched(default="first"))
        if base.deadlock or base.inconclusive or base.exc is not None:
            ctx.inconc(base.inconclusive or f"sibling-interrupt baseline: {base.exc!r}")
            continue
        b = norm(base)
        for k in (1, 2, 3):
            for pol in ("first", "last", "rand", "rand", "burst", "burst"):
                sched = rt.Sched(default=pol, rng=rng) if pol != "burst" else rt.Sched(default="rand", rng=rng, burst=(0.6, 5))
                o = core.execute(spec, inputs, "async", sched=sched, max_concurrency=k)
                ctx.obs["limited_runs"] += 1
                ctx.obs["sibling_interrupt_runs"] += 1
                ctx.obs["handler_bodies_entered"] += sum(1 for e in o.rec.ev if e[0] == "enter" and rt.KIND.get(e[1]) == "int-async")
                c2 = {"spec": spec, "inputs": inputs, "form": "run", "depth": 1, "k": k, "policy": pol, "directed": "sibling-interrupts"}
                if o.deadlock:
                    ctx.violation("C15:deadlock", f"k={k} {pol}: {n_sub} sibling nested graphs with async interrupt handlers: loop quiescent, call not finished", c2)
                    continue
                if o.inconclusive:
                    ctx.inconc(o.inconclusive)
                    continue
                if o.rec.max_inflight_fn > k:
                    ctx.violation("C15:bound-exceeded", f"k={k} {pol}: {o.rec.max_inflight_fn} bodies (async interrupt handlers included) executing at the same instant in {n_sub} sibling nested graphs", c2)
                elif norm(o) != b:
                    ctx.violation("C15:result-differs", f"k={k} {pol}: sibling nested graphs with interrupts: result differs from the unlimited run", c2)
    ctx.case({"directed": "release-window"}, True)


def bounded_map_failures(ctx):
    """runner.map in raise mode over items of which SEVERAL fail, each with its own error, under k = 1..4 and schedules in
    which a later failing item finishes before an earlier one: the bounded call ends like the unlimited call (the error
    of the first failing item in input order), and no body is abandoned half-way (every entered body also exits)."""
    from hgmon.build import build_program

    rng = ctx.rng

    class FailOn:
        def __init__(self, param, excs):
            self.param, self.excs, self._cur = param, excs, None

        def __getitem__(self, i):
            return self._pred if i == 0 else self._cur

        def _pred(self, kw):
            v = kw.get(self.param)
            hit = isinstance(v, str) and v in self.excs
            if hit:
                self._cur = self.excs[v]
            return hit

    for n, bad in ((4, [0, 2]), (5, [1, 3, 4]), (3, [0, 1, 2]), (6, [2, 5])):
        items = [f"it{j}" for j in range(n)]
        excs = {items[j]: Boom(f"item {j} failed") for j in bad}
        inner = {"name": "bm", "nodes": [{"k": "fn", "name": "work", "fid": "bm/work", "params": [{"n": "x"}], "outs": ["y"], "async": True}, {"k": "fn", "name": "post", "fid": "bm/post", "params": [{"n": "y"}], "outs": ["z"], "async": True}], "bind": {}}
        results = {}
        for k, pol in ((None, "first"), (1, "last"), (2, "last"), (3, "last"), (4, "last"), (2, "rand"), (3, "rand"), (2, "burst"), (3, "burst")):
            rt.reset_program()
            built = build_program(inner)
            rt.FAIL_IF.clear()
            rt.FAIL_IF["bm/work"] = FailOn("x", excs)
            sched = rt.Sched(default=pol, rng=rng) if pol != "burst" else rt.Sched(default="rand", rng=rng, burst=(0.6, 4))
            o = core.execute(built, {"x": list(items)}, "async", sched=sched, max_concurrency=k, map_over="x", warm=False)
            rt.FAIL_IF.clear()
            ctx.obs["limited_runs"] += 1
            ctx.obs["bounded_map_failure_runs"] += 1
            c2 = {"spec": inner, "inputs": {"x": items}, "form": "runner.map", "k": k, "policy": pol, "failing_items": bad}
            if o.deadlock:
                ctx.violation("C15:deadlock", f"k={k} {pol}: map over {n} items of which {bad} fail did not finish", c2)
                continue
            if o.inconclusive:
                ctx.inconc(o.inconclusive)
                continue
            if k is None:
                results["base"] = norm(o)
                continue
            if k is not None and o.rec.max_inflight_fn > k:
                ctx.violation("C15:bound-exceeded", f"k={k} {pol}: {o.rec.max_inflight_fn} bodies at once in a failing map", c2)
            if "base" in results and norm(o) != results["base"]:
                ctx.violation("C15:result-differs", f"k={k} {pol}: map over {n} items of which {bad} fail ends with {core.short(norm(o), 200)}; the unlimited call ends with {core.short(results['base'], 200)}", c2)
    ctx.case({"directed": "bounded-map-failures"}, True)


def natural_schedule_sweep(ctx):
    """The limiter under the NATURAL asyncio schedule: bodies that suspend a chosen number of loop turns (no controlled
    scheduler, so a permit can be released in the very turn in which a new node reaches the limiter and before the
    woken waiter runs). A nested chain P -> Q next to three siblings; every assignment of small delays (P 1..4 turns, the
    first sibling 1..8, the others short or long), k = 1..3: at most k bodies open at any instant, the call finishes, and
    the values are those of the unlimited call. Own in-body counter; termination judged in loop turns, not seconds."""
    import asyncio
    import itertools

    from hypergraph import AsyncRunner, FunctionNode, Graph

    state = {"open": 0, "peak": 0}

    def body(tag, turns):
        async def f(x):
            state["open"] += 1
            state["peak"] = max(state["peak"], state["open"])
            try:
                for _ in range(turns):
                    await asyncio.sleep(0)
            finally:
                state["open"] -= 1
            return (tag, x)

        f.__name__ = tag
        return f

    def build(dp, dq, d1, d2, d3):
        inner = Graph([FunctionNode(body("P", dp), name="P", output_name="pv"), FunctionNode(lambda pv: None, name="unused", output_name="u0") if False else FunctionNode(body("Q", dq), name="Q", output_name="qv").with_inputs(x="pv")], name="nest")
        return Graph([inner.as_node(), FunctionNode(body("S1", d1), name="S1", output_name="s1"), FunctionNode(body("S2", d2), name="S2", output_name="s2"), FunctionNode(body("S3", d3), name="S3", output_name="s3")], name="nat")

    async def run_one(g, k):
        r = AsyncRunner()
        t = asyncio.ensure_future(r.run(g, {"x": 1}, **({"max_concurrency": k} if k else {})))
        for _ in range(3000):
            if t.done():
                break
            await asyncio.sleep(0)
        if not t.done():
            t.cancel()
            await asyncio.gather(t, return_exceptions=True)
            return None
        return t.result()

    for dp, d1, (d2, d3) in itertools.product((1, 2, 3, 4), range(1, 9), ((1, 1), (3, 10), (10, 3), (10, 10))):
        g = build(dp, 2, d1, d2, d3)
        base = asyncio.run(run_one(g, None))
        for k in (1, 2, 3):
            state["open"], state["peak"] = 0, 0
            res = asyncio.run(run_one(g, k))
            ctx.obs["limited_runs"] += 1
            ctx.obs["natural_schedule_runs"] += 1
            c2 = {"program": "nested chain P->Q next to S1..S3, natural schedule", "delays": {"P": dp, "Q": 2, "S1": d1, "S2": d2, "S3": d3}, "k": k}
            if res is None:
                ctx.violation("C15:deadlock", f"k={k}, delays {c2['delays']}: the call did not finish within 3000 loop turns (unlimited: {'finished' if base is not None else 'did not finish either'})", c2)
            elif state["peak"] > k:
                ctx.violation("C15:bound-exceeded", f"k={k}, delays {c2['delays']} (natural schedule): {state['peak']} bodies open at the same instant", c2)
            elif base is not None and res.values != base.values:
                ctx.violation("C15:result-differs", f"k={k}, delays {c2['delays']}: values differ from the unlimited call", c2)
    # second shape: two plain nodes hold the permits first, a nested chain P -> Q and two DOUBLY nested single nodes queue
    # behind them; the second plain node gives its permit back c turns after P finished, for every c in 0..12 (the
    # moment at which the nested graph brings Q to the limiter lies in that range)
    def build2(d0, d1, dp):
        chain = Graph([FunctionNode(body("P", dp), name="P", output_name="pv"), FunctionNode(body("Q", 2), name="Q", output_name="qv").with_inputs(x="pv")], name="chain")
        r_mid = Graph([Graph([FunctionNode(body("R", 6), name="R", output_name="rv")], name="r_in").as_node()], name="r_mid")
        s_mid = Graph([Graph([FunctionNode(body("S", 6), name="S", output_name="sv")], name="s_in").as_node()], name="s_mid")
        return Graph([FunctionNode(body("n0", d0), name="n0", output_name="o0"), FunctionNode(body("n1", d1), name="n1", output_name="o1"), chain.as_node(), r_mid.as_node(), s_mid.as_node()], name="nat2")

    for d0, dp, c in itertools.product((1, 2, 3), (1, 2, 3), range(0, 13)):
        g = build2(d0, d0 + dp + c, dp)
        base = asyncio.run(run_one(g, None))
        for k in (2, 1, 3):
            state["open"], state["peak"] = 0, 0
            res = asyncio.run(run_one(g, k))
            ctx.obs["limited_runs"] += 1
            ctx.obs["natural_schedule_runs"] += 1
            c2 = {"program": "n0, n1, chain P->Q, doubly nested R and S; natural schedule", "delays": {"n0": d0, "n1": d0 + dp + c, "P": dp}, "k": k}
            if res is None:
                ctx.violation("C15:deadlock", f"k={k}, delays {c2['delays']}: the call did not finish within 3000 loop turns", c2)
            elif state["peak"] > k:
                ctx.violation("C15:bound-exceeded", f"k={k}, delays {c2['delays']} (natural schedule): {state['peak']} bodies open at the same instant", c2)
            elif base is not None and res.values != base.values:
                ctx.violation("C15:result-differs", f"k={k}, delays {c2['delays']}: values differ from the unlimited call", c2)
    # one AsyncRunner used for several bounded, contended calls from successive event loops (run and map): each ends like
    # the unlimited call
    g = build(2, 2, 3, 3, 3)
    base = asyncio.run(run_one(g, None))
    for k in (1, 2):
        shared = AsyncRunner()

        async def again(form, k=k, shared=shared):
            if form == "run":
                return (await shared.run(g, {"x": 1}, max_concurrency=k)).values
            return (await shared.map(g, {"x": [1, 1]}, map_over="x", max_concurrency=k))[0].values

        for rep, form in enumerate(("run", "map", "run", "map")):
            state["open"], state["peak"] = 0, 0
            ctx.obs["limited_runs"] += 1
            ctx.obs["same_runner_successive_loops"] += 1
            c2 = {"program": "one AsyncRunner, bounded calls from successive event loops", "k": k, "call": rep, "form": form}
            try:
                vals = asyncio.run(again(form))
            except Exception as e:  # noqa: BLE001
                ctx.violation("C15:result-differs", f"k={k}: call {rep + 1} ({form}) on a runner that already made bounded calls in other event loops raised {e!r}; the unlimited call completes", c2)
                break
            if state["peak"] > k:
                ctx.violation("C15:bound-exceeded", f"k={k}: call {rep + 1} ({form}): {state['peak']} bodies at once", c2)
            elif base is not None and vals != base.values:
                ctx.violation("C15:result-differs", f"k={k}: call {rep + 1} ({form}) gave {vals}", c2)
    ctx.case({"directed": "natural-schedule-sweep"}, True)


def run(ctx):
    n = 40 if ctx.tier == "quick" else 1000
    core.WARM_P = 0.0
    if ctx.replay:
        c = ctx.replay["case"]
        spec = c["spec"]
        fk = {"fail": {f: Boom(f) for f in c["fail"]}, "error_handling": c.get("error_handling", "raise")} if c.get("fail") else {}
        o = core.execute(spec, c["inputs"], "async", sched=rt.Sched(default=c.get("policy", "last"), rng=ctx.rng), max_concurrency=c.get("k", 1), **fk, **({"map_over": "x"} if c.get("form") == "runner.map" else {}))
        if o.deadlock:
            ctx.violation("C15:deadlock", "replay: deadlock", c)
        elif o.rec.max_inflight_fn > c.get("k", 1):
            ctx.violation("C15:bound-exceeded", f"replay: peak {o.rec.max_inflight_fn}", c)
        ctx.case("r1")
        ctx.case("r2")
        return
    if ctx.shard[0] == 0:
        release_window_directed(ctx)
        bounded_map_failures(ctx)
        natural_schedule_sweep(ctx)
    for i in range(n):
        if i % 5 == 4:
            sequence_case(ctx, i)
        else:
            one(ctx, i)
