"""C18 - run isolation: no state leaks between runs; caller-owned objects untouched."""

from __future__ import annotations

import asyncio
import collections
import copy
import sys
import threading

from hgmon import beh as beh_mod
from hgmon import core, gen, ref, rt
from hgmon.build import build_program

LEVEL = "exploration"
RULE = (
    "graphs whose functions mutate the objects they receive as signature defaults (list append, dict setitem, a list held by a tuple / NamedTuple default), at the "
    "top level and inside nested graphs (depth 1-2, renamed wrapper inputs), combined with ordinary generated nodes and "
    "bound mutable objects; histories of 2-8 runs: same runner, fresh runner, sync then async, runs of other graphs in "
    "between, values passed partly as keyword arguments; 2-3 concurrent async runs sharing one runner under the "
    "controlled scheduler (bodies of different runs interleaved at every quiescent point); thread stress: 6 threads "
    "driving shared and private SyncRunners with a 10 microsecond switch interval; graphs that differ only in "
    "configuration (entry points / selection on one structure) run one after the other on one runner instance vs on "
    "fresh runners; a mapping node whose inner graph binds a mutable value while the caller passes its own (equal or "
    "different) object for that input. Oracle: every run's result equals "
    "the isolated expectation (default objects start fresh); function __defaults__ deep-equal to their snapshot; the "
    "caller's input dict has the same keys and the very same value objects; a bound object reaches the node as the "
    "very object that was bound; no value tagged for run A occurs in the arguments of run B. Non-trivial: >= 2 runs "
    "of a graph with a mutating node; distinct = (program shape, history kind)."
    ' Directed: a multi-output interrupt whose handler returns one shared dict object on every call; a value bound for a defaulted parameter of a node outside the graph-level selection (flat and nested).'
    " Corners of the copying rule: a cached node on a runner with a cache (memory / disk) whose other input cannot be pickled (lock, lambda; bound or supplied), and container defaults holding an uncopyable member next to mutable state (equal runs must end alike, the declared default keeps its content)."
    " Also: a mapping node over a work list that is the inner function's signature default (mutable items, mutated by the node), repeated on same/fresh sync/async runners; histories of calls (with and without run-time select, bound name supplied or not) over a family of graphs derived from one ancestor, each call compared with the same call on a family built from scratch."
    ' A name bound again to a distinct but equal object (identity of what each derived graph hands out); one AsyncRunner used for bounded runs from successive event loops and for two coupled bounded runs at once.'
)
ASSUMPTIONS = ["the mutating functions are ours; expectations are computed from the spec, never from a first run"]
DECIDING = ["runs_checked", "defaults_checked", "identity_checked"]
THOROUGH_SHARDS = 12
REPLAY_BY_SEED = True  # histories are regenerated from the seed; see main.py


_Stats = collections.namedtuple("_Stats", ["seen", "total"])


def make_spec(rng, name="iso"):
    """DAG with 1-2 mutating nodes (default-valued mutable argument), optionally nested."""
    base = gen.gen_dag(rng, n_nodes=(2, 4), n_inputs=(1, 2), p_default_input=0.0, p_default_edge=0.0, p_gen=0.0, name=name)
    for ns in base["nodes"]:
        ns["fid"] = f"{name}/{ns['name']}"
    src = gen.consumed_inputs(base)[0]
    muts = []
    for j in range(rng.randint(1, 2)):
        r_ = rng.random()
        if r_ < 0.2:
            # only shallowly immutable: a tuple (or a NamedTuple) holding a list
            dflt = (["seed"], 2) if rng.random() < 0.5 else _Stats(["seed"], {"n": 0})
            m = {"k": "fn", "name": f"mut{j}", "fid": f"{name}/mut{j}", "params": [{"n": src}, {"n": f"acc{j}", "d": dflt}], "outs": [f"hist{j}"], "beh": ["tuple_mut", f"acc{j}", src]}
        elif r_ < 0.5:
            m = {"k": "fn", "name": f"mut{j}", "fid": f"{name}/mut{j}", "params": [{"n": src}, {"n": f"acc{j}", "d": ["seed"]}], "outs": [f"hist{j}"], "beh": ["append_mut", f"acc{j}", src]}
        elif r_ < 0.7:
            m = {"k": "fn", "name": f"mut{j}", "fid": f"{name}/mut{j}", "params": [{"n": src}, {"n": f"acc{j}", "d": {"items": ["seed"]}}], "outs": [f"hist{j}"], "beh": ["nested_mut", f"acc{j}", src]}
        else:
            m = {"k": "fn", "name": f"mut{j}", "fid": f"{name}/mut{j}", "params": [{"n": src}, {"n": f"acc{j}", "d": {"seed": 0}}], "outs": [f"hist{j}"], "beh": ["setitem_mut", f"acc{j}", src]}
        muts.append(m)
    # a node that receives a bound mutable object and only looks at it
    bnode = {"k": "fn", "name": "peek", "fid": f"{name}/peek", "params": [{"n": "shared"}, {"n": src}], "outs": ["peeked"], "beh": ["snapshot", "shared", src]}
    nodes = base["nodes"] + muts + [bnode]
    spec = {"name": name, "nodes": nodes, "bind": {}}
    depth = rng.randint(0, 2)
    for d in range(depth):
        group = [m["name"] for m in muts]
        inner_nodes = [ns for ns in spec["nodes"] if ns["name"] in group]
        rest = [ns for ns in spec["nodes"] if ns["name"] not in group]
        if not inner_nodes:
            break
        sub = {"k": "sub", "name": f"box{d}", "prog": {"name": f"box{d}", "nodes": inner_nodes, "bind": {}}}
        if d == 0 and rng.random() < 0.5:
            sub["rename_in"] = [{"acc0": "acc0_ext"}]
        spec = {"name": name, "nodes": rest + [sub], "bind": {}}
        muts = [sub]
    return spec, src, depth


def expected_for(spec, src, inputs, shared):
    """Isolated expectation computed from the spec."""
    exp = {}

    def walk(p):
        for ns in p["nodes"]:
            if ns["k"] == "sub":
                walk(ns["prog"])
            elif ns.get("beh") and ns["beh"][0] in ("append_mut", "nested_mut", "tuple_mut"):
                exp[ns["outs"][0]] = ("seed", inputs[src])
            elif ns.get("beh") and ns["beh"][0] == "setitem_mut":
                exp[ns["outs"][0]] = tuple(sorted({"seed": 0, inputs[src]: 1}.items()))
            elif ns.get("beh") and ns["beh"][0] == "snapshot":
                exp[ns["outs"][0]] = (tuple(shared), inputs[src])

    walk(spec)
    return exp


def defaults_snapshot(built):
    out = {}

    def walk(b):
        for name, node in b.nodes.items():
            f = getattr(node, "func", None)
            if f is not None:
                out[(b.path, name)] = (f, copy.deepcopy(f.__defaults__), copy.deepcopy(f.__kwdefaults__))
        for sb in b.subs.values():
            walk(sb)

    walk(built)
    return out


def check_run(ctx, o, spec, src, inputs_obj, inputs_before, shared, snap, label, case, tag=None):
    ctx.obs["runs_checked"] += 1
    if o.exc is not None or o.status != "completed":
        ctx.violation("C18:run-failed", f"{label}: {o.status} {o.exc!r}", case)
        return False
    exp = expected_for(spec, src, inputs_obj, shared)
    for k, v in exp.items():
        if o.values.get(k) != v:
            ctx.violation("C18:state-leaked-into-run", f"{label}: {k} = {o.values.get(k)!r}, an isolated run gives {v!r} (default-valued argument was not fresh, or another run's value got in)", case)
            return False
    for (path, name), (f, d, kd) in snap.items():
        ctx.obs["defaults_checked"] += 1
        if f.__defaults__ != d or f.__kwdefaults__ != kd:
            ctx.violation("C18:function-defaults-mutated", f"{label}: __defaults__ of {path}/{name} changed: {f.__defaults__!r} / {f.__kwdefaults__!r} vs {d!r} / {kd!r}", case)
            return False
    if set(inputs_obj) != set(inputs_before) or any(inputs_obj[k] is not inputs_before[k] for k in inputs_before):
        ctx.violation("C18:input-dict-modified", f"{label}: caller's input mapping changed: {sorted(inputs_obj)} vs {sorted(inputs_before)}", case)
        return False
    rec = o.rec
    for e in rec.ev:
        if e[0] == "enter" and e[1].endswith("/peek") and (tag is None or e[4] == tag):
            ctx.obs["identity_checked"] += 1
            if e[2]["shared"] is not shared:
                ctx.violation("C18:bound-value-copied", f"{label}: the bound object reached the node as a different object", case)
                return False
    return True


def history(ctx, i):
    from hypergraph import AsyncRunner, SyncRunner

    rng = ctx.rng
    rt.reset_program()
    spec, src, depth = make_spec(rng)
    shared = ["bound-object"]
    built = build_program(spec)
    built.graph = built.graph.bind(shared=shared)
    other_spec = gen.gen_dag(rng, n_nodes=(2, 3), name="other")
    for ns in other_spec["nodes"]:
        ns["fid"] = f"other/{ns['name']}"
    other = build_program(other_spec)
    other_inputs = {k: f"o:{k}" for k in gen.consumed_inputs(other_spec)}
    snap = defaults_snapshot(built)
    req = [r for r in built.graph.inputs.required]
    kind = rng.choice(["same-runner", "fresh-runner", "sync-then-async", "interleaved-other", "kwargs"])
    case = {"spec": spec, "history": kind, "depth": depth}
    sync_r, async_r = SyncRunner(), AsyncRunner()
    nruns = rng.randint(2, 8)
    for r in range(nruns):
        inputs = {k: f"in:{k}:r{r}" for k in req}
        before = dict(inputs)
        kw_inputs = None
        if kind == "kwargs" and len(inputs) >= 1:
            k0 = sorted(inputs)[0]
            kw_inputs = {k0: inputs.pop(k0)}
            before = dict(inputs)
        use_async = (kind == "sync-then-async" and r >= nruns // 2) or (kind != "sync-then-async" and rng.random() < 0.3)
        if kind == "fresh-runner":
            sync_r, async_r = SyncRunner(), AsyncRunner()
        if kind == "interleaved-other" and rng.random() < 0.6:
            core.execute(other, other_inputs, "sync", runner_obj=sync_r, warm=False)
        o = core.execute(built, inputs, "async" if use_async else "sync", runner_obj=(async_r if use_async else sync_r), kwargs_inputs=kw_inputs, warm=False)
        effective = {**inputs, **(kw_inputs or {})}
        ok = check_run(ctx, o, spec, src, effective, {**before, **(kw_inputs or {})}, shared, snap, f"{kind} run {r} ({'async' if use_async else 'sync'})", {**case, "run": r})
        if kw_inputs and (set(inputs) != set(before)):
            ctx.violation("C18:input-dict-modified", f"{kind} run {r}: values dict gained/lost keys when keyword inputs were merged", case)
        if not ok:
            return
        # no value tagged for an earlier run may appear in this run's arguments
        for e in o.rec.ev:
            if e[0] == "enter":
                s = repr(e[2])
                for q in range(r):
                    if f":r{q}'" in s or f":r{q}\"" in s:
                        ctx.violation("C18:cross-run-value", f"{kind} run {r}: argument of {e[1]} contains a value of run {q}: {s[:200]}", case)
                        return
    ctx.case({"s": gen.shape_of(spec), "kind": kind, "depth": depth}, nruns >= 2, sample=case if i < 2 else None)


def concurrent_async(ctx, i):
    from hypergraph import AsyncRunner

    rng = ctx.rng
    rt.reset_program()
    spec, src, depth = make_spec(rng)
    spec = core.with_async(spec, True)  # every body suspends at the scheduler
    shared = ["bound-object"]
    built = build_program(spec)
    built.graph = built.graph.bind(shared=shared)
    snap = defaults_snapshot(built)
    req = list(built.graph.inputs.required)
    runner = AsyncRunner()
    k = rng.randint(2, 3)
    ins = [{q: f"in:{q}:c{j}" for q in req} for j in range(k)]
    befores = [dict(x) for x in ins]
    rt.install_taps()
    rec = rt.new_rec()
    sched = rt.Sched(default="rand", rng=rng)

    async def one(j):
        tok = rt.TAG.set(f"c{j}")
        try:
            return await runner.run(built.graph, ins[j])
        finally:
            rt.TAG.reset(tok)

    async def main():
        return await asyncio.gather(*[asyncio.ensure_future(one(j)) for j in range(k)], return_exceptions=True)

    try:
        results = rt.run_async(main, sched=sched)
    except rt.Deadlock:
        ctx.violation("C18:concurrent-deadlock", "concurrent runs on one runner deadlocked", {"spec": spec})
        return
    except rt.Inconclusive as e:
        ctx.inconc(str(e))
        return
    ctx.obs["concurrent_groups"] += 1
    ctx.obs["max_parked"] = max(ctx.obs["max_parked"], sched.max_parked)
    case = {"spec": spec, "history": f"{k} concurrent async runs on one runner", "schedule": [c for _, c, _ in sched.trace]}
    for j, res in enumerate(results):
        o = core.Outcome()
        o.rec = rec
        if isinstance(res, BaseException):
            o.exc = res
            o.status = "raised"
        else:
            o.status, o.values, o.error = res.status.value, res.values, res.error
        if not check_run(ctx, o, spec, src, ins[j], befores[j], shared, snap, f"concurrent run {j}", {**case, "run": j}, tag=f"c{j}"):
            return
        for e in rec.ev:
            if e[0] == "enter" and e[4] == f"c{j}":
                s = repr(e[2])
                for q in range(k):
                    if q != j and f":c{q}'" in s:
                        ctx.violation("C18:cross-run-value", f"concurrent run {j}: argument of {e[1]} contains a value of run {q}", case)
                        return
    ctx.case({"s": gen.shape_of(spec), "kind": "concurrent", "k": k}, True)


def thread_stress(ctx, rounds):
    from hypergraph import SyncRunner

    rng = ctx.rng
    rt.reset_program()
    graphs = []
    for g in range(3):
        spec, src, depth = make_spec(rng, name=f"t{g}")
        b = build_program(spec)
        shared = [f"bound-{g}"]
        b.graph = b.graph.bind(shared=shared)
        graphs.append((spec, src, b, shared, defaults_snapshot(b), list(b.graph.inputs.required)))
    rt.install_taps()
    rec = rt.new_rec(lock=True)
    shared_runner = SyncRunner()
    errors = []
    old = sys.getswitchinterval()
    sys.setswitchinterval(1e-5)

    def worker(tid):
        mine = SyncRunner()
        r2 = __import__("random").Random(tid * 7919 + ctx.seed)
        for it in range(rounds):
            spec, src, b, shared, snap, req = graphs[r2.randrange(len(graphs))]
            runner = shared_runner if r2.random() < 0.5 else mine
            inputs = {q: f"in:{q}:t{tid}.{it}" for q in req}
            try:
                res = runner.run(b.graph, inputs)
            except Exception as e:  # noqa: BLE001
                errors.append((tid, it, repr(e)))
                continue
            exp = expected_for(spec, src, inputs, shared)
            for k, v in exp.items():
                if res.values.get(k) != v:
                    errors.append((tid, it, f"{k}={res.values.get(k)!r} expected {v!r}"))

    try:
        ts = [threading.Thread(target=worker, args=(t,)) for t in range(6)]
        for t in ts:
            t.start()
        for t in ts:
            t.join(120)
    finally:
        sys.setswitchinterval(old)
    ctx.obs["thread_runs"] += 6 * rounds
    ctx.obs["runs_checked"] += 6 * rounds
    if errors:
        ctx.violation("C18:thread-interference", f"{len(errors)} of {6 * rounds} threaded sync runs differ from the isolated expectation, e.g. {errors[0]}", {"errors": errors[:5]})
    for spec, src, b, shared, snap, req in graphs:
        for (path, name), (f, d, kd) in snap.items():
            ctx.obs["defaults_checked"] += 1
            if f.__defaults__ != d:
                ctx.violation("C18:function-defaults-mutated", f"after thread stress: __defaults__ of {path}/{name} = {f.__defaults__!r}", {"spec": spec})
    ctx.case({"threads": 6, "rounds": rounds}, True)


def entry_variants(ctx, i):
    """Graphs that differ only in configuration (entry points, selection, bindings) share their structure hash: run
    one after the other on ONE runner instance, each must behave as on a fresh runner."""
    from hypergraph import AsyncRunner, SyncRunner

    rng = ctx.rng
    spec = gen.gen_dag(rng, n_nodes=(3, 6), p_default_edge=0.0, p_gen=0.0)
    rt.reset_program()
    base = build_program(spec).graph
    names = [ns["name"] for ns in spec["nodes"]]
    variants = [("full", base)]
    for nm in rng.sample(names, min(len(names), rng.randint(2, 3))):
        try:
            variants.append((f"entry:{nm}", base.with_entrypoint(nm)))
        except Exception:  # noqa: BLE001
            pass
    outs = list(base.outputs)
    if outs:
        variants.append((f"select:{outs[-1]}", base.select(outs[-1])))
    rng.shuffle(variants)
    kind = rng.choice(["sync", "async"])
    shared = SyncRunner() if kind == "sync" else AsyncRunner()

    def go(runner, g):
        c = g.inputs
        provided = {r: f"in:{r}" for r in list(c.required) + [p for ps in list(c.entrypoints.values())[:1] for p in ps]}
        rec = rt.new_rec()
        try:
            res = runner.run(g, provided) if kind == "sync" else asyncio.run(runner.run(g, provided))
            out = (res.status.value, res.values)
        except Exception as e:  # noqa: BLE001
            out = ("raised", type(e).__name__)
        return out, sorted(e[1] for e in rec.ev if e[0] == "enter")

    case = {"spec": spec, "order": [v[0] for v in variants], "runner": kind}
    for label, g in variants:
        got = go(shared, g)
        fresh = go(SyncRunner() if kind == "sync" else AsyncRunner(), g)
        ctx.obs["runs_checked"] += 1
        ctx.obs["configuration_variant_runs"] += 1
        if got != fresh:
            ctx.violation("C18:state-leaked-into-run", f"{label} on a runner that already ran {[v[0] for v in variants[: variants.index((label, g))]]}: {core.short(got, 300)}; on a fresh runner: {core.short(fresh, 300)}", case)
            break
    ctx.case({"variants": sorted(v[0].split(":")[0] for v in variants), "s": gen.shape_of(spec), "r": kind}, len(variants) >= 3)


def derived_family_history(ctx, i):
    """A graph and graphs DERIVED from it (bind / unbind / with_entrypoint / select) are different graphs with
    different contracts. A history of runs over the members of one family - with and without a run-time select=,
    with the bound name supplied or left out - must give, call by call, what the same call gives on a family that
    was built from scratch and has seen no other call."""
    from hypergraph import AsyncRunner, SyncRunner

    rng = ctx.rng
    spec = gen.gen_dag(rng, n_nodes=(3, 6), p_default_edge=0.0, p_gen=0.0, p_default_input=0.0)
    rt.reset_program()

    def family():
        base = build_program(spec).graph
        req = list(base.inputs.required)
        fam = {"base": base}
        if req:
            x = req[0]
            fam["bound"] = base.bind(**{x: f"bound:{x}"})
            fam["rebound"] = fam["bound"].bind(**{x: f"again:{x}"})
            fam["unbound"] = fam["bound"].unbind(x)
        names = [ns["name"] for ns in spec["nodes"]]
        try:
            fam["entry"] = base.with_entrypoint(names[-1])
        except Exception:  # noqa: BLE001
            pass
        outs = list(base.outputs)
        if outs:
            fam["selected"] = base.select(outs[0])
        return fam

    fam = family()
    req = list(fam["base"].inputs.required)
    outs = list(fam["base"].outputs)
    if not req or not outs:
        return
    x = req[0]
    full = {r: f"in:{r}" for r in req}
    without_x = {k: v for k, v in full.items() if k != x}
    sels = [None, [outs[-1]], [outs[0]], list(outs)]
    calls = []
    for _ in range(rng.randint(4, 8)):
        calls.append((rng.choice(sorted(fam)), rng.choice(sels), rng.choice(["full", "without"])))
    kind = rng.choice(["sync", "async"])

    def call(g, sel, which):
        provided = dict(full if which == "full" else without_x)
        c = g.inputs
        for ps in list(c.entrypoints.values())[:1]:
            for p_ in ps:
                provided.setdefault(p_, f"in:{p_}")
        kw = {"select": sel} if sel is not None else {}
        rec = rt.new_rec()
        import warnings

        with warnings.catch_warnings():
            warnings.simplefilter("ignore")
            try:
                res = SyncRunner().run(g, provided, **kw) if kind == "sync" else asyncio.run(AsyncRunner().run(g, provided, **kw))
                out = (res.status.value, res.values)
            except Exception as e:  # noqa: BLE001
                out = ("raised", type(e).__name__)
        return out, sorted(e[1] for e in rec.ev if e[0] == "enter")

    case = {"spec": spec, "calls": [list(c) for c in calls], "runner": kind, "bound_name": x}
    for step, (label, sel, which) in enumerate(calls):
        got = call(fam[label], sel, which)
        twin = call(family()[label], sel, which)
        ctx.obs["runs_checked"] += 1
        ctx.obs["derived_family_calls"] += 1
        if got != twin:
            ctx.violation("C18:state-leaked-into-run", f"call {step} ({label}, select={sel}, inputs {which} {x}) after {[list(c) for c in calls[:step]]} on one family of derived graphs: {core.short(got, 300)}; on a family built from scratch: {core.short(twin, 300)}", {**case, "step": step})
            break
    ctx.case({"family": sorted(fam), "s": gen.shape_of(spec), "r": kind}, True)


def override_of_inner_binding(ctx, i):
    """A mapping node whose inner graph binds a mutable value; the caller passes ITS OWN object for that input, equal
    to the bound one or not. The caller's object is what the node receives and mutates; the bound object is untouched
    and the next run that relies on the binding starts from it as it was."""
    from hypergraph import AsyncRunner, FunctionNode, Graph, SyncRunner

    rng = ctx.rng
    rt.reset_program()
    fid = "ovr/m"
    fn = rt.make_function("m", fid, [{"n": "item"}, {"n": "acc"}])
    rt.KIND[fid] = "fn"
    rt.BEH[fid] = lambda kw: beh_mod.apply(["append_mut", "acc", "item"], kw)
    bound = ["seed"] if rng.random() < 0.5 else []
    inner = Graph([FunctionNode(fn, name="m", output_name="hist")], name="ovr").bind(acc=bound)
    node = inner.as_node().map_over("item")
    if rng.random() < 0.5:
        node = node.with_inputs(acc="acc_ext")
    g = Graph([node], name="outer")
    key = "acc_ext" if "acc_ext" in g.inputs.all else "acc"
    items = [f"it{j}" for j in range(rng.randint(1, 3))]
    mine = list(bound) if rng.random() < 0.6 else ["mine"]
    start = list(mine)
    bound_before = list(bound)
    runner_kind = rng.choice(["sync", "async"])
    inputs = {"item": items, key: mine}
    case = {"program": "mapping node, inner bind(acc=%r), caller passes %r" % (bound_before, start), "items": items, "runner": runner_kind}
    try:
        if runner_kind == "sync":
            r = SyncRunner().run(g, inputs)
        else:
            r = asyncio.run(AsyncRunner().run(g, inputs))
    except Exception as e:  # noqa: BLE001
        ctx.violation("C18:run-failed", f"override of an inner binding through a mapping node raised {e!r}", case)
        return
    ctx.obs["runs_checked"] += 1
    ctx.obs["override_runs"] += 1
    exp = [tuple(start + items[: j + 1]) for j in range(len(items))]
    if list(r.values.get("hist", [])) != exp:
        ctx.violation("C18:provided-object-not-used", f"items saw {r.values.get('hist')!r}; with the caller's own object {start!r} they must see {exp!r}", case)
    elif mine != start + items:
        ctx.violation("C18:provided-object-not-used", f"the caller's object is {mine!r} after the run; the node mutates the object it was given, expected {start + items!r}", case)
    elif bound != bound_before:
        ctx.violation("C18:state-leaked-into-run", f"the value bound on the inner graph changed from {bound_before!r} to {bound!r} during a run that supplied its own object for that input", case)
    ctx.case({"override": True, "equal": start == bound_before, "n": len(items), "r": runner_kind}, True)


def mapped_default_items(ctx, i):
    """A mapping nested-graph node whose MAPPED parameter is supplied by nobody: the work list is the signature default
    of the inner function (a list of mutable items). An inner node mutates the item it receives. Every run - sync or
    async, same or fresh runner - starts from the default as written: equal results, untouched __defaults__."""
    import copy as _copy

    from hypergraph import AsyncRunner, FunctionNode, Graph, SyncRunner

    rng = ctx.rng
    rt.reset_program()
    fid = "mdi/work"
    n_items = rng.randint(1, 3)
    kind = rng.choice(["lists", "dicts"])
    default = [[f"d{j}"] for j in range(n_items)] if kind == "lists" else [{"items": [f"d{j}"]} for j in range(n_items)]
    fn = rt.make_function("work", fid, [{"n": "batch", "d": default}, {"n": "tag"}])
    rt.KIND[fid] = "fn"
    rt.BEH[fid] = (lambda kw: beh_mod.apply(["append_mut", "batch", "tag"], kw)) if kind == "lists" else (lambda kw: beh_mod.apply(["nested_mut", "batch", "tag"], kw))
    inner = Graph([FunctionNode(fn, name="work", output_name="seen")], name="mdi")
    node = inner.as_node().map_over("batch", clone=rng.choice([False, True]))
    if rng.random() < 0.4:
        node = node.with_inputs(batch="work_list")
    depth2 = rng.random() < 0.3
    g = Graph([node], name="outer")
    if depth2:
        g = Graph([g.as_node()], name="top")
    before = _copy.deepcopy(fn.__defaults__)
    exp = [tuple([f"d{j}", "run:tag"]) for j in range(n_items)]
    runners = [SyncRunner(), AsyncRunner()]
    case = {"program": f"mapping node over the inner signature default {default!r}, item mutated by the node", "depth2": depth2}
    for step in range(rng.randint(2, 4)):
        which = rng.choice(["sync", "async", "fresh-sync", "fresh-async"])
        try:
            if which.endswith("async"):
                r = asyncio.run((AsyncRunner() if which.startswith("fresh") else runners[1]).run(g, {"tag": "run:tag"}))
            else:
                r = (SyncRunner() if which.startswith("fresh") else runners[0]).run(g, {"tag": "run:tag"})
        except Exception as e:  # noqa: BLE001
            ctx.violation("C18:run-failed", f"run {step} ({which}) of the mapping node over a defaulted work list raised {e!r}", case)
            return
        ctx.obs["runs_checked"] += 1
        ctx.obs["mapped_default_runs"] += 1
        got = [tuple(x) for x in (r.values.get("seen") or [])]
        if got != exp:
            ctx.violation("C18:repeat-differs", f"run {step} ({which}): items saw {got}; every run starts from the default as written: {exp}", {**case, "step": step})
            return
        if fn.__defaults__ != before:
            ctx.violation("C18:defaults-mutated", f"run {step} ({which}) changed the function's __defaults__ from {before!r} to {fn.__defaults__!r}", {**case, "step": step})
            return
    ctx.case({"mapped-default": kind, "n": n_items, "depth2": depth2}, True)


def sibling_bound_objects(ctx, i):
    """Two or three sibling nested graphs that each BIND the same input name to their OWN mutable object (a collector
    per sub-pipeline). Each inner node receives the very object bound on its graph (identity), mutates it, and the other
    graphs' objects are untouched; also after add_nodes() on the enclosing graph, and on repeated runs."""
    from hypergraph import AsyncRunner, FunctionNode, Graph, SyncRunner

    rng = ctx.rng
    rt.reset_program()
    k = rng.randint(2, 3)
    sinks = [[f"seed{j}"] for j in range(k)]
    received = {}
    wrappers = []
    for j in range(k):
        fid = f"sbo/w{j}"
        fn = rt.make_function(f"w{j}", fid, [{"n": "item"}, {"n": "sink"}])
        rt.KIND[fid] = "fn"

        def beh(kw, _j=j):
            received.setdefault(_j, []).append(kw["sink"])
            kw["sink"].append(kw["item"])
            return tuple(kw["sink"])

        rt.BEH[fid] = beh
        wrappers.append(Graph([FunctionNode(fn, name=f"w{j}", output_name=f"h{j}")], name=f"pipe{j}").bind(sink=sinks[j]).as_node())
    rng.shuffle(wrappers)
    # a plain node of the enclosing graph with a collector bound on the ENCLOSING graph
    ledger = ["ledger-seed"]
    ft = rt.make_function("tail", "sbo/tail", [{"n": "item"}, {"n": "ledger"}])
    rt.KIND["sbo/tail"] = "fn"

    def tail_beh(kw):
        received.setdefault("ledger", []).append(kw["ledger"])
        kw["ledger"].append(kw["item"])
        return tuple(kw["ledger"])

    rt.BEH["sbo/tail"] = tail_beh
    g = Graph(wrappers + [FunctionNode(ft, name="tail", output_name="tl")], name="outer").bind(ledger=ledger)
    variant = rng.choice(["plain", "add_nodes", "add_nodes", "select", "rebind-same"])
    if variant == "add_nodes":
        fx = rt.make_function("extra", "sbo/extra", [{"n": "item"}])
        rt.KIND["sbo/extra"] = "fn"
        rt.BEH["sbo/extra"] = lambda kw: ("extra", kw["item"])
        g = g.add_nodes(FunctionNode(fx, name="extra", output_name="ex"))
    elif variant == "select":
        g = g.select("tl", "h0")
    elif variant == "rebind-same":
        g = g.unbind("ledger").bind(ledger=ledger)
    case = {"program": f"{k} sibling nested graphs binding `sink` to their own list", "variant": variant}
    for step in range(2):
        kind = rng.choice(["sync", "async"])
        try:
            r = SyncRunner().run(g, {"item": f"it{step}"}) if kind == "sync" else asyncio.run(AsyncRunner().run(g, {"item": f"it{step}"}))
        except Exception as e:  # noqa: BLE001
            ctx.violation("C18:run-failed", f"sibling nested graphs with own bindings raised {e!r}", case)
            return
        ctx.obs["runs_checked"] += 1
        ctx.obs["sibling_bound_object_runs"] += 1
        for j in range(k):
            got = received.get(j, [])
            ctx.obs["identity_checked"] += 1
            if len(got) != step + 1 or got[-1] is not sinks[j]:
                whose = next((f"the object bound on pipe{m}" for m in range(k) if got and got[-1] is sinks[m]), "a copy / another object")
                ctx.violation("C18:bound-value-copied", f"run {step} ({kind}, {variant}): the node of pipe{j} received {whose} instead of the object bound on its own graph", {**case, "step": step})
                return
            exp = [f"seed{j}"] + [f"it{t}" for t in range(step + 1)]
            got_l = received.get("ledger", [])
            if j == 0 and (len(got_l) != step + 1 or got_l[-1] is not ledger or ledger != ["ledger-seed"] + [f"it{t}" for t in range(step + 1)]):
                ctx.violation("C18:bound-value-copied", f"run {step} ({kind}, {variant}): the node `tail` received {'the bound object' if got_l and got_l[-1] is ledger else 'another object'} for `ledger`; the caller's ledger is {ledger!r}", {**case, "step": step})
                return
            if sinks[j] != exp:
                ctx.violation("C18:state-leaked-into-run", f"run {step} ({kind}, {variant}): the collector bound on pipe{j} holds {sinks[j]!r}, expected {exp!r}", {**case, "step": step})
                return
    ctx.case({"sibling-bound-objects": k, "variant": variant}, True)


def bound_outside_selection(ctx, i):
    """A value bound for a parameter that ALSO has a signature default, on a node outside the graph-level selection
    (flat, or the graph used as a nested node): whenever that node runs it receives the very object that was bound -
    never a copy of its signature default - and the bound object is what it mutates."""
    from hypergraph import AsyncRunner, FunctionNode, Graph, SyncRunner

    rng = ctx.rng
    rt.reset_program()
    fa, fp = "bsel/a", "bsel/log"
    afn = rt.make_function("a", fa, [{"n": "x"}])
    rt.KIND[fa] = "fn"
    rt.BEH[fa] = lambda kw: ("a", kw["x"])
    pfn = rt.make_function("log", fp, [{"n": "x"}, {"n": "sink", "d": ["dflt"]}])
    rt.KIND[fp] = "fn"
    rt.BEH[fp] = lambda kw: beh_mod.apply(["append_mut", "sink", "x"], kw)
    bound = ["bound"]
    g = Graph([FunctionNode(afn, name="a", output_name="y"), FunctionNode(pfn, name="log", output_name="logged")], name="bsel")
    order = True  # select-first makes `sink` unbindable (no longer an input of the narrowed graph): legitimately rejected
    g = g.bind(sink=bound).select("y")
    nested = rng.random() < 0.5
    top = Graph([g.as_node()], name="outer") if nested else g
    runner_kind = rng.choice(["sync", "async"])
    case = {"program": f"a(x)->y, log(x, sink=['dflt'])->logged; bind(sink=obj) + select('y') ({'bind first' if order else 'select first'}); nested={nested}", "runner": runner_kind}
    import warnings

    rec = rt.new_rec()
    try:
        with warnings.catch_warnings():
            warnings.simplefilter("ignore")
            if runner_kind == "sync":
                SyncRunner().run(top, {"x": "run:x"})
            else:
                asyncio.run(AsyncRunner().run(top, {"x": "run:x"}))
    except Exception as e:  # noqa: BLE001
        ctx.violation("C18:run-failed", f"bound value outside the selection: raised {e!r}", case)
        return
    ctx.obs["runs_checked"] += 1
    ctx.obs["bound_outside_selection_runs"] += 1
    calls = [e for e in rec.ev if e[0] == "enter" and e[1] == fp]
    for e in calls:
        ctx.obs["identity_checked"] += 1
        if e[2]["sink"] is not bound:
            ctx.violation("C18:bound-value-copied", f"node outside the selection received {e[2]['sink']!r} (not the bound object {bound!r}): a copy of its signature default", case)
            return
    if calls and bound != ["bound"] + ["run:x"] * len(calls):
        ctx.violation("C18:bound-value-copied", f"the node ran {len(calls)} time(s) but the bound object is {bound!r}", case)
    ctx.case({"bsel": True, "nested": nested, "order": order, "ran": len(calls), "r": runner_kind}, True)


def handler_object_reuse(ctx, i):
    """A multi-output interrupt (optionally emitting a signal) whose handler returns THE SAME dict object on every
    call: repeated runs must give equal results and the handler's object must stay as it was."""
    from hypergraph import AsyncRunner, FunctionNode, Graph, InterruptNode

    rng = ctx.rng
    rt.reset_program()
    answer = {"a": "A", "b": "B"}
    before = dict(answer)
    hid, uid = "hreuse/ask", "hreuse/use"
    hfn = rt.make_function("ask", hid, [{"n": "x"}], is_async=rng.random() < 0.5)
    rt.KIND[hid] = "int"
    rt.BEH[hid] = lambda kw: answer
    ufn = rt.make_function("use", uid, [{"n": "a"}, {"n": "b"}])
    rt.KIND[uid] = "fn"
    rt.BEH[uid] = lambda kw: tuple(sorted(kw.items()))
    emit = "asked" if rng.random() < 0.7 else None
    ask = InterruptNode(hfn, name="ask", output_name=("a", "b"), emit=emit)
    if rng.random() < 0.4:
        ask = ask.with_outputs(a="a2")
        ufn = rt.make_function("use", uid, [{"n": "a2"}, {"n": "b"}])
    use = FunctionNode(ufn, name="use", output_name="s", wait_for=emit)
    g = Graph([ask, use], name="hreuse")
    case = {"program": f"interrupt(a,b) emit={emit!r}, handler returns one shared dict; outputs {ask.outputs}"}
    results = []
    for j in range(3):
        try:
            r = asyncio.run(AsyncRunner().run(g, {"x": "run:x"}))
            results.append((r.status.value, r.values))
        except Exception as e:  # noqa: BLE001
            results.append(("raised", repr(e)[:160]))
    ctx.obs["runs_checked"] += 3
    ctx.obs["handler_object_reuse_runs"] += 3
    if any(r != results[0] for r in results[1:]) or results[0][0] != "completed":
        ctx.violation("C18:results-differ:handler-object", f"three equal runs gave {core.short(results, 400)}", case)
    elif answer != before:
        ctx.violation("C18:handler-object-modified", f"the dict the handler returns was changed by the library: {before!r} -> {answer!r}", case)
    ctx.case({"handler_reuse": True, "emit": bool(emit), "outs": ask.outputs}, True)


def unusual_defaults(ctx, i):
    """Mutable signature defaults in the corners of the copying rule.
    (a) a CACHED node on a runner that has a cache, whose other input can or cannot be pickled (a lock, a lambda, bound or
        supplied): hit, ordinary miss or 'no key' - the function must never receive the declared default object itself.
    (b) a plain container default (list / dict / set / tuple) holding something that cannot be deep-copied NEXT TO ordinary
        mutable state the function mutates: every run with equal inputs ends the same way (refused with the clear
        configuration error, or a pristine default) and the declared default keeps its content.
    Flat and inside a nested graph; same runner, fresh runners, sync then async."""
    from hypergraph import AsyncRunner, DiskCache, FunctionNode, Graph, InMemoryCache, SyncRunner

    rng = ctx.rng
    which = "cached" if i % 2 == 0 else "uncopyable"
    nested = rng.random() < 0.4
    runs = rng.randint(2, 4)
    lock = threading.Lock()

    if which == "cached":
        extra_kind = rng.choice(["lock", "lambda", "plain", "plain"])
        extra = {"lock": lock, "lambda": (lambda: 1), "plain": "p"}[extra_kind]
        how = rng.choice(["bound", "supplied"])
        default = {"list": ["seed"], "dict": {"items": ["seed"]}}[rng.choice(["list", "dict"])]
        pristine = copy.deepcopy(default)

        def record(item, extra, acc=default):
            (acc if isinstance(acc, list) else acc["items"]).append(item)
            return list(acc if isinstance(acc, list) else acc["items"])

        node = FunctionNode(record, name="record", output_name="hist", cache=rng.random() < 0.8)
        expected = ("completed", ["seed", "a"])
        import tempfile

        tmp = None
        backend = rng.choice(["memory", "memory", "disk", "none"])
        desc = f"cached={node.cache} backend={backend} extra={extra_kind}/{how}"
    else:
        hold = rng.choice(["lock", "generator", "nocopy"])

        class _NoCopy:
            def __deepcopy__(self, memo):
                raise TypeError("this handle cannot be duplicated")

        res = {"lock": lock, "generator": (j for j in range(3)), "nocopy": _NoCopy()}[hold]
        shape = rng.choice(["dict", "list", "tuple", "set-in-dict"])
        entries = []
        if shape == "dict":
            default = {"res": res, "entries": entries}
        elif shape == "list":
            default = [res, entries]
        elif shape == "tuple":
            default = (res, entries)
        else:
            default = {"res": {res} if hold != "generator" else [res], "entries": entries}

        def record(item, acc=default):
            e = acc["entries"] if isinstance(acc, dict) else acc[1]
            e.append(item)
            return list(e)

        node = FunctionNode(record, name="record", output_name="hist")
        extra_kind = how = None
        backend = "none"
        expected = None
        desc = f"default {shape} holding {hold}"
        pristine = None

    g = Graph([node], name="inner_u")
    if nested:
        g = Graph([g.as_node(name="box")], name="outer_u")
    provided = {"item": "a"}
    if which == "cached":
        if how == "bound":
            g = g.bind(extra=extra)
        else:
            provided["extra"] = extra

    def make_runner(kind, cache):
        return (SyncRunner if kind == "sync" else AsyncRunner)(cache=cache) if cache is not None else (SyncRunner if kind == "sync" else AsyncRunner)()

    import shutil
    import tempfile

    tmpdir = tempfile.mkdtemp(prefix="hgmon-c18-") if backend == "disk" else None
    try:
        cache = {"memory": InMemoryCache, "disk": (lambda: DiskCache(tmpdir)), "none": (lambda: None)}[backend]()
        plan = rng.choice(["same", "fresh", "mixed"])
        shared = {"sync": make_runner("sync", cache), "async": make_runner("async", cache)}
        outcomes = []
        for j in range(runs):
            kind = "sync" if plan != "mixed" and rng.random() < 0.5 else ("sync", "async")[j % 2]
            r = shared[kind] if plan != "fresh" else make_runner(kind, cache)
            try:
                res_ = r.run(g, dict(provided)) if kind == "sync" else asyncio.run(r.run(g, dict(provided)))
                outcomes.append((res_.status.value, res_.values.get("hist")))
            except Exception as e:  # noqa: BLE001
                outcomes.append(("raised", type(e).__name__ + ":" + str(e).split("\n")[0][:80]))
        ctx.obs["runs_checked"] += runs
        ctx.obs["unusual_default_runs:" + which] += runs
        case = {"program": desc, "nested": nested, "plan": plan, "runs": runs}
        if which == "cached":
            bad = [o for o in outcomes if o != expected]
            if bad:
                ctx.violation("C18:default-leaked:cached-node", f"{desc}: {runs} equal runs gave {core.short(outcomes, 300)}, each should be {expected}", case)
            ctx.obs["defaults_checked"] += 1
            if default != pristine:
                ctx.violation("C18:defaults-mutated:cached-node", f"{desc}: the declared default became {default!r}", case)
        else:
            if any(o != outcomes[0] for o in outcomes[1:]):
                ctx.violation("C18:default-leaked:uncopyable-member", f"{desc}: equal runs ended differently: {core.short(outcomes, 300)}", case)
            elif outcomes[0][0] == "completed" and outcomes[0][1] != ["a"]:
                ctx.violation("C18:default-leaked:uncopyable-member", f"{desc}: a run saw {outcomes[0][1]!r} instead of a pristine default", case)
            ctx.obs["defaults_checked"] += 1
            if entries:
                ctx.violation("C18:defaults-mutated:uncopyable-member", f"{desc}: the declared default's own list became {entries!r}", case)
            ctx.obs["uncopyable_default:" + outcomes[0][0]] += 1
    finally:
        if tmpdir:
            shutil.rmtree(tmpdir, ignore_errors=True)
    ctx.case({"unusual": which, "d": desc, "nested": nested}, True)


def rebound_equal_objects_and_bounded_runs(ctx, i):
    """(a) A name that is already bound is bound AGAIN to a distinct object that compares equal (a fresh empty list, an
    equal config dict): the derived graph hands the node the object of ITS bind() call, and the two graphs' runs do not
    see each other's mutations. (b) One AsyncRunner used for several bounded runs (max_concurrency=1..2, bodies that
    really suspend while holding a permit): from separate event loops one after the other, and two at the same time
    where a body of run A waits for a body of run B - every run ends as on a runner of its own."""
    import asyncio

    from hypergraph import AsyncRunner, FunctionNode, Graph, SyncRunner

    rng = ctx.rng
    # ---- (a) ----
    seen = []

    def push(x, history):
        seen.append(history)
        history.append(x)
        return list(history)

    nested = rng.random() < 0.5
    base = Graph([FunctionNode(push, name="push", output_name="h")], name="rb")
    if nested:
        base = Graph([base.as_node(name="box")], name="rbo")
    first, second = ([], []) if rng.random() < 0.5 else ({"items": []}, {"items": []})
    if isinstance(first, dict):
        def push(x, history):  # noqa: F811 - dict-shaped history
            seen.append(history)
            history["items"].append(x)
            return list(history["items"])

        base = Graph([FunctionNode(push, name="push", output_name="h")], name="rb")
        if nested:
            base = Graph([base.as_node(name="box")], name="rbo")
    g1 = base.bind(history=first)
    g2 = g1.bind(history=second)
    case = {"program": f"bind(history=<obj1>) then bind(history=<equal obj2>), nested={nested}, shape={type(first).__name__}"}
    outs = []
    for g in (g1, g2, g1, g2):
        seen.clear()
        kind = rng.choice(["sync", "async"])
        r = SyncRunner().run(g, {"x": 1}) if kind == "sync" else asyncio.run(AsyncRunner().run(g, {"x": 1}))
        outs.append(r.values.get("h"))
        ctx.obs["runs_checked"] += 1
        ctx.obs["identity_checked"] += 1
        want = first if g is g1 else second
        if not seen or seen[0] is not want:
            ctx.violation("C18:bound-object-identity:rebound-equal", f"{case['program']}: the graph derived by the {'first' if g is g1 else 'second'} bind() handed the node {'the OTHER call`s object' if seen and seen[0] is (second if g is g1 else first) else 'a different object'}", case)
            break
    else:
        if outs != [[1], [1], [1, 1], [1, 1]]:
            ctx.violation("C18:state-leaked-into-run", f"{case['program']}: runs of the two graphs gave {outs}; each graph owns its bound object: [[1], [1], [1, 1], [1, 1]]", case)
    # ---- (b) ----
    async def slow(x):
        for _ in range(3):
            await asyncio.sleep(0)
        return ("slow", x)

    async def slow2(x):
        for _ in range(2):
            await asyncio.sleep(0)
        return ("slow2", x)

    g = Graph([FunctionNode(slow, name="slow", output_name="a"), FunctionNode(slow2, name="slow2", output_name="b")], name="bnd")
    k = rng.choice([1, 1, 2])
    shared = AsyncRunner()
    want = {"a": ("slow", 7), "b": ("slow2", 7)}
    for rep in range(3):
        form = rng.choice(["run", "map"])
        try:
            if form == "run":
                res = asyncio.run(shared.run(g, {"x": 7}, max_concurrency=k)).values
            else:
                res = asyncio.run(shared.map(g, {"x": [7, 7]}, map_over="x", max_concurrency=k))[0].values
        except Exception as e:  # noqa: BLE001
            ctx.violation("C18:state-leaked-into-run:bounded-runs-one-runner", f"execution {rep + 1} ({form}, max_concurrency={k}) on a runner that already ran bounded calls in other event loops raised {e!r}", {"program": "bounded runs on one AsyncRunner from successive event loops", "k": k})
            break
        ctx.obs["runs_checked"] += 1
        ctx.obs["bounded_same_runner_runs"] += 1
        if res != want:
            ctx.violation("C18:state-leaked-into-run:bounded-runs-one-runner", f"execution {rep + 1} ({form}) gave {res}", {"program": "bounded runs on one AsyncRunner", "k": k})
            break

    # two runs at once on one runner, same limit 1: a body of run A holds its permit until a body of run B has run
    async def coupled():
        b_ran = asyncio.Event()

        async def a_body(x):
            await b_ran.wait()
            return "a-done"

        async def b_body(x):
            b_ran.set()
            return "b-done"

        ga = Graph([FunctionNode(a_body, name="a_body", output_name="ra")], name="runA")
        gb = Graph([FunctionNode(b_body, name="b_body", output_name="rb")], name="runB")
        r = AsyncRunner()
        ta = asyncio.ensure_future(r.run(ga, {"x": 1}, max_concurrency=1))
        for _ in range(5):
            await asyncio.sleep(0)
        tb = asyncio.ensure_future(r.run(gb, {"x": 1}, max_concurrency=1))
        for _ in range(400):
            if ta.done() and tb.done():
                break
            await asyncio.sleep(0)
        done = (ta.done(), tb.done())
        for t in (ta, tb):
            if not t.done():
                t.cancel()
        await asyncio.gather(ta, tb, return_exceptions=True)
        return done

    done = asyncio.run(coupled())
    ctx.obs["runs_checked"] += 2
    ctx.obs["coupled_concurrent_bounded_runs"] += 1
    if done != (True, True):
        ctx.violation("C18:concurrent-deadlock:bounded-runs-one-runner", f"two bounded runs (max_concurrency=1 each) at the same time on one runner, a body of the first waiting for a body of the second: finished={done} after 400 loop turns; each call has a budget of its own", {"program": "coupled concurrent bounded runs on one AsyncRunner"})
    ctx.case({"rebound+bounded": True, "nested": nested, "k": k}, True)


def run(ctx):
    n = 600 if ctx.tier == "quick" else 12000
    core.WARM_P = 0.0
    if ctx.replay:
        ctx.inconc("C18 replays are re-generated from the seed; re-run the tier with the recorded seed")
        return
    for i in range(n):
        if i % 12 == 7:
            override_of_inner_binding(ctx, i)
        elif i % 12 == 1:
            entry_variants(ctx, i)
        elif i % 24 == 4:
            handler_object_reuse(ctx, i)
        elif i % 24 == 16:
            bound_outside_selection(ctx, i)
        elif i % 24 == 10:
            mapped_default_items(ctx, i)
        elif i % 12 == 3:
            unusual_defaults(ctx, i // 12)
        elif i % 24 == 22:
            rebound_equal_objects_and_bounded_runs(ctx, i)
        elif i % 12 == 5:
            derived_family_history(ctx, i)
        elif i % 12 == 9:
            sibling_bound_objects(ctx, i)
        elif i % 3 == 2:
            concurrent_async(ctx, i)
        else:
            history(ctx, i)
    thread_stress(ctx, 40 if ctx.tier == "quick" else 800)
