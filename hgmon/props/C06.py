"""C06 - renames are transparent: only wiring names change, never what is computed."""

from __future__ import annotations

import copy

from hgmon import core, gen, ref, rt

LEVEL = "exploration"
RULE = (
    "rename histories of 1-5 batches per node, each batch a partial injective map over the current names: fresh names, "
    "chains through temporaries, parallel swaps and 3-cycles, re-use of names retired earlier; applied to inputs and "
    "outputs of function nodes, if/else and route gates, interrupt nodes and nested-graph nodes (with map_over / clone "
    "lists that must follow), fluently or with the node used (placed in a graph, queried) between batches. Oracle: an "
    "original<->current bijection updated simultaneously per batch; checked: inputs/outputs tuples, defaults, "
    "has/get_default_for, get_input_type, get_output_type, map_inputs_to_params, map_outputs_from_original, and by running the node: every "
    "underlying parameter receives the value addressed to its current external name (or its own default/bound value) "
    "and results appear under the current output names; rejected renames must raise RenameError. Plus whole-graph "
    "alpha-renaming of generated DAGs in 1-3 stages compared with the original run. Non-trivial: history has >= 2 "
    "batches or a batch that permutes names; distinct = (node kind, canonical history)."
    ' Also: a MAPPED if/else graph whose items take different branches, wrapper outputs renamed by 1-3 batches, compared with the un-renamed wrapper under the forward map.'
    ' Also: the mapped work list bound on the inner graph (caller leaves it alone) with the renames applied before and after map_over.'
    ' Directed: constructor renames (rename_inputs=) that map a parameter onto the name of another parameter must be refused as with_inputs() refuses them, or honoured (function nodes, both gate kinds, interrupts).'
    ' Directed: emit outputs renamed (plain, chained, swapped with the data output) on function nodes, gates and interrupts, with a waiter on the new name; the mapped-node clone list followed under BOTH runners.'
)
ASSUMPTIONS = [
    "each parameter carries a distinct annotation and default so that a mix-up between parameters is visible",
]
DECIDING = ["histories", "static_checks", "run_checks"]
THOROUGH_SHARDS = 12
REPLAY_BY_SEED = True  # histories are regenerated from the seed; see main.py

TYPES = [int, str, float, bytes, list, dict, tuple, set]


def gen_history(rng, names, n_batches, fresh_prefix):
    """List of batches (dicts) valid for sequential application."""
    cur = list(names)
    retired: list[str] = []
    fresh = [0]
    hist = []
    kinds = []
    for _ in range(n_batches):
        k = rng.randint(1, len(cur))
        chosen = rng.sample(cur, k)
        mode = rng.choice(["fresh", "fresh", "perm", "reuse", "mixed"])
        batch = {}
        if mode == "perm" and k >= 2:
            tgt = chosen[1:] + chosen[:1] if rng.random() < 0.6 else rng.sample(chosen, k)
            for a, b in zip(chosen, tgt):
                if a != b:
                    batch[a] = b
        else:
            pool = []
            if mode in ("reuse", "mixed"):
                pool += [r for r in retired if r not in cur]
            if mode == "mixed" and k >= 2:
                pool += chosen  # names of other members of the same batch (shift / partial swap)
            used = set(x for x in cur if x not in chosen)
            for a in chosen:
                cands = [p for p in pool if p not in used and p != a]
                if cands and rng.random() < 0.7:
                    b = rng.choice(cands)
                else:
                    fresh[0] += 1
                    b = f"{fresh_prefix}{fresh[0]}"
                used.add(b)
                batch[a] = b
        if not batch:
            continue
        new = [batch.get(c, c) for c in cur]
        if len(set(new)) != len(new):
            continue
        for a in batch:
            if a not in new and a not in retired:
                retired.append(a)
        cur = new
        hist.append(batch)
        kinds.append(mode)
    return hist, kinds


def make_fn_node(rng, kind, tag, ctor_rename_of=None):
    """(node, meta) for one callable node with distinct defaults/annotations per parameter. ctor_rename_of: a function
    names -> batch; the batch is then applied through the CONSTRUCTOR argument rename_inputs= (one parallel batch, like
    one with_inputs call) and reported in meta['ctor_batch']."""
    from hypergraph import END, FunctionNode, IfElseNode, InterruptNode, RouteNode

    n = rng.randint(2, 4)
    params = []
    for i in range(n):
        p = {"n": f"p{i}", "ann": TYPES[i]}
        if rng.random() < 0.5:
            p["d"] = f"def:{tag}.p{i}"
        params.append(p)
    params.sort(key=lambda q: "d" in q)
    fid = f"c06/{tag}"
    outs = []
    if kind in ("fn", "int"):
        outs = [f"o{i}" for i in range(rng.randint(1, 2))]
    ret = None
    if kind == "fn":
        ret = complex if len(outs) == 1 else tuple[complex, bytes]
    fn = rt.make_function(tag, fid, params, with_source=rng.random() < 0.5, ret_ann=ret)
    rt.KIND[fid] = "fn" if kind == "fn" else ("int" if kind == "int" else "gate")
    ctor_batch = ctor_rename_of([p["n"] for p in params]) if ctor_rename_of else None
    ckw = {"rename_inputs": dict(ctor_batch)} if ctor_batch else {}
    if kind == "fn":
        rt.BEH[fid] = lambda kw, _f=fid, _n=len(outs): rt.term(_f, kw, _n)
        node = FunctionNode(fn, name=tag, output_name=outs[0] if len(outs) == 1 else tuple(outs), **ckw)
    elif kind == "int":
        if len(outs) == 1:
            rt.BEH[fid] = lambda kw, _f=fid: rt.term(_f, kw, 1)
        else:
            rt.BEH[fid] = lambda kw, _f=fid, _o=tuple(outs): {o: (f"{_f}#{i}", tuple(sorted(kw.items()))) for i, o in enumerate(_o)}
        node = InterruptNode(fn, name=tag, output_name=outs[0] if len(outs) == 1 else tuple(outs), **ckw)
    elif kind == "ifelse":
        rt.BEH[fid] = lambda kw: True
        node = IfElseNode(fn, when_true="tA", when_false="tB", name=tag, **ckw)
    else:
        rt.BEH[fid] = lambda kw: "tA"
        node = RouteNode(fn, targets=["tA", "tB", END], name=tag, **ckw)
    return node, {"fid": fid, "params": params, "outs": outs, "kind": kind, "out_types": _out_types(node, outs), "ctor_batch": ctor_batch}


def _out_types(node, outs):
    """Output types as the un-renamed node reports them (they must follow the outputs through renames)."""
    try:
        return {o: node.get_output_type(o) for o in outs}
    except Exception:  # noqa: BLE001
        return {}


def static_checks(ctx, node, meta, in_hist, out_hist, case, where):
    """Everything observable without running the node."""
    from hypergraph import GraphNode

    names = [p["n"] for p in meta["params"]]
    fm = ref.forward_map(names, in_hist)
    ctx.obs["static_checks"] += 1
    exp_inputs = tuple(fm[n] for n in names)
    if node.inputs != exp_inputs:
        ctx.violation("C06:inputs", f"{where}: inputs {node.inputs} expected {exp_inputs} after {in_hist}", case)
        return False
    fo = ref.forward_map(meta["outs"], out_hist)
    exp_outputs = tuple(fo[o] for o in meta["outs"])
    if tuple(node.outputs[: len(exp_outputs)]) != exp_outputs:
        ctx.violation("C06:outputs", f"{where}: outputs {node.outputs} expected {exp_outputs} after {out_hist}", case)
        return False
    ok = True
    for p in meta["params"]:
        cur = fm[p["n"]]
        has = node.has_default_for(cur)
        if has != ("d" in p) and not meta.get("bound", {}).get(p["n"]):
            ctx.violation("C06:has_default", f"{where}: has_default_for({cur!r})={has} but underlying parameter {p['n']} {'has' if 'd' in p else 'has no'} default (history {in_hist})", case)
            ok = False
        elif "d" in p:
            try:
                d = node.get_default_for(cur)
            except KeyError:
                d = "<KeyError>"
            if d != p["d"]:
                ctx.violation("C06:default-value", f"{where}: get_default_for({cur!r})={d!r} but parameter {p['n']} has default {p['d']!r} (history {in_hist})", case)
                ok = False
        if "ann" in p:
            t = node.get_input_type(cur)
            if t is not p["ann"]:
                ctx.violation("C06:input-type", f"{where}: get_input_type({cur!r})={t!r} but parameter {p['n']} is annotated {p['ann']!r} (history {in_hist})", case)
                ok = False
    for o0, t0 in (meta.get("out_types") or {}).items():
        if t0 is None:
            continue
        ctx.obs["output_types_checked"] += 1
        t = node.get_output_type(fo[o0])
        if t != t0:
            ctx.violation("C06:output-type", f"{where}: get_output_type({fo[o0]!r})={t!r} but output {o0} has type {t0!r} (history {out_hist})", case)
            ok = False
    if not isinstance(node, GraphNode):
        exp_defaults = {fm[p["n"]]: p["d"] for p in meta["params"] if "d" in p}
        if dict(node.defaults) != exp_defaults:
            ctx.violation("C06:defaults", f"{where}: defaults {dict(node.defaults)} expected {exp_defaults} (history {in_hist})", case)
            ok = False
    probe = {fm[n]: ("v", n) for n in names}
    got = node.map_inputs_to_params(dict(probe))
    if got != {n: ("v", n) for n in names}:
        ctx.violation("C06:map_inputs_to_params", f"{where}: map_inputs_to_params({probe}) = {got} (history {in_hist})", case)
        ok = False
    if isinstance(node, GraphNode) and meta["outs"]:
        probe_o = {o: ("w", o) for o in meta["outs"]}
        got_o = node.map_outputs_from_original(dict(probe_o))
        if got_o != {fo[o]: ("w", o) for o in meta["outs"]}:
            ctx.violation("C06:map_outputs_from_original", f"{where}: map_outputs_from_original({probe_o}) = {got_o} expected keys {[fo[o] for o in meta['outs']]} (history {out_hist})", case)
            ok = False
    return ok


def run_check(ctx, node, meta, in_hist, out_hist, case, where):
    """Run the node alone in a graph: arguments by underlying parameter and outputs by current name."""
    from hypergraph import AsyncRunner, FunctionNode, Graph, SyncRunner

    names = [p["n"] for p in meta["params"]]
    fm = ref.forward_map(names, in_hist)
    fo = ref.forward_map(meta["outs"], out_hist)
    nodes = [node]
    if meta["kind"] in ("ifelse", "route"):
        for t in ("tA", "tB"):
            f = rt.make_function(t, f"c06/{t}", [])
            rt.BEH[f"c06/{t}"] = lambda kw: None
            nodes.append(FunctionNode(f, name=t))
    g = Graph(nodes, name="c06g")
    provided = {}
    expect = {}
    for p in meta["params"]:
        if "d" in p and ctx.rng.random() < 0.5:
            expect[p["n"]] = p["d"]
        else:
            provided[fm[p["n"]]] = f"to:{fm[p['n']]}"
            expect[p["n"]] = f"to:{fm[p['n']]}"
    for p in meta["params"]:
        if p["n"] in meta.get("bound", {}) and fm[p["n"]] not in provided:
            expect[p["n"]] = meta["bound"][p["n"]]
    rt.new_rec()
    try:
        if meta["kind"] == "int" or meta.get("async"):
            res = rt.run_async(lambda: AsyncRunner().run(g, provided), sched=None)
        else:
            res = SyncRunner().run(g, provided)
    except Exception as e:  # noqa: BLE001
        ctx.violation("C06:run-raised:" + type(e).__name__, f"{where}: running the renamed node raised {e!r} (inputs {provided}, history {in_hist})", case)
        return
    ctx.obs["run_checks"] += 1
    for fid in meta.get("fids", [meta["fid"]]):
        calls = rt.CUR.invocations().get(fid, [])
        if not calls:
            ctx.violation("C06:not-invoked", f"{where}: {fid} not invoked (status {res.status})", case)
            return
    args = {}
    for fid in meta.get("fids", [meta["fid"]]):
        for k, v in rt.CUR.invocations()[fid][-1].items():
            args.setdefault(meta.get("param_of", {}).get((fid, k), k), v)
    for n in names:
        if args.get(n, "<missing>") != expect[n]:
            ctx.violation("C06:wrong-argument", f"{where}: underlying parameter {n} (current name {fm[n]!r}) received {args.get(n, '<missing>')!r}, expected {expect[n]!r} (history {in_hist}, provided {provided})", case)
            return
    if meta["outs"]:
        exp_keys = {fo[o] for o in meta["outs"]}
        if set(res.values) != exp_keys:
            ctx.violation("C06:output-names", f"{where}: result keys {sorted(res.values)} expected {sorted(exp_keys)} (history {out_hist})", case)


def rejected_renames(ctx, node, case):
    from hypergraph import RenameError

    cur = list(node.inputs)
    try:
        node.with_inputs({"__nope__": "x"})
        ctx.violation("C06:unknown-accepted", "renaming an unknown input was accepted", case)
    except RenameError:
        ctx.obs["rejections_ok"] += 1
    except Exception as e:  # noqa: BLE001
        ctx.violation("C06:unknown-wrong-error", f"renaming an unknown input raised {e!r}", case)
    if len(cur) >= 2:
        try:
            node.with_inputs({cur[0]: cur[1]})
            ctx.violation("C06:duplicate-accepted", f"renaming {cur[0]} to the existing name {cur[1]} was accepted", case)
        except RenameError:
            ctx.obs["rejections_ok"] += 1
        except Exception as e:  # noqa: BLE001
            ctx.violation("C06:duplicate-wrong-error", f"duplicate rename raised {e!r}", case)


def make_graph_node(rng, tag):
    """A nested-graph node over 2 inner functions; meta describes the wrapper's original inputs/outputs."""
    from hypergraph import FunctionNode, Graph

    # inner: f(a, b=..) -> m ; g(m, c, d=..) -> r1 [, r2]
    pa = [{"n": "a", "ann": int}, {"n": "b", "ann": str}]
    if rng.random() < 0.6:
        pa[1]["d"] = f"def:{tag}.b"
    pb = [{"n": "m", "ann": float}, {"n": "c", "ann": bytes}, {"n": "d", "ann": list}]
    if rng.random() < 0.6:
        pb[2]["d"] = f"def:{tag}.d"
    fa, fb = f"c06/{tag}/f", f"c06/{tag}/g"
    two = rng.random() < 0.5
    f1 = rt.make_function("f", fa, pa, ret_ann=float)
    f2 = rt.make_function("g", fb, pb, ret_ann=(tuple[complex, bytes] if two else complex))
    rt.BEH[fa] = lambda kw, _f=fa: rt.term(_f, kw, 1)
    rt.BEH[fb] = lambda kw, _f=fb, _n=(2 if two else 1): rt.term(_f, kw, _n)
    rt.KIND[fa] = rt.KIND[fb] = "fn"
    # the first inner node may EMIT an ordering signal: the inner graph then lists that name among its outputs (before
    # the data outputs of g), the wrapper does not - positions in the two lists differ
    emits = rng.random() < 0.4
    inner = Graph([FunctionNode(f1, name="f", output_name="m", emit=("sig",) if emits else None), FunctionNode(f2, name="g", output_name=("r1", "r2") if two else "r1", wait_for=("sig",) if emits and rng.random() < 0.5 else None)], name=tag)
    bound = {}
    if rng.random() < 0.4:
        inner = inner.bind(c=f"bound:{tag}.c")
        bound["c"] = f"bound:{tag}.c"
    node = inner.as_node()
    params = []
    for p in pa + pb[1:]:
        q = dict(p)
        if q["n"] in bound:
            q["d"] = bound[q["n"]]  # a bound inner value is the wrapper's fallback for that input
        params.append(q)
    order = list(node.inputs)
    params.sort(key=lambda q: order.index(q["n"]))
    outs = list(node.outputs)
    meta = {"fid": fa, "fids": [fa, fb], "params": params, "outs": outs, "kind": "graph", "bound": bound, "out_types": _out_types(node, outs)}
    return node, meta


def one_history(ctx, kind, i):
    rng = ctx.rng
    rt.reset_program()
    tag = f"{kind}{i}"
    ctor = kind != "graph" and rng.random() < 0.35
    holder = {}

    def first_batch(names_):
        h, k_ = gen_history(rng, names_, rng.randint(1, 5), "x")
        holder["h"], holder["k"] = h, k_
        return h[0] if h else None

    if kind == "graph":
        node, meta = make_graph_node(rng, tag)
    else:
        node, meta = make_fn_node(rng, kind, tag, first_batch if ctor else None)
    names = [p["n"] for p in meta["params"]]
    if ctor and holder.get("h"):
        # the first batch of the history went through the constructor (rename_inputs=...)
        in_hist, kinds_i = holder["h"], holder["k"]
        ctx.obs["constructor_rename_histories"] += 1
    else:
        ctor = False
        in_hist, kinds_i = gen_history(rng, names, rng.randint(1, 5), "x")
    out_hist, kinds_o = (gen_history(rng, meta["outs"], rng.randint(0, 3), "y") if meta["outs"] else ([], []))
    used_between = rng.random() < 0.5
    case = {"kind": kind, "params": [{k: (v if k != "ann" else getattr(v, "__name__", str(v))) for k, v in p.items()} for p in meta["params"]], "outs": meta["outs"], "in_history": in_hist, "out_history": out_hist, "used_between_batches": used_between, "bound": meta.get("bound")}
    ctx.obs["histories"] += 1
    base = node
    done_in, done_out = ([in_hist[0]] if ctor else []), []
    steps = [("in", b) for b in (in_hist[1:] if ctor else in_hist)] + [("out", b) for b in out_hist]
    rng.shuffle(steps)
    # keep relative order inside each kind
    ii = iter(in_hist[1:] if ctor else in_hist)
    oo = iter(out_hist)
    steps = [("in", next(ii)) if k == "in" else ("out", next(oo)) for k, _ in steps]
    for k, b in steps:
        try:
            node = node.with_inputs(dict(b)) if k == "in" else node.with_outputs(dict(b))
        except Exception as e:  # noqa: BLE001
            ctx.violation("C06:valid-rename-rejected", f"valid batch {b} on {k}puts rejected: {e!r} (history so far in={done_in} out={done_out})", case)
            return
        (done_in if k == "in" else done_out).append(b)
        if used_between:
            if not static_checks(ctx, node, meta, done_in, done_out, case, f"after {len(done_in) + len(done_out)} batches"):
                return
            if rng.random() < 0.4:
                run_check(ctx, node, meta, done_in, done_out, case, f"run after {len(done_in) + len(done_out)} batches")
    if not static_checks(ctx, node, meta, in_hist, out_hist, case, "final"):
        return
    run_check(ctx, node, meta, in_hist, out_hist, case, "final run")
    # the receiver of all this must be untouched (cheap cross-check of C07 on the same objects)
    if not static_checks(ctx, base, meta, ([in_hist[0]] if ctor else []), [], case, "original node afterwards"):
        return
    rejected_renames(ctx, node, case)
    nontrivial = len(in_hist) + len(out_hist) >= 2 or "perm" in kinds_i or "mixed" in kinds_i
    ctx.case({"kind": kind, "np": len(names), "in": canon(in_hist), "out": canon(out_hist)}, nontrivial, sample=case if i < 3 else None)
    if kind == "graph":
        map_follow(ctx, base, meta, in_hist, case)


def canon(hist):
    idx = {}
    out = []
    for b in hist:
        cb = []
        for a, c in b.items():
            cb.append((idx.setdefault(a, len(idx)), idx.setdefault(c, len(idx))))
        out.append(sorted(cb))
    return out


def map_follow(ctx, base, meta, in_hist, case):
    """map_over / clone lists follow later input renames (observed by running the mapped node)."""
    from hypergraph import Graph, SyncRunner

    names = [p["n"] for p in meta["params"]]
    if "a" not in names or len(names) < 2:
        return
    others = [n for n in names if n != "a"]
    # second variant: the work list is BOUND on the inner graph and the caller leaves it alone - the binding has to
    # follow the renames of the mapped input like a caller-supplied list does
    inner_bound = ctx.rng.random() < 0.5
    items = ["item0", "item1", "item2"]
    if inner_bound:
        try:
            base = base.graph.bind(a=list(items)).as_node(name=base.name)
        except Exception as e:  # noqa: BLE001
            ctx.violation("C06:map_over-raised", f"binding the mapped parameter on the inner graph raised {e!r}", case)
            return
        case = {**case, "mapped_parameter_bound_inside": True}
        ctx.obs["map_follow_inner_bound"] += 1
    pre = ctx.rng.randint(0, len(in_hist))  # renames before / after map_over
    try:
        node = base
        for b in in_hist[:pre]:
            node = node.with_inputs(dict(b))
        fpre = ref.forward_map(names, in_hist[:pre])
        node = node.map_over(fpre["a"], clone=[fpre[others[0]]])
    except Exception as e:  # noqa: BLE001
        ctx.violation("C06:map_over-raised", f"map_over('a', clone=[{others[0]!r}]) raised {e!r}", case)
        return
    for b in in_hist[pre:]:
        node = node.with_inputs(dict(b))
    fm = ref.forward_map(names, in_hist)
    cfg = node.map_config
    if cfg is None or list(cfg[0]) != [fm["a"]]:
        ctx.violation("C06:map_over-not-followed", f"map_config {cfg} after history {in_hist}: mapped parameter should now be called {fm['a']!r}", case)
        return
    g = Graph([node], name="c06m")
    provided = {fm[n]: f"to:{fm[n]}" for n in names if n != "a"}
    cloned_obj = [f"to:{fm[others[0]]}"]  # a mutable object: sharing vs copying per item is observable
    provided[fm[others[0]]] = cloned_obj
    if not inner_bound:
        provided[fm["a"]] = list(items)
    import asyncio

    from hypergraph import AsyncRunner

    for runner_kind in ("sync", "async"):
        rt.new_rec()
        try:
            res = SyncRunner().run(g, provided) if runner_kind == "sync" else asyncio.run(AsyncRunner().run(g, provided))
        except Exception as e:  # noqa: BLE001
            ctx.violation("C06:map-run-raised:" + type(e).__name__, f"{runner_kind}: running the mapped, renamed nested-graph node raised {e!r} (history {in_hist})", case)
            return
        ctx.obs["map_follow_runs"] += 1
        calls = rt.CUR.invocations().get(meta["fids"][0], [])
        got = [c.get("a") for c in calls]
        if got != ["item0", "item1", "item2"]:
            ctx.violation("C06:map-items", f"{runner_kind}: inner parameter a received {got} over the mapped runs, expected one item each (history {in_hist})", case)
            return
        # the clone list follows the renames too: the parameter listed in clone=[...] is deep-copied per item, under
        # whatever external name it goes by now (also when that name is one the mapped parameter used to have)
        consumer = next((f for f in meta["fids"] if any(others[0] in c for c in rt.CUR.invocations().get(f, []))), None)
        if consumer is not None:
            objs = [c[others[0]] for c in rt.CUR.invocations()[consumer]]
            ctx.obs["clone_follow_checked"] += 1
            if any(o is cloned_obj for o in objs) or len({id(o) for o in objs}) != len(objs) or any(o != cloned_obj for o in objs):
                ctx.violation("C06:clone-not-followed", f"{runner_kind}: clone=[{others[0]!r}] before history {in_hist}: the items received {'the caller\'s own object' if any(o is cloned_obj for o in objs) else 'shared/altered copies'} for that parameter (now called {fm[others[0]]!r})", case)


def cached_rename_history(ctx, i):
    """ONE cached function node and the nodes derived from it by a rename history, all run on one cache with inputs
    that are addressed by NAME (the value sent to an input says which external name it was sent to). After a
    permutation of the input names the same external dict reaches other parameters: the result must be the function's
    result for what each underlying parameter received - not an entry stored under the earlier wiring."""
    from hypergraph import FunctionNode, Graph, InMemoryCache, SyncRunner

    rng = ctx.rng
    rt.reset_program()
    tag = f"cf{i}"
    fid = f"c06/{tag}"
    n = rng.randint(2, 4)
    params = [{"n": f"p{j}"} for j in range(n)]
    fn = rt.make_function(tag, fid, params, with_source=rng.random() < 0.5)
    rt.KIND[fid] = "fn"
    rt.BEH[fid] = lambda kw, _f=fid: rt.term(_f, kw, 1)
    base = FunctionNode(fn, name=tag, output_name="o", cache=True)
    names = [p["n"] for p in params]
    # permutations of the existing names make the external dicts coincide between wirings
    hist = []
    cur = list(names)
    for _ in range(rng.randint(1, 3)):
        perm = cur[:]
        rng.shuffle(perm)
        b = {a: c for a, c in zip(cur, perm) if a != c}
        if b:
            hist.append(b)
            cur = [b.get(x, x) for x in cur]
    runner = SyncRunner(cache=InMemoryCache())
    node = base
    case = {"program": "cached function node renamed by permutations, one cache", "history": hist}
    for k in range(len(hist) + 1):
        if k:
            node = node.with_inputs(dict(hist[k - 1]))
        fm = ref.forward_map(names, hist[:k])
        provided = {fm[p_]: f"to:{fm[p_]}" for p_ in names}
        exp = rt.term(fid, {p_: f"to:{fm[p_]}" for p_ in names}, 1)
        for rep in range(2):
            try:
                res = runner.run(Graph([node], name="c06c"), dict(provided))
            except Exception as e:  # noqa: BLE001
                ctx.violation("C06:run-raised:" + type(e).__name__, f"cached node after {k} batches raised {e!r}", case)
                return
            ctx.obs["cached_rename_runs"] += 1
            if res.values.get("o") != exp:
                ctx.violation("C06:wrong-argument:cached", f"after {k} rename batches {hist[:k]} (run {rep}, cache shared with the earlier wirings): result {core.short(res.values.get('o'))}; each underlying parameter received {core.short(exp)}", {**case, "step": k})
                return
    ctx.case({"cached-rename": canon(hist)}, bool(hist))


def alpha_graph(ctx, i):
    """A consistently alpha-renamed graph computes the same values under the new names."""
    rng = ctx.rng
    spec = gen.gen_dag(rng, n_nodes=(3, 7), p_default_edge=0.1)
    names = []
    for ns in spec["nodes"]:
        for _, e in ref.node_inputs(ns):
            if e not in names:
                names.append(e)
        for _, e in ref.node_outputs(ns):
            if e not in names:
                names.append(e)
    stages = rng.randint(1, 3)
    hist, _ = gen_history(rng, names, stages, "z")
    sig = ref.forward_map(names, hist)
    ren = copy.deepcopy(spec)
    for ns in ren["nodes"]:
        ns["fid"] = f"g/{ns['name']}"
        cur_in = {fp: ep for fp, ep in ref.node_inputs(ns)}
        cur_out = [e for _, e in ref.node_outputs(ns)]
        ci = [e for _, e in ref.node_inputs(ns)]
        for b in hist:
            bi = {e: b[e] for e in ci if e in b}
            bo = {e: b[e] for e in cur_out if e in b}
            if bi:
                ns.setdefault("rename_in", []).append(bi)
            if bo:
                ns.setdefault("rename_out", []).append(bo)
            ci = [b.get(e, e) for e in ci]
            cur_out = [b.get(e, e) for e in cur_out]
    for ns in spec["nodes"]:
        ns["fid"] = f"g/{ns['name']}"
    provided = {e: f"run:{e}" for e in gen.consumed_inputs(spec)}
    provided_r = {sig[k]: v for k, v in provided.items()}
    case = {"spec": spec, "renamed": ren, "history": hist}
    for runner in ("sync", "async"):
        o1 = core.execute(core.with_async(spec, runner == "async", rng), provided, runner, warm=False)
        o2 = core.execute(core.with_async(ren, runner == "async", rng), provided_r, runner)
        ctx.obs["alpha_graphs_compared"] += 1
        if o1.exc is not None or o2.exc is not None:
            ctx.violation("C06:alpha-raised", f"{runner}: original -> {o1.exc!r}; renamed -> {o2.exc!r}", case)
            continue
        exp = {sig[k]: v for k, v in o1.values.items()}
        if o2.values != exp:
            diff = sorted(k for k in set(exp) | set(o2.values) if exp.get(k, "<absent>") != o2.values.get(k, "<absent>"))
            ctx.violation("C06:alpha-values", f"{runner}: alpha-renamed graph differs on {diff}: {core.short({k: o2.values.get(k, '<absent>') for k in diff})} vs {core.short({k: exp.get(k, '<absent>') for k in diff})}", case)
    ctx.case({"alpha": gen.shape_of(ren)}, True)


def mapped_gated_rename(ctx, i):
    """A MAPPED nested graph whose items take different gate branches (so items produce different outputs), with the
    wrapper's outputs renamed (single, swap, chain): every list appears under the new name with each item's value at
    that item's position, exactly what the un-renamed node gives under the old names."""
    rng = ctx.rng
    inner = {
        "name": "inner",
        "nodes": [
            {"k": "ifelse", "name": "pick", "params": [{"n": "x"}], "t": "on_t", "f": "on_f", "key": "x", "table": [True, False]},
            {"k": "fn", "name": "on_t", "params": [{"n": "x"}], "outs": ["t_out"]},
            {"k": "fn", "name": "on_f", "params": [{"n": "x"}], "outs": ["f_out"] if rng.random() < 0.6 else ["f_out", "f_extra"]},
        ],
        "bind": {},
    }
    outs = ["t_out"] + inner["nodes"][2]["outs"]
    hist, _ = gen_history(rng, outs, rng.randint(1, 3), "w")
    fo = ref.forward_map(outs, hist)
    items = [rng.randint(0, 9) for _ in range(rng.randint(2, 5))]
    plain = {"name": "outer", "nodes": [{"k": "sub", "name": "inner", "prog": inner, "map": {"over": ["x"], "mode": "zip", "err": "raise"}}], "bind": {}}
    ren = copy.deepcopy(plain)
    ren["nodes"][0]["rename_out"] = [dict(b) for b in hist if b]
    case = {"program": "mapped if/else graph, wrapper outputs renamed", "history": hist, "items": items, "spec": ren}
    for runner in ("sync", "async"):
        o1 = core.execute(core.with_async(plain, runner == "async", rng), {"x": items}, runner, warm=False)
        o2 = core.execute(core.with_async(ren, runner == "async", rng), {"x": items}, runner, warm=False)
        ctx.obs["mapped_gated_renames"] += 1
        if o1.exc is not None or o2.exc is not None:
            ctx.violation("C06:mapped-rename-raised", f"{runner}: plain -> {o1.exc!r}; renamed -> {o2.exc!r}", case)
            continue
        exp = {fo[k]: v for k, v in o1.values.items()}
        if o2.values != exp:
            diff = sorted(k for k in set(exp) | set(o2.values) if exp.get(k, "<absent>") != o2.values.get(k, "<absent>"))
            ctx.violation("C06:mapped-rename-values", f"{runner}: items {items}: renamed wrapper differs on {diff}: {core.short({k: o2.values.get(k, '<absent>') for k in diff})} vs {core.short({k: exp.get(k, '<absent>') for k in diff})} (history {hist})", case)
    ctx.case({"mapped-rename": canon(hist), "first": items[0] % 2}, True)


def constructor_collisions(ctx):
    """A rename handed to a node CONSTRUCTOR (rename_inputs=) that maps a parameter onto the name of another parameter:
    with_inputs() refuses exactly this map (two parameters cannot share one external name), so must the constructor;
    if it accepts the map, both parameters are addressed by that name and both must receive the value supplied under
    it. Function nodes, both gate kinds and interrupts."""
    import asyncio

    from hypergraph import AsyncRunner, FunctionNode, Graph, IfElseNode, InterruptNode, RenameError, RouteNode

    got = {}

    def body(a, b=5):
        got["args"] = (a, b)
        return "t"

    def body_bool(a, b=5):
        got["args"] = (a, b)
        return True

    makers = {
        "function": lambda: FunctionNode(body, name="f", output_name="r", rename_inputs={"a": "b"}),
        "route": lambda: RouteNode(body, targets=["t"], name="f", rename_inputs={"a": "b"}),
        "ifelse": lambda: IfElseNode(body_bool, when_true="t", when_false="u", name="f", rename_inputs={"a": "b"}),
        "interrupt": lambda: InterruptNode(body, name="f", output_name="r", rename_inputs={"a": "b"}),
    }
    for kind, mk in makers.items():
        ctx.obs["constructor_collision_probes"] += 1
        case = {"program": f"{kind} node over f(a, b=5) constructed with rename_inputs={{'a': 'b'}}"}
        try:
            nd = mk()
        except RenameError:
            ctx.obs["rejections_ok"] += 1
            continue
        except Exception as e:  # noqa: BLE001
            ctx.violation("C06:duplicate-wrong-error", f"{kind}: colliding constructor rename raised {e!r}", case)
            continue
        # accepted: then it has to be honoured
        extra = []
        if kind in ("route", "ifelse"):
            extra = [FunctionNode(lambda: 1, name="t", output_name="to")] + ([FunctionNode(lambda: 2, name="u", output_name="uo")] if kind == "ifelse" else [])
        try:
            got.clear()
            asyncio.run(AsyncRunner().run(Graph([nd, *extra], name="cc"), {"b": 1}))
        except Exception as e:  # noqa: BLE001
            ctx.violation("C06:duplicate-accepted", f"{kind}: constructor accepted rename_inputs={{'a': 'b'}} (inputs {nd.inputs}) and the run then raised {e!r}", case)
            continue
        if got.get("args") != (1, 1):
            ctx.violation("C06:duplicate-accepted", f"{kind}: constructor accepted rename_inputs={{'a': 'b'}} (inputs {nd.inputs}); the value supplied under 'b' reached the parameters as {got.get('args')}: the parameter b, whose external name is 'b', got its default instead", case)
    ctx.case({"directed": "constructor-collisions"}, True)


def renamed_emit_outputs(ctx):
    """An ordering signal declared with emit= is an output like any other: renamed with with_outputs() (plain, through a
    temporary name, or swapped with the node's data output), the run publishes it under the NEW name - a node waiting
    for the new name runs (once, after the emitter), and the data value arrives under the data output's new name.
    Function nodes, both gate kinds and interrupts; both runners."""
    import asyncio

    from hypergraph import AsyncRunner, FunctionNode, Graph, IfElseNode, InterruptNode, RouteNode, SyncRunner
    from hypergraph.nodes.base import _EMIT_SENTINEL

    log = []

    def work(x):
        log.append("emitter")
        return ("val", x)

    def decide(x):
        log.append("emitter")
        return "tgt"

    def decide_b(x):
        log.append("emitter")
        return True

    def tgt_f(x):
        return ("tgt", x)

    def waiter_f(x):
        log.append("waiter")
        return ("waited", x)

    histories = {"plain": [{"sig": "sig2"}], "chain": [{"sig": "tmp"}, {"tmp": "sig2"}], "swap": [{"val": "sig", "sig": "val"}]}
    for kind in ("fn", "route", "ifelse", "int"):
        for hname, hist in histories.items():
            if hname == "swap" and kind in ("route", "ifelse"):
                continue  # gates have no data output to swap with
            if kind == "fn":
                nd = FunctionNode(work, name="em", output_name="val", emit="sig")
            elif kind == "int":
                nd = InterruptNode(work, name="em", output_name="val", emit="sig")
            elif kind == "route":
                nd = RouteNode(decide, targets=["tgt"], name="em", emit="sig")
            else:
                nd = IfElseNode(decide_b, when_true="tgt", when_false="other", name="em", emit="sig")
            try:
                for b in hist:
                    nd = nd.with_outputs(dict(b))
            except Exception as e:  # noqa: BLE001
                ctx.violation("C06:rename-raised", f"{kind}: with_outputs history {hist} on a node with emit='sig' raised {e!r}", {"program": f"{kind} emitter", "history": hist})
                continue
            new_sig = "val" if hname == "swap" else "sig2"
            new_val = "sig" if hname == "swap" else "val"
            extra = []
            if kind in ("route", "ifelse"):
                extra = [FunctionNode(tgt_f, name="tgt", output_name="t_out")] + ([FunctionNode(tgt_f, name="other", output_name="o_out")] if kind == "ifelse" else [])
            waiter = FunctionNode(waiter_f, name="waiter", output_name="w", wait_for=new_sig)
            case = {"program": f"{kind} node with emit='sig', outputs renamed by {hist}, waiter on {new_sig!r}", "outputs": list(nd.outputs)}
            try:
                g = Graph([waiter, nd, *extra], name="rem")
            except Exception as e:  # noqa: BLE001
                ctx.violation("C06:renamed-emit:graph-rejected", f"{case['program']}: the graph was rejected: {e!r}", case)
                continue
            for runner in ("sync", "async"):
                if kind == "int" and runner == "sync":
                    continue
                log.clear()
                try:
                    r = SyncRunner().run(g, {"x": 1}) if runner == "sync" else asyncio.run(AsyncRunner().run(g, {"x": 1}))
                except Exception as e:  # noqa: BLE001
                    ctx.violation("C06:renamed-emit:raised", f"{runner}: {case['program']}: {e!r}", case)
                    continue
                ctx.obs["renamed_emit_runs"] += 1
                if log != ["emitter", "waiter"]:
                    ctx.violation("C06:renamed-emit:waiter", f"{runner}: {case['program']}: executions {log}; the waiter runs once, after the emitter", case)
                elif kind in ("fn", "int") and r.values.get(new_val) != ("val", 1):
                    ctx.violation("C06:renamed-emit:data-value", f"{runner}: {case['program']}: the data output (now {new_val!r}) is {r.values.get(new_val)!r}", case)
                elif any(v is _EMIT_SENTINEL for v in r.values.values()):
                    ctx.violation("C06:renamed-emit:sentinel-returned", f"{runner}: {case['program']}: the ordering sentinel is among the returned values {sorted(r.values)}", case)
    ctx.case({"directed": "renamed-emit-outputs"}, True)


def run(ctx):
    n = 130 if ctx.tier == "quick" else 5500
    if ctx.replay:
        ctx.inconc("C06 replays are re-generated from the seed; re-run the tier with the recorded seed")
        return
    if ctx.shard[0] == 0:
        constructor_collisions(ctx)
        renamed_emit_outputs(ctx)
    for i in range(n):
        for kind in ("fn", "ifelse", "route", "int", "graph", "graph"):
            one_history(ctx, kind, i)
        if i % 3 == 0:
            alpha_graph(ctx, i)
        if i % 3 == 1:
            mapped_gated_rename(ctx, i)
        if i % 3 == 2:
            cached_rename_history(ctx, i)
