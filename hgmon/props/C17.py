"""C17 - ordering signals: a waiting node runs after, and once per, each production."""

from __future__ import annotations

import copy

from hgmon import core, gen, loops, monitors, ref, rt

LEVEL = "exploration"
RULE = (
    "generated DAGs with emit/wait_for pairs (1-3 waiters per signal, waits on emits and on data names, producers that "
    "are functions, gates and auto-resolving interrupts, shuffled node lists), gated programs whose gates emit, and "
    "signal-synchronised loops (counter and chat form, 0-2 extra waiters, iteration counts 0..9) on both runners with "
    "sampled completion orders. Safety on every trace: S1 a waiter never starts before a producer of the awaited name "
    "completed, S2 never in a step that contains such a producer, S3 never twice without a new production in between. "
    "Bounded liveness at quiescence: in DAGs every waiter whose producer ran has run (executed set = RefEval); in the "
    "signal loop the waiting gate and waiters ran once per production (counts and values = sequential do-while). "
    "Non-trivial: >= 1 wait check observed; distinct = canonical program shape / (template, parameters)."
    " Also a lagging waiter: the producer re-emits in every iteration while the waiter's data input changes every second iteration (both list orders, limits 2-7)."
    ' Also: histories of runs on one cache of loops whose waiting gate is cache=True (decisions served from the cache), judged on the delivered NodeStart/NodeEnd events.'
    ' Directed: a route gate with an emit that declines to route (None / empty list) still produces its signal on every run (DAG and loop); two waiters of one once-produced signal whose histories diverge (one stale without a new production, one still waiting for its data), both declaration orders.'
)
ASSUMPTIONS = [
    "production = the producer's function returning (call log exit); step membership from the get_ready_nodes tap",
    "liveness is only judged where the waiter's other conditions hold by construction (its data inputs change with every production)",
]
DECIDING = ["s1_checked", "s2_checked", "live_compared"]
THOROUGH_SHARDS = 12


def one(ctx, spec, inputs, runner, label, loop_ref=None, deterministic=True):
    case = {"spec": spec, "inputs": inputs, "runner": runner, "variant": label}
    s = core.with_async(spec, runner == "async", ctx.rng)
    sched = rt.Sched(default="rand", rng=ctx.rng) if runner == "async" else None
    o = core.execute(s, inputs, runner, sched=sched)
    if o.deadlock:
        ctx.violation("C17:deadlock", "logical deadlock", case)
        return
    if o.inconclusive:
        ctx.inconc(o.inconclusive)
        return
    if o.exc is not None:
        ctx.violation("C17:raised:" + type(o.exc).__name__, f"run raised {o.exc!r}", case)
        return
    bad, n = monitors.wait_rules(o.rec, spec, inputs)
    for k, v in n.items():
        ctx.obs[k] += v
    for key, what in bad[:2]:
        ctx.violation(key, f"{label}: {what}", case)
    from hypergraph.nodes.base import _EMIT_SENTINEL

    if any(v is _EMIT_SENTINEL for v in (o.values or {}).values()):
        ctx.violation("C17:sentinel-leak", f"{label}: ordering sentinel returned in values {sorted(o.values)}", case)
    if loop_ref is not None:
        ctx.obs["live_compared"] += 1
        got = {}
        for e in o.rec.ev:
            if e[0] == "enter":
                got[e[1]] = got.get(e[1], 0) + 1
        for nme, c in loop_ref["counts"].items():
            fid = f"{spec['name']}/{nme}"
            if got.get(fid, 0) != c:
                ctx.violation(
                    "C17:live:" + ("stalled" if got.get(fid, 0) < c else "extra"),
                    f"{label}: {fid} ran {got.get(fid, 0)} times but the signal was produced so that it must run {c} times (got {got}, expected {loop_ref['counts']})",
                    case,
                )
                break
        if o.values != loop_ref["values"]:
            ctx.violation("C17:live:values", f"{label}: values {core.short(o.values)} differ from the sequential loop {core.short(loop_ref['values'])}", case)
    elif deterministic:
        try:
            R = ref.ref_eval(spec, inputs)
        except ref.Ambiguous:
            ctx.obs["ref_ambiguous"] += 1
            return
        ctx.obs["live_compared"] += 1
        inv = o.rec.invocations()
        exp_ran = set(R.args)
        ran = set(inv)
        if ran != exp_ran:
            ctx.violation("C17:live:dag-set", f"{label}: executed {sorted(ran)} expected {sorted(exp_ran)} (missing {sorted(exp_ran - ran)}, extra {sorted(ran - exp_ran)})", case)
        else:
            for f, calls in inv.items():
                if f in R.once and len(calls) != 1:
                    ctx.violation("C17:live:dag-twice", f"{label}: {f} ran {len(calls)} times in a DAG", case)
                    break
        exp = ref.visible_values(spec, R)
        # A waiter that ran early on a fallback value is, by this very property, not
        # allowed to re-run when only its data input changes (the awaited name was not
        # produced again), so its output legitimately stays the fallback-based one:
        # values are only compared when no node can run early on a fallback.
        if len(R.once) != len(R.args):
            ctx.obs["values_skipped_fallback"] += 1
        elif o.values != exp:
            ctx.violation("C17:values", f"{label}: values {core.short(o.values)} expected {core.short(exp)}", case)


def cached_waiter_histories(ctx):
    """A waiter that is served from a CACHE is a waiter all the same: in a loop whose gate (cache=True) reads a value
    written early in the iteration and waits for the signal of the LAST body node, the gate starts once per production
    of the signal - also in the second and third run on one backend, where its decisions are cache hits and its
    function is never called. Judged on the delivered events (a cache hit leaves no call to log): every NodeStart of
    the waiter needs a NodeEnd of the signal's producer since the waiter's previous NodeStart; values as without cache."""
    from hypergraph import InMemoryCache
    from hypergraph.events import NodeEndEvent, NodeStartEvent

    rng = ctx.rng
    Rec, ARec = rt.make_processors()
    for N in (2, 4, 6):
        for gate_kind in ("route", "ifelse"):
            for cache_body in (False, True):
              for t in (loops.lagged_signal_loop(N, 0, gate_kind), loops.early_read_signal_loop(N, 0, gate_kind)):
                prod_name = "c" if t["template"].startswith("lagged") else "commit"
                spec = copy.deepcopy(t["spec"])
                for ns in spec["nodes"]:
                    if ns["name"] == "gate" or (cache_body and ns["name"] in ("a", "b", "write", "review")):
                        ns["cache"] = True
                for runner in ("sync", "async"):
                    cache = InMemoryCache()
                    for rep in range(3):
                        s_ = core.with_async(spec, runner == "async", rng)
                        proc = Rec("p") if runner == "sync" else ARec("p", rng, 1)
                        o = core.execute(s_, t["inputs"], runner, sched=rt.Sched(default="rand", rng=rng) if runner == "async" else None, cache=cache, processors=[proc], max_iterations=100)
                        ctx.obs["cached_waiter_runs"] += 1
                        case = {"spec": spec, "inputs": t["inputs"], "runner": runner, "variant": f"cached-waiter run {rep} on one cache"}
                        if o.deadlock or o.inconclusive:
                            ctx.inconc(o.inconclusive or "deadlock")
                            continue
                        if o.exc is not None or o.values != t["ref"]["values"]:
                            ctx.violation("C17:live:cached-waiter-values", f"{runner} run {rep}: {o.status} {o.exc!r} values {core.short(o.values)}; the loop gives {core.short(t['ref']['values'])}", case)
                            break
                        produced, at_last, starts = 0, None, 0
                        for ev in rt.events_of(o.rec, "p"):
                            if isinstance(ev, NodeEndEvent) and ev.node_name == prod_name:
                                produced += 1
                            elif isinstance(ev, NodeStartEvent) and ev.node_name == "gate":
                                starts += 1
                                ctx.obs["s3_checked"] += 1
                                if produced == 0:
                                    ctx.violation("C17:S1-before-production", f"{runner} run {rep}: cached gate start #{starts} before its signal was ever produced", case)
                                    break
                                if at_last is not None and produced <= at_last:
                                    ctx.violation("C17:S3-no-new-production", f"{runner} run {rep}: cached gate (served from the cache: {rep > 0}) start #{starts} although 'done' was not produced again since its previous start ({produced} productions so far)", case)
                                    break
                                at_last = produced
                ctx.case({"cached-waiter": N, "gate": gate_kind, "body_cached": cache_body}, True)


def reopened_gate_and_falsy_values(ctx):
    """Directed. (1) A waiting gate that first answers END and whose signal is then produced AGAIN together with a new
    value of its input (two ordered producers of the value and the signal): it decides again, and the branch it now
    selects runs. (2) Waiters on a VALUE name whose produced value is falsy (0, False, '', [], {}, None): a production
    is a production whatever the value is."""
    for first_target in ("END", "pub"):
        for node_order in (0, 1):
            nodes = [
                {"k": "fn", "name": "p1", "params": [{"n": "x"}], "outs": ["v"], "emit": ["ready"], "beh": ["const", 0 if first_target == "END" else 7]},
                {"k": "route", "name": "gate", "params": [{"n": "v"}], "targets": ["pub", "END"], "wait": ["ready"], "emit": ["decided"], "cond": ["ge", "v", 1], "then": "pub", "else": "END", "open": False},
                {"k": "fn", "name": "p2", "params": [{"n": "y"}], "outs": ["v"], "wait": ["decided"], "emit": ["ready"], "beh": ["const", 5]},
                {"k": "fn", "name": "pub", "params": [{"n": "v"}], "outs": ["out"], "beh": ["mark", "v", "pub"]},
            ]
            if node_order:
                nodes.reverse()
            spec = {"name": "reopen", "nodes": nodes, "bind": {}}
            lref = {"counts": {"p1": 1, "gate": 2, "p2": 1, "pub": 1 if first_target == "END" else 2}, "values": {"v": 5, "out": ("pub", 5)}}
            for runner in ("sync", "async"):
                one(ctx, spec, {"x": "run:x", "y": "run:y"}, runner, f"reopened-gate({first_target} first)-{runner}", loop_ref=lref)
                ctx.obs["reopened_gate_runs"] += 1
    for falsy in (0, False, "", [], {}, None):
        # DAG: validate(x) -> errors (falsy); publish(x) waits for the VALUE name errors
        spec = {"name": "fdag", "nodes": [
            {"k": "fn", "name": "validate", "params": [{"n": "x"}], "outs": ["errors"], "beh": ["const", falsy]},
            {"k": "fn", "name": "publish", "params": [{"n": "x"}], "outs": ["published"], "wait": ["errors"], "beh": ["mark", "x", "pub"]},
        ], "bind": {}}
        lref = {"counts": {"validate": 1, "publish": 1}, "values": {"errors": falsy, "published": ("pub", "run:x")}}
        for runner in ("sync", "async"):
            one(ctx, spec, {"x": "run:x"}, runner, f"falsy-value-waiter({falsy!r})-{runner}", loop_ref=lref)
            ctx.obs["falsy_value_waiter_runs"] += 1
    ctx.case({"directed": "reopened-gate-and-falsy-values"}, True)


def declining_gate_and_diverging_cowaiters(ctx):
    """Directed. (1) The producer of the awaited signal is a ROUTE gate that sometimes declines to route (None without a
    fallback, or an empty multi-target list): every run of the gate is a production of its signal, so the waiter runs
    once per run of the gate - in a DAG and in a counter loop where the gate declines on odd counts. (2) Two waiters of
    ONE signal that is produced once, whose histories diverge: `audit` reads the loop counter (it consumed the signal
    and is stale again without a new production: it must NOT run again), `report` reads a value that arrives three steps
    later (it must still run once); both declaration orders."""
    for multi in (False, True):
        decline = [] if multi else None
        # DAG
        spec = {"name": "decl", "nodes": [
            {"k": "route", "name": "triage", "params": [{"n": "c"}], "targets": ["handle"], "multi": multi, "table": [decline], "key": "c", "emit": ["triaged"], "open": False},
            {"k": "fn", "name": "handle", "params": [{"n": "c"}], "outs": ["h"], "beh": ["mark", "c", "h"]},
            {"k": "fn", "name": "journal", "params": [{"n": "c"}], "outs": ["j"], "wait": ["triaged"], "beh": ["mark", "c", "j"]},
        ], "bind": {}}
        for runner in ("sync", "async"):
            one(ctx, spec, {"c": 0}, runner, f"declining-gate-dag(multi={multi})-{runner}", loop_ref={"counts": {"triage": 1, "handle": 0, "journal": 1}, "values": {"j": ("j", 0)}})
            ctx.obs["declining_gate_runs"] += 1
        # loop: the gate declines on odd counts
        for N in (2, 3, 4):
            go = ["handle"] if multi else "handle"
            spec = {"name": "decl", "nodes": [
                {"k": "fn", "name": "inc", "params": [{"n": "c"}], "outs": ["c"], "beh": ["inc", "c"]},
                {"k": "route", "name": "again", "params": [{"n": "c"}], "targets": ["inc", "END"], "cond": ["lt", "c", N], "then": "inc", "else": "END", "open": False},
                {"k": "route", "name": "triage", "params": [{"n": "c"}], "targets": ["handle"], "multi": multi, "table": [go, decline], "key": "c", "emit": ["triaged"], "open": False},
                {"k": "fn", "name": "handle", "params": [{"n": "c"}], "outs": ["h"], "beh": ["mark", "c", "h"]},
                {"k": "fn", "name": "journal", "params": [{"n": "c"}], "outs": ["j"], "wait": ["triaged"], "beh": ["mark", "c", "j"]},
            ], "bind": {}}
            last_even = N if N % 2 == 0 else N - 1
            lref = {"counts": {"inc": N, "again": N + 1, "triage": N + 1, "journal": N + 1, "handle": N // 2 + 1}, "values": {"c": N, "j": ("j", N), "h": ("h", last_even)}}
            for runner in ("sync", "async"):
                one(ctx, spec, {"c": 0}, runner, f"declining-gate-loop(N={N},multi={multi})-{runner}", loop_ref=lref)
                ctx.obs["declining_gate_runs"] += 1
    for report_first in (False, True):
        audit = {"k": "fn", "name": "audit", "params": [{"n": "c"}], "outs": ["au"], "wait": ["opened"], "beh": ["mark", "c", "au"]}
        report = {"k": "fn", "name": "report", "params": [{"n": "late"}], "outs": ["rp"], "wait": ["opened"], "beh": ["mark", "late", "rp"]}
        nodes = [
            {"k": "fn", "name": "open_", "params": [{"n": "x"}], "outs": ["o"], "emit": ["opened"], "beh": ["const", 1]},
            {"k": "fn", "name": "s1", "params": [{"n": "x"}], "outs": ["a1"], "beh": ["const", 1]},
            {"k": "fn", "name": "s2", "params": [{"n": "a1"}], "outs": ["a2"], "beh": ["inc", "a1"]},
            {"k": "fn", "name": "s3", "params": [{"n": "a2"}], "outs": ["late"], "beh": ["inc", "a2"]},
            {"k": "fn", "name": "inc", "params": [{"n": "c"}], "outs": ["c"], "beh": ["inc", "c"]},
            {"k": "route", "name": "again", "params": [{"n": "c"}], "targets": ["inc", "END"], "cond": ["lt", "c", 5], "then": "inc", "else": "END", "open": False},
        ] + ([report, audit] if report_first else [audit, report])
        spec = {"name": "cow", "nodes": nodes, "bind": {}}
        lref = {"counts": {"open_": 1, "s1": 1, "s2": 1, "s3": 1, "inc": 5, "again": 6, "audit": 1, "report": 1}, "values": {"o": 1, "a1": 1, "a2": 2, "late": 3, "c": 5, "au": ("au", 0), "rp": ("rp", 3)}}
        for runner in ("sync", "async"):
            one(ctx, spec, {"x": 0, "c": 0}, runner, f"diverging-cowaiters(report_first={report_first})-{runner}", loop_ref=lref)
            ctx.obs["diverging_cowaiter_runs"] += 1
    ctx.case({"directed": "declining-gate-and-diverging-cowaiters"}, True)


def run(ctx):
    n = 700 if ctx.tier == "quick" else 9000
    if ctx.replay:
        c = ctx.replay["case"]
        one(ctx, c["spec"], c["inputs"], c["runner"], "replay", deterministic=False)
        ctx.case("r1")
        ctx.case("r2")
        return
    if ctx.shard[0] == 0:
        cached_waiter_histories(ctx)
        reopened_gate_and_falsy_values(ctx)
        declining_gate_and_diverging_cowaiters(ctx)
    sysn = 0
    for N in range(0, 10 if ctx.tier == "thorough" else 6):
        for kind, obs in (("counter", 0), ("chat", 0), ("counter", 2)):
            if ctx.shard[0] != sysn % ctx.shard[1]:
                sysn += 1
                continue
            sysn += 1
            t = loops.signal_loop(N, 0, kind, True, observers=obs)
            for runner in ("sync", "async"):
                one(ctx, t["spec"], t["inputs"], runner, f"{t['template']}-{runner}", loop_ref=t["ref"])
            ctx.case({"t": t["template"], "N": N}, True, sample={"template": t["template"], "spec": t["spec"], "inputs": t["inputs"]} if N == 3 and obs else None)
    for N in range(0, 6):
        for t in (loops.once_signal_loop(N, 1), loops.seeded_wait(1 + N % 3), loops.two_signal_loop(3 * N, N % 2, 1 + N % 2)):
            if ctx.shard[0] != sysn % ctx.shard[1]:
                sysn += 1
                continue
            sysn += 1
            for runner in ("sync", "async"):
                one(ctx, t["spec"], t["inputs"], runner, f"{t['template']}-{runner}", loop_ref=t["ref"])
            ctx.case({"t": t["template"]}, True)
    for N in range(2, 8):
        for wf in (True, False):
            if ctx.shard[0] != sysn % ctx.shard[1]:
                sysn += 1
                continue
            sysn += 1
            t = loops.lagging_waiter_loop(N, wf)
            for runner in ("sync", "async", "async"):
                one(ctx, t["spec"], t["inputs"], runner, f"{t['template']}-{runner}", deterministic=False)
            ctx.obs["lagging_waiter_runs"] += 3
            ctx.case({"t": t["template"], "N": N}, True)
    for i in range(n):
        rng = ctx.rng
        r = rng.random()
        if r < 0.2:
            if rng.random() < 0.3:
                t = loops.two_signal_loop(rng.randint(0, 12), rng.randint(0, 3), rng.randint(1, 2))
            else:
                t = loops.signal_loop(rng.randint(0, 8), rng.randint(0, 3), rng.choice(["counter", "chat"]), rng.random() < 0.85, observers=rng.choice([0, 1, 2]))
            for runner in ("sync", "async"):
                one(ctx, t["spec"], t["inputs"], runner, f"{t['template']}-{runner}", loop_ref=t["ref"])
            ctx.case({"t": t["template"], "in": t["inputs"], "c": str(t["ref"]["counts"])}, True)
        elif r < 0.35:
            spec = gen.gen_gated(rng, deterministic=True)
            inputs = gen.gated_inputs(rng, spec)
            for runner in ("sync", "async"):
                one(ctx, spec, inputs, runner, f"gated-{runner}")
            ctx.case({"s": gen.shape_of(spec)}, any(ns.get("wait") for ns in spec["nodes"]))
        else:
            allow_int = rng.random() < 0.5
            spec = gen.gen_wait_dag(rng, allow_int, p_default_edge=rng.choice([0.0, 0.0, 0.3]))
            bind, provided = gen.assign_sources(rng, spec)
            inputs = {k: f"run:{k}" for k in gen.consumed_inputs(spec)}
            if "sg" in inputs:
                inputs["sg"] = rng.randint(0, 1)
            has_int = any(ns["k"] == "int" for ns in spec["nodes"])
            for variant, s in (("orig", spec), ("shuffled", gen.shuffled(rng, spec))):
                for runner in (("async",) if has_int else ("sync", "async")):
                    one(ctx, s, inputs, runner, f"dag-{variant}-{runner}")
            early = False
            try:
                R0 = ref.ref_eval(spec, inputs)
                early = len(R0.once) != len(R0.args)
            except ref.Ambiguous:
                early = True
            if has_int and not early:
                # (with a node upstream that first runs on a fallback value the interrupt is
                # re-executed when the real value arrives and asks again - by design, as in cycles)
                # pause/resume history: the interrupt pauses first and completes through the
                # resume path in the second run; its signal must still reach the waiters
                sp = copy.deepcopy(spec)
                for ns in sp["nodes"]:
                    if ns["k"] == "int":
                        ns["handler"] = "pause"
                        out_name = ns["outs"][0]
                o1 = core.execute(sp, inputs, "async")
                ctx.obs["pause_resume_histories"] += 1
                if o1.status == "paused" and o1.pause is not None:
                    inputs2 = dict(inputs)
                    inputs2[o1.pause.response_key] = "answer:resumed"
                    one(ctx, sp, inputs2, "async", "dag-resume-async")
                elif o1.status != "completed":
                    ctx.violation("C17:pause-expected", f"interrupt with a pausing handler: status {o1.status} {o1.exc!r}", {"spec": sp, "inputs": inputs})
            ctx.case({"s": gen.shape_of(spec)}, any(ns.get("wait") for ns in spec["nodes"]), sample={"spec": spec, "inputs": inputs} if i < 2 else None)
