"""Offline trace monitors over the unified log (hgmon.rt.Rec)."""

from __future__ import annotations

from hgmon import ref
from hgmon.build import fid_of

END_TOKEN = "END"


def level_index(spec: dict, path: str | None = None, out=None) -> dict:
    """graph name -> (program spec, fid path) for the program and every nested program."""
    out = {} if out is None else out
    path = spec["name"] if path is None else path
    out[spec["name"]] = (spec, path)
    for ns in spec["nodes"]:
        if ns["k"] == "sub":
            level_index(ns["prog"], fid_of(path, ns["name"]), out)
            # the run's graph name is the inner program's name
    return out


def fid_index(spec: dict, path: str | None = None, out=None) -> dict:
    """fid -> (node spec, level program spec)"""
    out = {} if out is None else out
    path = spec["name"] if path is None else path
    for ns in spec["nodes"]:
        if ns["k"] == "sub":
            fid_index(ns["prog"], fid_of(path, ns["name"]), out)
        else:
            out[ns.get("fid") or fid_of(path, ns["name"])] = (ns, spec)
    return out


def decision_token(ns: dict, result):
    """Gate function return value -> spec-level decision."""
    if ns["k"] == "ifelse":
        return ns["t"] if result else ns["f"]
    if result is None:
        return ns.get("fallback")
    if isinstance(result, list):
        return [_tok(x) for x in result]
    return _tok(result)


def _tok(x):
    return x if isinstance(x, str) else END_TOKEN


def gate_rules(rec, spec: dict):
    """R1: a gated node starts only while some controlling gate's latest decision names
    it, or a default-open controlling gate has not decided yet in this run.
    R2: a step never contains a gate together with one of its targets.
    Returns (violations, counters)."""
    fidx = fid_index(spec)
    lidx = level_index(spec)
    ctrl_cache: dict[str, dict] = {}
    for gname, (prog, path) in lidx.items():
        ctrl_cache[gname] = (ref.controlling(prog), path, {ref.node_name(ns): ns for ns in prog["nodes"]})
    latest: dict[tuple, object] = {}  # (run token, gate fid) -> decision
    decided: set[tuple] = set()
    run_graph: dict[int, str] = {}
    bad = []
    n = {"r1_checked": 0, "r2_checked": 0, "decisions": 0}

    def check_start(run, level_name, node_name, what, idx):
        if level_name not in ctrl_cache:
            return
        ctrl, path, _ = ctrl_cache[level_name]
        gates = ctrl.get(node_name)
        if not gates:
            return
        n["r1_checked"] += 1
        for g in gates:
            gf = g.get("fid") or fid_of(path, g["name"])
            if (run, gf) in decided:
                if ref.decision_names(latest[(run, gf)], node_name):
                    return
            elif g.get("open", True):
                return
        bad.append(("C03:R1-not-selected", f"{what} started at log index {idx} although no controlling gate's latest decision names it: " + ", ".join(f"{g['name']}={latest.get((run, g.get('fid') or fid_of(path, g['name'])), '<undecided>')!r}(open={g.get('open', True)})" for g in gates)))

    for i, e in enumerate(rec.ev):
        k = e[0]
        if k == "run_begin":
            run_graph[e[1]] = e[2]
            parent = e[3]
            if parent is not None and parent in run_graph:
                # a nested program starting = its wrapper node starting at the parent level
                plevel = run_graph[parent]
                if plevel in ctrl_cache:
                    _, _, by_name = ctrl_cache[plevel]
                    for nm, ns in by_name.items():
                        if ns["k"] == "sub" and ns["prog"]["name"] == e[2]:
                            check_start(parent, plevel, nm, f"nested graph node {nm}", i)
        elif k == "exit" and e[1] in fidx and fidx[e[1]][0]["k"] in ("ifelse", "route"):
            ns = fidx[e[1]][0]
            latest[(e[3], e[1])] = decision_token(ns, e[2])
            decided.add((e[3], e[1]))
            n["decisions"] += 1
        elif k == "enter" and e[1] in fidx:
            ns, prog = fidx[e[1]]
            check_start(e[3], prog["name"], ref.node_name(ns), e[1], i)
        elif k == "ready":
            level = e[2]
            if level in ctrl_cache:
                _, _, by_name = ctrl_cache[level]
                names = set(e[3])
                for nm in e[3]:
                    ns = by_name.get(nm)
                    if ns is not None and ns["k"] in ("ifelse", "route"):
                        n["r2_checked"] += 1
                        both = names & set(ref.gate_targets(ns))
                        if both:
                            bad.append(("C03:R2-gate-with-target", f"step of {level} contains gate {nm} together with its target(s) {sorted(both)}: {sorted(names)}"))
    return bad, n


def steps_per_run(rec) -> dict[int, int]:
    """run token -> number of executed steps (non-empty ready sets followed by work)."""
    out: dict[int, int] = {}
    for e in rec.ev:
        if e[0] == "step":
            out[e[1]] = out.get(e[1], 0) + 1
    return out


def wait_rules(rec, spec: dict, provided: dict | None = None):
    """C17 safety. S1: a waiter starts only after a producer of each awaited name has
    completed. S2: never in the same step as a producer of that name. S3: between two
    starts of a waiter every awaited name is produced again."""
    fidx = fid_index(spec)
    lidx = level_index(spec)
    prods: dict[str, dict[str, list[str]]] = {}
    by_name: dict[str, dict] = {}
    for gname, (prog, path) in lidx.items():
        p = {}
        for nm, lst in ref.producers(prog).items():
            p[nm] = [ref.node_name(x) for x in lst]
        prods[gname] = p
        by_name[gname] = {ref.node_name(ns): ns for ns in prog["nodes"]}
    produced_count: dict[tuple, int] = {}  # (run, level, name) -> completed productions
    provided = provided or {}
    resumed_once: set[tuple] = set()
    pending: dict[int, list[tuple]] = {}  # run -> productions that become visible at the next ready event
    seen_at_start: dict[tuple, dict] = {}  # (run, waiter fid) -> {name: count at last start}
    bad = []
    n = {"s1_checked": 0, "s2_checked": 0, "s3_checked": 0}
    for i, e in enumerate(rec.ev):
        k = e[0]
        if k == "exit" and e[1] in fidx:
            ns, prog = fidx[e[1]]
            for _, ext in ref.node_outputs(ns):
                key = (e[3], prog["name"], ext)
                produced_count[key] = produced_count.get(key, 0) + 1
        elif k == "enter" and e[1] in fidx:
            ns, prog = fidx[e[1]]
            waits = ns.get("wait") or []
            if not waits:
                continue
            prev = seen_at_start.get((e[3], e[1]))
            cur = {}
            for w in waits:
                c = produced_count.get((e[3], prog["name"], w), 0)
                cur[w] = c
                n["s1_checked"] += 1
                if c == 0 and w not in provided:
                    # (a name supplied by the caller counts as produced by the caller)
                    bad.append(("C17:S1-before-production", f"{e[1]} started at log index {i} before any producer of '{w}' completed"))
                if prev is not None:
                    n["s3_checked"] += 1
                    if c <= prev[w]:
                        bad.append(("C17:S3-not-reproduced", f"{e[1]} started again at log index {i} although '{w}' was not produced again since its previous start"))
            seen_at_start[(e[3], e[1])] = cur
        elif k == "step":
            # an interrupt whose answers were supplied completes through the resume path
            # without its handler being called: its outputs (and signals) are produced by
            # this step (only the first interrupt of a step runs, alone)
            level = e[2]
            if level in by_name:
                for nm in e[3]:
                    ns = by_name[level].get(nm)
                    if ns is not None and ns["k"] == "int":
                        outs = [ext for o, ext in ref.node_outputs(ns) if o in ns.get("outs", [])]
                        if outs and all(x in provided for x in outs) and (e[1], nm) not in resumed_once:
                            resumed_once.add((e[1], nm))
                            pending.setdefault(e[1], []).extend((e[1], level, ext) for _, ext in ref.node_outputs(ns))
                        break
        elif k == "ready":
            for key in pending.pop(e[1], []):
                produced_count[key] = produced_count.get(key, 0) + 1
            level = e[2]
            if level not in by_name:
                continue
            names = set(e[3])
            for nm in e[3]:
                ns = by_name[level].get(nm)
                if ns is None or ns["k"] == "sub":
                    continue
                for w in ns.get("wait") or []:
                    n["s2_checked"] += 1
                    co = [p for p in prods[level].get(w, []) if p in names and p != nm]
                    if co:
                        bad.append(("C17:S2-same-step", f"step of {level} contains waiter {nm} together with producer(s) {co} of '{w}'"))
    return bad, n


# ---------------------------------------------------------------------------
# C12: span-tree grammar over a delivered event stream
# ---------------------------------------------------------------------------


def span_check(events, spec=None):
    """Single pass over the stream of one terminated top-level call.
    Returns (violations [(key, what)], stats)."""
    from hypergraph.events import CacheHitEvent, NodeEndEvent, NodeErrorEvent, NodeStartEvent, RouteDecisionEvent, RunEndEvent, RunStartEvent

    bad = []
    st = {"events": len(events), "runs": 0, "node_spans": 0, "nested_runs": 0, "map_runs": 0, "cache_hits": 0, "route_decisions": 0, "node_errors": 0}
    if not events:
        return [("C12:empty-stream", "no events delivered for a terminated run")], st
    runs = {}  # span -> dict
    nodes = {}  # span -> dict
    seen_spans = set()
    subs = {}
    if spec is not None:
        for gname, (prog, path) in level_index(spec).items():
            for ns in prog["nodes"]:
                if ns["k"] == "sub":
                    subs[(gname, ref.node_name(ns))] = ns["prog"]["name"]
    first, last = events[0], events[-1]
    if not isinstance(first, RunStartEvent) or first.parent_span_id is not None:
        bad.append(("C12:first-not-root-runstart", f"first event is {type(first).__name__} parent={getattr(first, 'parent_span_id', None)}"))
    root = first.span_id if isinstance(first, RunStartEvent) else None
    if not isinstance(last, RunEndEvent) or last.span_id != root:
        bad.append(("C12:last-not-root-runend", f"last event is {type(last).__name__} span={getattr(last, 'span_id', None)} root={root}"))
    for i, ev in enumerate(events):
        if isinstance(ev, RunStartEvent):
            st["runs"] += 1
            if ev.span_id in seen_spans:
                bad.append(("C12:run-opened-twice", f"RunStart #{i} re-uses span {ev.span_id}"))
                continue
            seen_spans.add(ev.span_id)
            p = ev.parent_span_id
            if p is None:
                if i != 0:
                    bad.append(("C12:second-root", f"RunStart #{i} of {ev.graph_name} has no parent but is not the first event"))
            elif p in nodes and nodes[p]["open"]:
                nd = nodes[p]
                st["nested_runs"] += 1
                nd["child_runs"].append(ev.span_id)
                want = subs.get((nd["graph"], nd["name"]))
                if spec is not None and want is None:
                    bad.append(("C12:nested-run-under-non-graph-node", f"RunStart #{i} of {ev.graph_name} is parented to node {nd['graph']}/{nd['name']} which is not a nested-graph node"))
                elif spec is not None and want != ev.graph_name:
                    bad.append(("C12:nested-run-wrong-parent", f"RunStart #{i} of graph {ev.graph_name} is parented to the span of node {nd['graph']}/{nd['name']}, which launches {want}"))
            elif p in runs and runs[p]["open"] and runs[p]["is_map"]:
                runs[p]["child_runs"].append(ev.span_id)
                if ev.graph_name != runs[p]["graph"]:
                    bad.append(("C12:map-item-wrong-graph", f"map item run of {ev.graph_name} under map run of {runs[p]['graph']}"))
            else:
                bad.append(("C12:run-parent-not-open", f"RunStart #{i} of {ev.graph_name}: parent span {p} is not an open node span or open map run"))
            if ev.is_map:
                st["map_runs"] += 1
            runs[ev.span_id] = {"open": True, "run_id": ev.run_id, "graph": ev.graph_name, "is_map": ev.is_map, "child_nodes": [], "child_runs": [], "parent": p, "map_size": ev.map_size}
        elif isinstance(ev, RunEndEvent):
            r = runs.get(ev.span_id)
            if r is None or not r["open"]:
                bad.append(("C12:runend-without-open-run", f"RunEnd #{i} of {ev.graph_name} span {ev.span_id}: " + ("already closed" if r else "never opened")))
                continue
            if ev.run_id != r["run_id"] or ev.parent_span_id != r["parent"]:
                bad.append(("C12:runend-mismatch", f"RunEnd #{i}: run_id/parent differ from its RunStart"))
            still = [nodes[n]["name"] for n in r["child_nodes"] if nodes[n]["open"]] + [runs[c]["graph"] for c in r["child_runs"] if runs[c]["open"]]
            if still:
                bad.append(("C12:parent-closed-before-child", f"RunEnd #{i} of {ev.graph_name} while children are still open: {still}"))
            if r["is_map"] and r["map_size"] is not None and ev.status.value == "completed" and len(r["child_runs"]) != r["map_size"]:
                bad.append(("C12:map-size", f"map run of {ev.graph_name} announced {r['map_size']} items and completed with {len(r['child_runs'])} item runs"))
            r["open"] = False
            r["status"] = ev.status.value
        elif isinstance(ev, NodeStartEvent):
            st["node_spans"] += 1
            if ev.span_id in seen_spans:
                bad.append(("C12:node-opened-twice", f"NodeStart #{i} of {ev.node_name} re-uses span {ev.span_id}"))
                continue
            seen_spans.add(ev.span_id)
            r = runs.get(ev.parent_span_id)
            if r is None or not r["open"] or r["is_map"]:
                bad.append(("C12:node-outside-run", f"NodeStart #{i} of {ev.node_name}: parent span is not an open (non-map) run"))
            else:
                if r["run_id"] != ev.run_id or r["graph"] != ev.graph_name:
                    bad.append(("C12:node-foreign-run", f"NodeStart #{i} of {ev.node_name}: run_id/graph differ from the enclosing run"))
                r["child_nodes"].append(ev.span_id)
            nodes[ev.span_id] = {"open": True, "name": ev.node_name, "graph": ev.graph_name, "run": ev.parent_span_id, "run_id": ev.run_id, "child_runs": [], "cache_hit": False}
        elif isinstance(ev, (NodeEndEvent, NodeErrorEvent)):
            nd = nodes.get(ev.span_id)
            kind = type(ev).__name__
            if isinstance(ev, NodeErrorEvent):
                st["node_errors"] += 1
            if nd is None or not nd["open"]:
                bad.append(("C12:node-close-without-open", f"{kind} #{i} of {ev.node_name}: span " + ("already closed" if nd else "never opened")))
                continue
            if nd["name"] != ev.node_name or nd["run"] != ev.parent_span_id or nd["run_id"] != ev.run_id:
                bad.append(("C12:node-close-mismatch", f"{kind} #{i} of {ev.node_name} does not match its NodeStart ({nd['name']})"))
            still = [runs[c]["graph"] for c in nd["child_runs"] if runs[c]["open"]]
            if still:
                bad.append(("C12:parent-closed-before-child", f"{kind} #{i} of {ev.node_name} while nested runs are still open: {still}"))
            if isinstance(ev, NodeEndEvent) and bool(ev.cached) != nd["cache_hit"]:
                bad.append(("C12:cached-flag", f"NodeEnd #{i} of {ev.node_name}: cached={ev.cached} but cache-hit event seen={nd['cache_hit']}"))
            nd["open"] = False
        elif isinstance(ev, CacheHitEvent):
            st["cache_hits"] += 1
            nd = nodes.get(ev.span_id)
            if nd is None or not nd["open"] or nd["name"] != ev.node_name or nd["run_id"] != ev.run_id:
                bad.append(("C12:cachehit-outside-span", f"CacheHit #{i} of {ev.node_name} is not inside the open span of that node"))
            else:
                nd["cache_hit"] = True
        elif isinstance(ev, RouteDecisionEvent):
            st["route_decisions"] += 1
            r = runs.get(ev.parent_span_id)
            if r is None or not r["open"] or r["run_id"] != ev.run_id:
                bad.append(("C12:route-decision-outside-run", f"RouteDecision #{i} of {ev.node_name}: not inside its open run"))
            else:
                if not any(nodes[n]["open"] and nodes[n]["name"] == ev.node_name for n in r["child_nodes"]):
                    bad.append(("C12:route-decision-outside-gate-span", f"RouteDecision #{i} of {ev.node_name}: the gate's node span is not open"))
    for s, r in runs.items():
        if r["open"]:
            bad.append(("C12:run-never-closed", f"run of {r['graph']} (span {s}) never closed"))
    for s, nd in nodes.items():
        if nd["open"]:
            bad.append(("C12:node-never-closed", f"node span of {nd['graph']}/{nd['name']} never closed"))
    st["root_status"] = runs[root]["status"] if root in runs and "status" in runs[root] else None
    st["open_nodes"] = sorted((nd["graph"], nd["name"]) for nd in nodes.values() if nd["open"])
    st["open_runs"] = sorted(r["graph"] for r in runs.values() if r["open"])
    return bad, st


def span_tree(events):
    """Canonical, order-insensitive-between-siblings form of a stream: used to compare what
    two processors received (interleaving of sibling spans is schedule dependent)."""
    from hypergraph.events import CacheHitEvent, NodeEndEvent, NodeErrorEvent, NodeStartEvent, RouteDecisionEvent, RunEndEvent, RunStartEvent

    own = {}  # span -> list of own event descriptors in order
    parent = {}
    label = {}
    for ev in events:
        if isinstance(ev, RunStartEvent):
            parent[ev.span_id] = ev.parent_span_id
            label[ev.span_id] = ("run", ev.graph_name, ev.is_map, ev.map_size)
            own.setdefault(ev.span_id, []).append("start")
        elif isinstance(ev, RunEndEvent):
            own.setdefault(ev.span_id, []).append(("end", ev.status.value, ev.error))
        elif isinstance(ev, NodeStartEvent):
            parent[ev.span_id] = ev.parent_span_id
            label[ev.span_id] = ("node", ev.graph_name, ev.node_name)
            own.setdefault(ev.span_id, []).append("start")
        elif isinstance(ev, NodeEndEvent):
            own.setdefault(ev.span_id, []).append(("end", ev.cached))
        elif isinstance(ev, NodeErrorEvent):
            own.setdefault(ev.span_id, []).append(("error", ev.error_type))
        elif isinstance(ev, CacheHitEvent):
            own.setdefault(ev.span_id, []).append("cachehit")
        elif isinstance(ev, RouteDecisionEvent):
            own.setdefault(ev.parent_span_id, []).append(("decision", ev.node_name, repr(ev.decision)))
    kids = {}
    for s, p in parent.items():
        kids.setdefault(p, []).append(s)

    def canon(s):
        evs = own.get(s, [])
        decisions = sorted(repr(e) for e in evs if isinstance(e, tuple) and e[0] == "decision")
        others = [e for e in evs if not (isinstance(e, tuple) and e[0] == "decision")]
        return (label.get(s), tuple(repr(e) for e in others), tuple(decisions), tuple(sorted(repr(canon(k)) for k in kids.get(s, []))))

    roots = [s for s, p in parent.items() if p is None or p not in parent]
    orphan = sorted(repr((k, v)) for k, v in own.items() if k not in parent)
    return (tuple(sorted(repr(canon(r)) for r in roots)), tuple(orphan))
