"""Offline trace monitors over the unified log (hgmon.rt.Rec)."""

from __future__ import annotations

from hgmon import ref
from hgmon.build import fid_of

END_TOKEN = "END"


def level_index(spec: dict, path: str | None = None, out=None) -> dict:
    """graph name -> (program spec, fid path) for the program and every nested program."""
    out = {} if out is None else out
    path = spec["name"] if path is None else path
    out[spec["name"]] = (spec, path)
    for ns in spec["nodes"]:
        if ns["k"] == "sub":
            level_index(ns["prog"], fid_of(path, ns["name"]), out)
            # the run's graph name is the inner program's name
    return out


def fid_index(spec: dict, path: str | None = None, out=None) -> dict:
    """fid -> (node spec, level program spec)"""
    out = {} if out is None else out
    path = spec["name"] if path is None else path
    for ns in spec["nodes"]:
        if ns["k"] == "sub":
            fid_index(ns["prog"], fid_of(path, ns["name"]), out)
        else:
            out[ns.get("fid") or fid_of(path, ns["name"])] = (ns, spec)
    return out


def decision_token(ns: dict, result):
    """Gate function return value -> spec-level decision."""
    if ns["k"] == "ifelse":
        return ns["t"] if result else ns["f"]
    if result is None:
        return ns.get("fallback")
    if isinstance(result, list):
        return [_tok(x) for x in result]
    return _tok(result)


def _tok(x):
    return x if isinstance(x, str) else END_TOKEN


def gate_rules(rec, spec: dict):
    """R1: a gated node starts only while some controlling gate's latest decision names
    it, or a default-open controlling gate has not decided yet in this run.
    R2: a step never contains a gate together with one of its targets.
    Returns (violations, counters)."""
    fidx = fid_index(spec)
    lidx = level_index(spec)
    ctrl_cache: dict[str, dict] = {}
    for gname, (prog, path) in lidx.items():
        ctrl_cache[gname] = (ref.controlling(prog), path, {ref.node_name(ns): ns for ns in prog["nodes"]})
    latest: dict[tuple, object] = {}  # (run token, gate fid) -> decision
    decided: set[tuple] = set()
    run_graph: dict[int, str] = {}
    bad = []
    n = {"r1_checked": 0, "r2_checked": 0, "decisions": 0}

    def check_start(run, level_name, node_name, what, idx):
        if level_name not in ctrl_cache:
            return
        ctrl, path, _ = ctrl_cache[level_name]
        gates = ctrl.get(node_name)
        if not gates:
            return
        n["r1_checked"] += 1
        for g in gates:
            gf = g.get("fid") or fid_of(path, g["name"])
            if (run, gf) in decided:
                if ref.decision_names(latest[(run, gf)], node_name):
                    return
            elif g.get("open", True):
                return
        bad.append(("C03:R1-not-selected", f"{what} started at log index {idx} although no controlling gate's latest decision names it: " + ", ".join(f"{g['name']}={latest.get((run, g.get('fid') or fid_of(path, g['name'])), '<undecided>')!r}(open={g.get('open', True)})" for g in gates)))

    for i, e in enumerate(rec.ev):
        k = e[0]
        if k == "run_begin":
            run_graph[e[1]] = e[2]
            parent = e[3]
            if parent is not None and parent in run_graph:
                # a nested program starting = its wrapper node starting at the parent level
                plevel = run_graph[parent]
                if plevel in ctrl_cache:
                    _, _, by_name = ctrl_cache[plevel]
                    for nm, ns in by_name.items():
                        if ns["k"] == "sub" and ns["prog"]["name"] == e[2]:
                            check_start(parent, plevel, nm, f"nested graph node {nm}", i)
        elif k == "exit" and e[1] in fidx and fidx[e[1]][0]["k"] in ("ifelse", "route"):
            ns = fidx[e[1]][0]
            latest[(e[3], e[1])] = decision_token(ns, e[2])
            decided.add((e[3], e[1]))
            n["decisions"] += 1
        elif k == "enter" and e[1] in fidx:
            ns, prog = fidx[e[1]]
            check_start(e[3], prog["name"], ref.node_name(ns), e[1], i)
        elif k == "ready":
            level = e[2]
            if level in ctrl_cache:
                _, _, by_name = ctrl_cache[level]
                names = set(e[3])
                for nm in e[3]:
                    ns = by_name.get(nm)
                    if ns is not None and ns["k"] in ("ifelse", "route"):
                        n["r2_checked"] += 1
                        both = names & set(ref.gate_targets(ns))
                        if both:
                            bad.append(("C03:R2-gate-with-target", f"step of {level} contains gate {nm} together with its target(s) {sorted(both)}: {sorted(names)}"))
    return bad, n


def steps_per_run(rec) -> dict[int, int]:
    """run token -> number of executed steps (non-empty ready sets followed by work)."""
    out: dict[int, int] = {}
    for e in rec.ev:
        if e[0] == "step":
            out[e[1]] = out.get(e[1], 0) + 1
    return out


def wait_rules(rec, spec: dict, provided: dict | None = None):
    """C17 safety. S1: a waiter starts only after a producer of each awaited name has
    completed. S2: never in the same step as a producer of that name. S3: between two
    starts of a waiter every awaited name is produced again."""
    fidx = fid_index(spec)
    lidx = level_index(spec)
    prods: dict[str, dict[str, list[str]]] = {}
    by_name: dict[str, dict] = {}
    for gname, (prog, path) in lidx.items():
        p = {}
        for nm, lst in ref.producers(prog).items():
            p[nm] = [ref.node_name(x) for x in lst]
        prods[gname] = p
        by_name[gname] = {ref.node_name(ns): ns for ns in prog["nodes"]}
    produced_count: dict[tuple, int] = {}  # (run, level, name) -> completed productions
    provided = provided or {}
    resumed_once: set[tuple] = set()
    pending: dict[int, list[tuple]] = {}  # run -> productions that become visible at the next ready event
    seen_at_start: dict[tuple, dict] = {}  # (run, waiter fid) -> {name: count at last start}
    bad = []
    n = {"s1_checked": 0, "s2_checked": 0, "s3_checked": 0}
    for i, e in enumerate(rec.ev):
        k = e[0]
        if k == "exit" and e[1] in fidx:
            ns, prog = fidx[e[1]]
            for _, ext in ref.node_outputs(ns):
                key = (e[3], prog["name"], ext)
                produced_count[key] = produced_count.get(key, 0) + 1
        elif k == "enter" and e[1] in fidx:
            ns, prog = fidx[e[1]]
            waits = ns.get("wait") or []
            if not waits:
                continue
            prev = seen_at_start.get((e[3], e[1]))
            cur = {}
            for w in waits:
                c = produced_count.get((e[3], prog["name"], w), 0)
                cur[w] = c
                n["s1_checked"] += 1
                if c == 0 and w not in provided:
                    # (a name supplied by the caller counts as produced by the caller)
                    bad.append(("C17:S1-before-production", f"{e[1]} started at log index {i} before any producer of '{w}' completed"))
                if prev is not None:
                    n["s3_checked"] += 1
                    if c <= prev[w]:
                        bad.append(("C17:S3-not-reproduced", f"{e[1]} started again at log index {i} although '{w}' was not produced again since its previous start"))
            seen_at_start[(e[3], e[1])] = cur
        elif k == "step":
            # an interrupt whose answers were supplied completes through the resume path
            # without its handler being called: its outputs (and signals) are produced by
            # this step (only the first interrupt of a step runs, alone)
            level = e[2]
            if level in by_name:
                for nm in e[3]:
                    ns = by_name[level].get(nm)
                    if ns is not None and ns["k"] == "int":
                        outs = [ext for o, ext in ref.node_outputs(ns) if o in ns.get("outs", [])]
                        if outs and all(x in provided for x in outs) and (e[1], nm) not in resumed_once:
                            resumed_once.add((e[1], nm))
                            pending.setdefault(e[1], []).extend((e[1], level, ext) for _, ext in ref.node_outputs(ns))
                        break
        elif k == "ready":
            for key in pending.pop(e[1], []):
                produced_count[key] = produced_count.get(key, 0) + 1
            level = e[2]
            if level not in by_name:
                continue
            names = set(e[3])
            for nm in e[3]:
                ns = by_name[level].get(nm)
                if ns is None or ns["k"] == "sub":
                    continue
                for w in ns.get("wait") or []:
                    n["s2_checked"] += 1
                    co = [p for p in prods[level].get(w, []) if p in names and p != nm]
                    if co:
                        bad.append(("C17:S2-same-step", f"step of {level} contains waiter {nm} together with producer(s) {co} of '{w}'"))
    return bad, n
