"""hgmon - runtime monitors for hypergraph (see /verif/DESIGN.md).

Importing this package pins the hypergraph source tree under test:
HGMON_REPO (default /repo) is put first on sys.path so that the live working
tree (or a scratch mutant copy) is what gets executed.
"""

import os
import sys

REPO = os.path.abspath(os.environ.get("HGMON_REPO", "/repo"))
_SRC = os.path.join(REPO, "src")
if _SRC not in sys.path[:1]:
    sys.path.insert(0, _SRC)
_DEPS = os.path.join(os.path.dirname(os.path.dirname(os.path.abspath(__file__))), ".deps")
if os.path.isdir(_DEPS) and _DEPS not in sys.path:
    sys.path.append(_DEPS)
sys.dont_write_bytecode = True


def pin_repo():
    """Import hypergraph and assert it is the tree under test."""
    import hypergraph

    f = os.path.abspath(hypergraph.__file__)
    if not f.startswith(_SRC + os.sep):
        raise RuntimeError(f"hypergraph imported from {f}, expected under {_SRC}")
    return hypergraph
