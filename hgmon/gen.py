"""Seeded program generators (specs only; see build.py for the spec format)."""

from __future__ import annotations

import copy
import random


def gen_dag(
    rng: random.Random,
    *,
    name: str = "g",
    n_nodes: tuple[int, int] = (3, 9),
    n_inputs: tuple[int, int] = (1, 4),
    p_default_input: float = 0.35,
    p_default_edge: float = 0.12,
    p_multi: float = 0.18,
    p_noout: float = 0.08,
    p_gen: float = 0.06,
    p_emit: float = 0.0,
    prefix: str = "",
    input_names: list[str] | None = None,
    max_params: int = 3,
) -> dict:
    """Layered random DAG with fan-in/out, diamonds, multi-output and side-effect-only
    nodes. A default is decided once per parameter *name* so that shared parameters
    have consistent defaults (the constructor rejects anything else)."""
    ins = input_names or [f"{prefix}i{j}" for j in range(rng.randint(*n_inputs))]
    pool = list(ins)  # names that can be consumed
    default_for: dict[str, bool] = {}
    nodes = []
    n = rng.randint(*n_nodes)
    for i in range(n):
        k = rng.randint(1, min(max_params, len(pool)))
        # bias towards recent names so that chains and diamonds appear
        weights = [1 + 2 * (idx >= len(pool) - 4) for idx in range(len(pool))]
        chosen: list[str] = []
        while len(chosen) < k:
            c = rng.choices(pool, weights)[0]
            if c not in chosen:
                chosen.append(c)
        params = []
        for c in chosen:
            if c not in default_for:
                is_input = c in ins
                default_for[c] = rng.random() < (p_default_input if is_input else p_default_edge)
            p = {"n": c}
            if default_for[c]:
                p["d"] = f"def:{c}"
            params.append(p)
        if rng.random() < 0.8:
            params.sort(key=lambda q: "d" in q)  # usual positional style; else keyword-only style
        r = rng.random()
        ns = {"k": "fn", "name": f"{prefix}n{i}", "params": params}
        if r < p_noout:
            ns["outs"] = []
        elif r < p_noout + p_multi:
            ns["outs"] = [f"{prefix}v{i}a", f"{prefix}v{i}b"]
        elif r < p_noout + p_multi + p_gen:
            ns["outs"] = [f"{prefix}v{i}"]
            ns["gen"] = True
        else:
            ns["outs"] = [f"{prefix}v{i}"]
        if p_emit and rng.random() < p_emit:
            ns["emit"] = [f"{prefix}e{i}"]
        pool.extend(ns["outs"])
        nodes.append(ns)
    return {"name": name, "nodes": nodes, "bind": {}, "inputs": ins}


def consumed_inputs(spec: dict) -> list[str]:
    """Graph-level input names actually consumed by some node (declaration order)."""
    from hgmon import ref

    produced = set()
    for ns in spec["nodes"]:
        for _, e in ref.node_outputs(ns):
            produced.add(e)
    seen = []
    for ns in spec["nodes"]:
        for _, e in ref.node_inputs(ns):
            if e not in produced and e not in seen:
                seen.append(e)
    return seen


def assign_sources(rng: random.Random, spec: dict) -> tuple[dict, dict]:
    """Choose, per graph input, a non-empty combination of run-time value x binding
    (the signature default was fixed by the generator). Returns (bind, provided)
    such that every required input is satisfied."""
    from hgmon import ref

    bind, provided = {}, {}
    for name in consumed_inputs(spec):
        has_def = any(ref.has_fallback(ns, fp) for ns in spec["nodes"] for fp, ep in ref.node_inputs(ns) if ep == name)
        opts = ["r", "b", "rb"] + (["", "r", "b"] if has_def else [])
        o = rng.choice(opts)
        if "b" in o:
            bind[name] = f"bound:{name}"
        if "r" in o:
            provided[name] = f"run:{name}"
    return bind, provided


def shuffled(rng: random.Random, spec: dict) -> dict:
    s = copy.deepcopy(spec)
    rng.shuffle(s["nodes"])
    return s


def shape_of(spec: dict) -> dict:
    """Canonical structural shape (names abstracted by first-occurrence index)."""
    from hgmon import ref

    idx: dict[str, int] = {}

    def nm(x):
        if x not in idx:
            idx[x] = len(idx)
        return idx[x]

    out = []
    for ns in spec["nodes"]:
        e = {"k": ns["k"]}
        if ns["k"] == "sub":
            e["sub"] = shape_of(ns["prog"])
            e["map"] = bool(ns.get("map"))
            e["ri"] = len(ns.get("rename_in") or [])
            e["ro"] = len(ns.get("rename_out") or [])
        e["in"] = [(nm(ep), ref.has_fallback(ns, fp)) for fp, ep in ref.node_inputs(ns)]
        e["out"] = [nm(ep) for _, ep in ref.node_outputs(ns)]
        for key in ("gen", "async", "cache", "open", "multi"):
            if ns.get(key):
                e[key] = True
        if ns.get("wait"):
            e["wait"] = [nm(w) for w in ns["wait"]]
        if ns["k"] in ("ifelse", "route"):
            e["targets"] = [nm(t) for t in ref.gate_targets(ns)]
        out.append(e)
    return {"nodes": out, "bind": sorted(nm(b) for b in (spec.get("bind") or {})), "select": bool(spec.get("select")), "entry": bool(spec.get("entry"))}


# ---------------------------------------------------------------------------
# Gated acyclic programs (C03, C02, C12, C13, C16)
# ---------------------------------------------------------------------------


def gen_gated(rng: random.Random, *, name: str = "g", n_blocks: tuple[int, int] = (2, 5), deterministic: bool = True, prefix: str = "") -> dict:
    """Blocks composed in sequence: plain functions, if/else diamonds, multi-way
    single-/multi-target routes (fallback, None, END), two gates sharing a target,
    and a gate whose target is another gate.

    deterministic=True keeps the program in the sub-class where the statement fixes
    the executed set exactly: a gate is default-open only when it reads graph inputs
    only and is not itself a gate target; otherwise it is closed-by-default.
    Returns the spec with 'selectors' (int-valued graph inputs that drive gates) and
    'inputs'."""
    P = prefix
    ins = [f"{P}i{j}" for j in range(rng.randint(1, 3))]
    pool = list(ins)
    sels: list[str] = []
    nodes: list[dict] = []
    cnt = [0]

    def nid():
        cnt[0] += 1
        return cnt[0]

    def new_sel():
        s = f"{P}s{len(sels)}"
        sels.append(s)
        return s

    def pick(k=1):
        k = min(k, len(pool))
        return rng.sample(pool, k)

    def gate_key(force_input=False):
        """(key name, reads_inputs_only)"""
        if force_input or rng.random() < 0.65 or not [p for p in pool if p not in ins]:
            return new_sel(), True
        return rng.choice([p for p in pool if p not in ins]), False

    def openness(inputs_only, is_target=False):
        if deterministic and (not inputs_only or is_target):
            return False
        return rng.random() < 0.6

    def fn(nm, params, outs):
        return {"k": "fn", "name": nm, "params": [{"n": p} for p in params], "outs": outs}

    for _ in range(rng.randint(*n_blocks)):
        kind = rng.choice(["fn", "ifelse", "ifelse", "route", "route", "multi", "shared", "chain"])
        K = nid()
        if kind == "fn":
            o = f"{P}v{K}"
            nodes.append(fn(f"{P}f{K}", pick(rng.randint(1, 2)), [o]))
            pool.append(o)
        elif kind == "ifelse":
            key, io = gate_key()
            same = rng.random() < 0.6
            to_end = rng.random() < 0.25
            a, b = f"{P}g{K}t", f"{P}g{K}tt"  # one name is a prefix of the other on purpose
            ra = f"{P}r{K}" if same else f"{P}r{K}a"
            rb = f"{P}r{K}" if same else f"{P}r{K}b"
            table = [rng.random() < 0.5 for _ in range(rng.randint(2, 4))]
            if all(table) or not any(table):
                table[0] = not table[0]
            g = {"k": "ifelse", "name": f"{P}g{K}", "params": [{"n": key}], "t": a, "f": ("END" if to_end else b), "table": table, "open": openness(io)}
            nodes.append(g)
            extra = []
            r_ = rng.random()
            if r_ < 0.2:
                # the gate's ordering signal consumed by a target as a regular input: gate and
                # target are then joined by a data edge instead of a control edge
                g["emit"] = [f"{P}e{K}"]
                extra = [f"{P}e{K}"]
            nodes.append(fn(a, pick(1) + extra, [ra]))
            if r_ >= 0.2 and r_ < 0.35:
                g["emit"] = [f"{P}e{K}"]
                nodes[-1]["wait"] = [f"{P}e{K}"]
            if not to_end:
                nodes.append(fn(b, pick(1), [rb]))
            if same or to_end:
                j = f"{P}w{K}"
                nodes.append(fn(f"{P}j{K}", [ra], [j]))
                pool.extend([ra, j])
            else:
                pool.extend([ra, rb])
        elif kind == "route":
            key, io = gate_key()
            k = rng.randint(2, 3)
            tnames = [f"{P}g{K}" + "t" * (i + 1) for i in range(k)]
            same = rng.random() < 0.4
            outs = [f"{P}r{K}" if same else f"{P}r{K}{'abc'[i]}" for i in range(k)]
            options = list(tnames) + (["END"] if rng.random() < 0.5 else []) + ([None] if rng.random() < 0.5 else [])
            table = [rng.choice(options) for _ in range(rng.randint(2, 5))]
            fb = None
            if None in table and rng.random() < 0.5:
                fb = rng.choice(tnames + ["END"])
            g = {"k": "route", "name": f"{P}g{K}", "params": [{"n": key}], "targets": tnames + (["END"] if "END" in options or fb == "END" else []), "table": table, "open": openness(io)}
            if fb:
                g["fallback"] = fb
            nodes.append(g)
            for t, o in zip(tnames, outs):
                nodes.append(fn(t, pick(1), [o]))
            if same:
                j = f"{P}w{K}"
                nodes.append(fn(f"{P}j{K}", [outs[0]], [j]))
                pool.extend([outs[0], j])
            else:
                pool.extend(outs)
        elif kind == "multi":
            key, io = gate_key()
            k = rng.randint(2, 3)
            tnames = [f"{P}g{K}" + "t" * (i + 1) for i in range(k)]
            outs = [f"{P}r{K}{'abc'[i]}" for i in range(k)]
            table = []
            for _ in range(rng.randint(2, 5)):
                r = rng.random()
                if r < 0.15:
                    table.append(None)
                else:
                    table.append(sorted(rng.sample(tnames, rng.randint(0, k))))
            gtargets = list(tnames)
            if rng.random() < 0.5:
                # END may be a target of a multi-target gate and may be named NEXT TO real targets in one decision
                gtargets.append("END")
                table = [d + ["END"] if d is not None and (j % 2 == 0 or not d) else d for j, d in enumerate(table)]
            g = {"k": "route", "name": f"{P}g{K}", "params": [{"n": key}], "targets": gtargets, "multi": True, "table": table, "open": openness(io)}
            nodes.append(g)
            for t, o in zip(tnames, outs):
                nodes.append(fn(t, pick(1), [o]))
            pool.extend(outs)
        elif kind == "shared":
            k1, io1 = gate_key()
            k2, io2 = gate_key()
            T, A, B = f"{P}h{K}", f"{P}h{K}a", f"{P}h{K}b"
            for gi, (key, io, other) in enumerate([(k1, io1, A), (k2, io2, B)]):
                opts = [T, other, "END"]
                table = [rng.choice(opts) for _ in range(rng.randint(2, 4))]
                nodes.append({"k": "route", "name": f"{P}g{K}{'xy'[gi]}", "params": [{"n": key}], "targets": [T, other, "END"], "table": table, "open": openness(io)})
            nodes.append(fn(T, pick(1), [f"{P}r{K}"]))
            nodes.append(fn(A, pick(1), [f"{P}r{K}a"]))
            nodes.append(fn(B, pick(1), [f"{P}r{K}b"]))
            pool.extend([f"{P}r{K}", f"{P}r{K}a", f"{P}r{K}b"])
        else:  # chain: outer gate routes to an inner gate or to X; inner gate routes to Y or Z
            k1, io1 = gate_key()
            k2, io2 = gate_key()
            G2, X, Y, Z = f"{P}g{K}in", f"{P}c{K}x", f"{P}c{K}y", f"{P}c{K}z"
            t1 = [rng.choice([G2, X, "END"]) for _ in range(rng.randint(2, 4))]
            t2 = [rng.choice([Y, Z]) for _ in range(rng.randint(2, 3))]
            nodes.append({"k": "route", "name": f"{P}g{K}", "params": [{"n": k1}], "targets": [G2, X, "END"], "table": t1, "open": openness(io1)})
            nodes.append({"k": "route", "name": G2, "params": [{"n": k2}], "targets": [Y, Z], "table": t2, "open": openness(io2, is_target=True)})
            for nm, o in [(X, f"{P}r{K}x"), (Y, f"{P}r{K}y"), (Z, f"{P}r{K}z")]:
                nodes.append(fn(nm, pick(1), [o]))
            pool.extend([f"{P}r{K}x", f"{P}r{K}y", f"{P}r{K}z"])
    if not any(ns["k"] != "fn" for ns in nodes):
        return gen_gated(rng, name=name, n_blocks=n_blocks, deterministic=deterministic, prefix=prefix)
    return {"name": name, "nodes": nodes, "bind": {}, "inputs": ins, "selectors": sels, "deterministic": deterministic}


def gated_inputs(rng: random.Random, spec: dict) -> dict:
    d = {i: f"run:{i}" for i in spec["inputs"]}
    for s in spec["selectors"]:
        d[s] = rng.randint(0, 11)
    return d


def with_explicit_edges(spec: dict, self_edges: bool = False) -> dict:
    """Same wiring declared through Graph(edges=...): one edge per (producer, consumer)
    pair, plus a value-less edge from every gate to each of its targets (which then are
    ordering edges and take the place of the control edges)."""
    from hgmon import ref

    s = copy.deepcopy(spec)
    prod = ref.producers(s)
    edges = []
    for ns in s["nodes"]:
        me = ref.node_name(ns)
        for _, e in ref.node_inputs(ns):
            for p in prod.get(e, []):
                pair = [ref.node_name(p), me]
                if pair not in edges and (self_edges or pair[0] != pair[1]):
                    edges.append(pair)
        for w in ns.get("wait", []) if ns["k"] != "sub" else []:
            for p in prod.get(w, []):
                pair = [ref.node_name(p), me]
                if pair not in edges and pair[0] != pair[1]:
                    edges.append(pair)
    for ns in s["nodes"]:
        for t in ref.gate_targets(ns):
            pair = [ref.node_name(ns), t]
            if pair not in edges:
                edges.append(pair)
    s["edges"] = edges
    return s


def gen_wait_dag(rng, allow_int=False, p_default_edge=0.0):
    spec = gen_dag(rng, p_emit=0.45, p_default_edge=p_default_edge, p_noout=0.05, n_nodes=(3, 8))
    nodes = spec["nodes"]
    for idx, ns in enumerate(nodes):
        if idx == 0:
            continue
        earlier = nodes[:idx]
        own = {p["n"] for p in ns["params"]}
        cands = [e for x in earlier for e in x.get("emit", [])] + [o for x in earlier for o in x.get("outs", []) if o not in own]
        cands = [c for c in cands if c not in own and c not in ns.get("emit", []) and c not in ns.get("outs", [])]
        if cands and rng.random() < 0.55:
            ns["wait"] = rng.sample(cands, min(len(cands), rng.randint(1, 2)))
    # a gate that emits, waited for by a plain node
    if rng.random() < 0.35 and len(nodes) >= 3:
        t = [ns["name"] for ns in nodes[-2:]]
        key = "sg"
        spec["inputs"] = spec["inputs"] + [key]
        nodes.insert(len(nodes) - 2, {"k": "ifelse", "name": "wg", "params": [{"n": key}], "t": t[0], "f": t[1], "table": [True, False], "emit": ["wg_done"], "open": rng.random() < 0.5})
        nodes.append({"k": "fn", "name": "after_gate", "params": [{"n": "aux_g"}], "outs": ["ag"], "wait": ["wg_done"]})
    if allow_int and rng.random() < 0.4:
        # an auto-resolving interrupt as the producer of a signal
        cand = [ns for ns in nodes if ns["k"] == "fn" and len(ns.get("outs", [])) == 1 and not ns.get("gen") and ns["params"]]
        if cand:
            ns = rng.choice(cand)
            ns["k"] = "int"
            ns["handler"] = ["auto", f"answer:{ns['name']}"]
            ns.setdefault("emit", [f"ie_{ns['name']}"])
            nodes.append({"k": "fn", "name": "after_int", "params": [{"n": "aux_i"}], "outs": ["ai"], "wait": [ns["emit"][0]]})
    return spec




# ---------------------------------------------------------------------------
# Nesting transformation (C05): flat DAG -> same DAG with a convex group wrapped
# ---------------------------------------------------------------------------


def _convex_subset(rng, spec):
    from hgmon import ref

    names = [ref.node_name(ns) for ns in spec["nodes"]]
    if len(names) < 2:
        return None
    k = rng.randint(1, max(1, min(4, len(names) - 1)))
    closed = set(rng.sample(names, k))
    # gates stay with their targets, waiters with the producers of what they wait for,
    # producers of one name stay together (all of these relations are per level)
    partner: dict[str, set[str]] = {}
    for a, b, kind in ref.spec_edges(spec):
        if kind in ("control", "ordering"):
            partner.setdefault(a, set()).add(b)
            partner.setdefault(b, set()).add(a)
    for nm, lst in ref.producers(spec).items():
        if len(lst) > 1:
            grp = {ref.node_name(x) for x in lst}
            for x in grp:
                partner.setdefault(x, set()).update(grp - {x})
    while True:
        new = set(closed)
        for x in closed:
            new |= partner.get(x, set())
        new |= ref.descendants(spec, new) & ref.ancestors(spec, new)
        if new == closed:
            break
        closed = new
    if len(closed) >= len(names):
        return None
    return closed


def nest_once(rng, spec: dict, sub_name: str, *, allow_rename=True, allow_bind=True, allow_select=True) -> tuple[dict, dict] | None:
    """Wrap a convex group of nodes of ``spec`` into a nested program.

    Returns (flat', nested') - two specs that must behave identically: flat' is
    ``spec`` with the same alpha-renaming applied that the wrapper applies, so that
    names are equal, not equal modulo a map."""
    from hgmon import ref

    S = _convex_subset(rng, spec)
    if not S:
        return None
    inside = [ns for ns in spec["nodes"] if ref.node_name(ns) in S]
    outside = [ns for ns in spec["nodes"] if ref.node_name(ns) not in S]
    produced_in = {e for ns in inside for _, e in ref.node_outputs(ns)}
    produced_out = {e for ns in outside for _, e in ref.node_outputs(ns)}
    consumed_in = [e for ns in inside for _, e in ref.node_inputs(ns)]
    consumed_out = {e for ns in outside for _, e in ref.node_inputs(ns)}
    waits_out = {w for ns in outside if ns["k"] != "sub" for w in ns.get("wait", [])}
    inner_inputs = [e for e in dict.fromkeys(consumed_in) if e not in produced_in]
    private_inputs = [e for e in inner_inputs if e not in produced_out and e not in consumed_out]
    inner = {"name": sub_name, "nodes": copy.deepcopy(inside), "bind": {}}
    flat = copy.deepcopy(spec)
    nested_nodes = []
    placed = False
    sub = {"k": "sub", "name": sub_name, "prog": inner}
    for ns in spec["nodes"]:
        if ref.node_name(ns) in S:
            if not placed:
                nested_nodes.append(sub)
                placed = True
        else:
            nested_nodes.append(copy.deepcopy(ns))
    nested = {"name": spec["name"], "nodes": nested_nodes, "bind": dict(spec.get("bind") or {})}
    for key in ("inputs", "select"):
        if key in spec:
            nested[key] = copy.deepcopy(spec[key])
    info = {"S": sorted(S), "private_inputs": private_inputs, "renames": {}, "inner_bind": [], "inner_select": None}
    # inner-level binding: only on names private to the group (binding a name that outside
    # nodes also consume at the inner level is a different program)
    top_bind = nested["bind"]
    if allow_bind and private_inputs and rng.random() < 0.5:
        for e in rng.sample(private_inputs, rng.randint(1, min(2, len(private_inputs)))):
            if e in top_bind:
                # move the top-level binding inside
                inner["bind"][e] = top_bind.pop(e)
            else:
                inner["bind"][e] = f"bound:{e}"
                flat.setdefault("bind", {})[e] = f"bound:{e}"
            info["inner_bind"].append(e)
    # inner select: hide outputs nobody outside needs, keeping their producers in the cone
    if allow_select and rng.random() < 0.3:
        outs_in = [e for ns in inside for e in ref.data_output_names(ns)]
        hideable = []
        for ns in inside:
            douts = ref.data_output_names(ns)
            for e in douts:
                if e in consumed_out or e in waits_out:
                    continue
                others = [x for x in douts if x != e]
                needed_inside = any(e2 == e for n2 in inside for _, e2 in ref.node_inputs(n2))
                if others or needed_inside:
                    hideable.append(e)
        if hideable:
            hide = set(rng.sample(hideable, rng.randint(1, len(hideable))))
            sel = [e for e in outs_in if e not in hide]
            # the selection must keep every producer in its backward cone
            cone = {ref.node_name(x) for x in ref.active_scope({"name": "x", "nodes": inside}, sel)}
            if sel and cone == S:
                inner["select"] = sel
                info["inner_select"] = sel
    # wrapper renames with the same alpha-renaming on the flat side
    if allow_rename and rng.random() < 0.6:
        sigma = {}
        for e in private_inputs:
            if rng.random() < 0.5:
                sigma[e] = f"{e}_x{sub_name[-1]}"
        exposed = inner.get("select") or [e for ns in inside for _, e in ref.node_outputs(ns)]
        emits_in = {e for ns in inside for e in ns.get("emit", [])}
        for e in exposed:
            if rng.random() < 0.4 and e not in emits_in:
                sigma[e] = f"{e}_y{sub_name[-1]}"
        if sigma:
            info["renames"] = sigma
            rin = {k: v for k, v in sigma.items() if k in private_inputs}
            rout = {k: v for k, v in sigma.items() if k not in private_inputs}
            if rin:
                sub["rename_in"] = [rin]
            if rout:
                sub["rename_out"] = [rout]

            def apply_sigma(ns):
                bi = {e: sigma[e] for _, e in ref.node_inputs(ns) if e in sigma}
                bo = {e: sigma[e] for _, e in ref.node_outputs(ns) if e in sigma}
                if bi:
                    ns.setdefault("rename_in", []).append(bi)
                if bo:
                    ns.setdefault("rename_out", []).append(bo)
                if ns["k"] != "sub" and ns.get("wait"):
                    ns["wait"] = [sigma.get(w, w) for w in ns["wait"]]

            for ns in flat["nodes"]:
                apply_sigma(ns)
            for ns in nested["nodes"]:
                if ns is not sub:
                    apply_sigma(ns)
            for d in (flat.get("bind") or {}, nested["bind"]):
                for k in list(d):
                    if k in sigma:
                        d[sigma[k]] = d.pop(k)
            if nested.get("select"):
                nested["select"] = [sigma.get(x, x) for x in nested["select"]]
                flat["select"] = [sigma.get(x, x) for x in flat["select"]]
            # the inner name of a renamed, inner-bound input is free again at the outer level:
            # an unrelated outer node may use it for something else
            taken = {ref.node_name(x) for x in flat["nodes"]}
            used = {e2 for x in flat["nodes"] for _, e2 in ref.node_inputs(x)} | {e2 for x in flat["nodes"] for _, e2 in ref.node_outputs(x)}
            for e in list(sigma):
                if e in (inner.get("bind") or {}) and rng.random() < 0.6 and f"reuse_{e}_{sub_name}" not in taken and e not in used:
                    extra = {"k": "fn", "name": f"reuse_{e}_{sub_name}", "fid": f"reuse_{e}_{sub_name}", "params": [{"n": e, "d": f"def:{e}"}], "outs": [f"reuse_{e}_{sub_name}_out"]}
                    flat["nodes"].append(copy.deepcopy(extra))
                    nested["nodes"].append(copy.deepcopy(extra))
                    info.setdefault("reused_inner_names", []).append(e)
    return flat, nested, info


_NO = object()


def permute_wiring(rng: random.Random, spec: dict, p: float = 0.25) -> int:
    """Inside single function nodes, permute the node's own external input names (a swap or a 3-cycle, in
    ONE with_inputs() call or step by step through a temporary name) and swap the outputs of multi-output
    nodes. Signature defaults move along, so every external name keeps its default (the constructor demands
    consistent defaults per name). Returns the number of nodes changed."""
    changed = 0
    for ns in spec["nodes"]:
        if ns["k"] != "fn" or ns.get("rename_in") or ns.get("rename_out"):
            continue
        ps = ns.get("params", [])
        if len(ps) >= 2 and rng.random() < p:
            k = min(len(ps), rng.choice([2, 2, 3]))
            idx = rng.sample(range(len(ps)), k)
            names = [ps[i]["n"] for i in idx]
            ds = [ps[i].get("d", _NO) for i in idx]
            for j, i in enumerate(idx):
                d = ds[(j + 1) % k]
                ps[i].pop("d", None)
                if d is not _NO:
                    ps[i]["d"] = d
            if rng.random() < 0.65:
                ns["rename_in"] = [{names[j]: names[(j + 1) % k] for j in range(k)}]
            else:
                tmp = f"tmp_{ns['name']}"
                steps = [{names[k - 1]: tmp}]
                for j in range(k - 2, -1, -1):
                    steps.append({names[j]: names[j + 1]})
                steps.append({tmp: names[0]})
                ns["rename_in"] = steps
            changed += 1
        outs = ns.get("outs", [])
        if len(outs) >= 2 and rng.random() < p:
            a, b = rng.sample(outs, 2)
            ns["rename_out"] = [{a: b, b: a}]
            changed += 1
    return changed


def gen_feedback_gated(rng: random.Random) -> dict:
    """Gated programs in which a branch output feeds back into the gate that selected the branch, while that
    gate cannot decide again: it waits for a one-shot signal ('oneshot'), or it is itself the target of an outer
    gate that reads the same feedback and may re-decide against it ('under'). A decision that went stale must
    not be mistaken for 'has not decided yet'. Only the trace rules apply (no reference values)."""
    kind = rng.choice(["oneshot", "under"])
    k = rng.randint(2, 3)
    targets = ["c" + "t" * (j + 1) for j in range(k)]
    fb_from = {rng.randrange(k)}  # (two exclusive branches feeding one name back into their own gate are rejected by the constructor)
    use_ifelse = k == 2 and rng.random() < 0.4
    tl = rng.randint(2, 4)
    if use_ifelse:
        G = {"k": "ifelse", "name": "c", "params": [{"n": "x"}, {"n": "fb", "d": 0}], "key": "x", "t": targets[0], "f": targets[1], "table": [rng.random() < 0.5 for _ in range(tl)]}
    else:
        pool = targets + (["END"] if rng.random() < 0.3 else [])
        G = {"k": "route", "name": "c", "params": [{"n": "x"}, {"n": "fb", "d": 0}], "key": "x", "targets": pool, "table": [rng.choice(pool) for _ in range(tl)]}
    G["open"] = rng.random() < 0.75
    extra = [{"n": "flag"}] if kind == "under" else []
    # the targets become runnable together with their gate (oneshot: they consume the output of the node that
    # emits the signal), otherwise an early-start gate would have let all of them run before it decides
    first = {"n": "s0"} if kind == "oneshot" else {"n": "x"}
    tnodes = [{"k": "fn", "name": t, "params": [first] + extra, "outs": ["fb" if j in fb_from else f"q{j}"]} for j, t in enumerate(targets)]
    nodes = [G] + tnodes
    inputs = ["x"]
    if kind == "oneshot":
        G["wait"] = ["ready"]
        nodes.insert(0, {"k": "fn", "name": "init", "params": [{"n": "seed"}], "outs": ["s0"], "emit": ["ready"]})
        inputs.append("seed")
    else:
        ol = rng.randint(2, 4)
        if rng.random() < 0.5:
            OG = {"k": "ifelse", "name": "og", "params": [{"n": "flag"}, {"n": "fb", "d": 0}], "key": "fb", "t": "c", "f": "skip", "table": [True] + [rng.random() < 0.3 for _ in range(ol - 1)]}
        else:
            pool = ["c", "skip"] + (["END"] if rng.random() < 0.4 else [])
            OG = {"k": "route", "name": "og", "params": [{"n": "flag"}, {"n": "fb", "d": 0}], "key": "fb", "targets": pool, "table": ["c"] + [rng.choice(pool[1:] if rng.random() < 0.7 else pool) for _ in range(ol - 1)]}
        OG["open"] = rng.random() < 0.75
        nodes = [OG] + nodes + [{"k": "fn", "name": "skip", "params": [{"n": "flag"}], "outs": ["skipped"]}]
        inputs.append("flag")
    if rng.random() < 0.5:
        rng.shuffle(nodes)
    return {"name": "g", "nodes": nodes, "bind": {}, "inputs": inputs, "selectors": ["x"], "deterministic": False, "feedback": kind, "table_len": tl}


def mixed_open_gates(order: int = 0, lag: int = 2, kind: str = "route") -> dict:
    """A target (`review`) shared by a default-OPEN gate that decides in the first step and a CLOSED-by-default gate
    whose input arrives `lag` steps later.  Once the open gate has decided (selector s: 0 -> fast, 1 -> review) it no
    longer allows an early start, and the closed gate never does: while the closed gate is undecided `review` starts
    only if the open gate chose it; afterwards only if the closed gate (selector a: 0 -> review, 1 -> END) names it."""
    chain = []
    prev = "x"
    for j in range(lag):
        chain.append({"k": "fn", "name": f"stage{j}", "params": [{"n": prev}], "outs": [f"s{j}"]})
        prev = f"s{j}"
    if kind == "route":
        triage = {"k": "route", "name": "triage", "params": [{"n": "s"}], "key": "s", "targets": ["fast", "review"], "table": ["fast", "review"], "open": True}
    else:
        triage = {"k": "ifelse", "name": "triage", "params": [{"n": "s"}], "key": "s", "t": "review", "f": "fast", "table": [False, True], "open": True}
    audit = {"k": "route", "name": "audit", "params": [{"n": prev}, {"n": "a"}], "key": "a", "targets": ["review", "END"], "table": ["review", "END"], "open": False}
    fast = {"k": "fn", "name": "fast", "params": [{"n": "x"}], "outs": ["fast_out"]}
    review = {"k": "fn", "name": "review", "params": [{"n": "x"}], "outs": ["review_out"]}
    nodes = chain + [triage, audit, fast, review]
    if order == 1:
        nodes = [review, fast, audit, triage] + chain
    elif order == 2:
        nodes = [audit, review] + chain + [fast, triage]
    return {"name": "g", "nodes": nodes, "bind": {}, "inputs": ["s", "a", "x"], "selectors": ["s", "a"], "deterministic": True, "table_len": 2}


def gen_late_closed_gate(rng: random.Random) -> dict:
    """A target shared by an entry router and a closed-by-default gate that cannot run before the target itself has
    produced its output (the gate reads it): when the router selects the target, the target runs - a closed gate
    that has not decided yet does not veto what another controlling gate selected - whatever the list order."""
    k = rng.randint(2, 3)
    others = [f"u{j}" for j in range(k - 1)]
    tl = rng.randint(2, 4)
    if k == 2 and rng.random() < 0.5:
        router = {"k": "ifelse", "name": "router", "params": [{"n": "s"}], "key": "s", "t": "tgt", "f": others[0], "table": [True] + [rng.random() < 0.5 for _ in range(tl - 1)]}
    else:
        pool = ["tgt"] + others
        router = {"k": "route", "name": "router", "params": [{"n": "s"}], "key": "s", "targets": pool, "table": ["tgt"] + [rng.choice(pool) for _ in range(tl - 1)]}
    router["open"] = rng.random() < 0.5
    lg_pool = ["tgt", "END"]
    if rng.random() < 0.5:
        lg = {"k": "route", "name": "again", "params": [{"n": "t_out"}], "key": "t_out", "targets": lg_pool, "table": ["END"] * rng.randint(1, 3), "open": False}
    else:
        lg = {"k": "ifelse", "name": "again", "params": [{"n": "t_out"}], "key": "t_out", "t": "tgt", "f": "after", "table": [False] * rng.randint(1, 3), "open": False}
    nodes = [router, {"k": "fn", "name": "tgt", "params": [{"n": "x"}], "outs": ["t_out"]}]
    nodes += [{"k": "fn", "name": u, "params": [{"n": "x"}], "outs": [f"{u}_out"]} for u in others]
    nodes.append(lg)
    if lg["k"] == "ifelse":
        nodes.append({"k": "fn", "name": "after", "params": [{"n": "t_out"}], "outs": ["after_out"]})
    order = rng.choice(["closed-gate-first", "router-first", "shuffled"])
    if order == "closed-gate-first":
        nodes.remove(lg)
        nodes.insert(0, lg)
    elif order == "shuffled":
        rng.shuffle(nodes)
    return {"name": "g", "nodes": nodes, "bind": {}, "inputs": ["s", "x"], "selectors": ["s"], "deterministic": False, "table_len": tl, "late_closed": True}
