"""Seeded program generators (specs only; see build.py for the spec format)."""

from __future__ import annotations

import copy
import random


def gen_dag(
    rng: random.Random,
    *,
    name: str = "g",
    n_nodes: tuple[int, int] = (3, 9),
    n_inputs: tuple[int, int] = (1, 4),
    p_default_input: float = 0.35,
    p_default_edge: float = 0.12,
    p_multi: float = 0.18,
    p_noout: float = 0.08,
    p_gen: float = 0.06,
    p_emit: float = 0.0,
    prefix: str = "",
    input_names: list[str] | None = None,
    max_params: int = 3,
) -> dict:
    """Layered random DAG with fan-in/out, diamonds, multi-output and side-effect-only
    nodes. A default is decided once per parameter *name* so that shared parameters
    have consistent defaults (the constructor rejects anything else)."""
    ins = input_names or [f"{prefix}i{j}" for j in range(rng.randint(*n_inputs))]
    pool = list(ins)  # names that can be consumed
    default_for: dict[str, bool] = {}
    nodes = []
    n = rng.randint(*n_nodes)
    for i in range(n):
        k = rng.randint(1, min(max_params, len(pool)))
        # bias towards recent names so that chains and diamonds appear
        weights = [1 + 2 * (idx >= len(pool) - 4) for idx in range(len(pool))]
        chosen: list[str] = []
        while len(chosen) < k:
            c = rng.choices(pool, weights)[0]
            if c not in chosen:
                chosen.append(c)
        params = []
        for c in chosen:
            if c not in default_for:
                is_input = c in ins
                default_for[c] = rng.random() < (p_default_input if is_input else p_default_edge)
            p = {"n": c}
            if default_for[c]:
                p["d"] = f"def:{c}"
            params.append(p)
        if rng.random() < 0.8:
            params.sort(key=lambda q: "d" in q)  # usual positional style; else keyword-only style
        r = rng.random()
        ns = {"k": "fn", "name": f"{prefix}n{i}", "params": params}
        if r < p_noout:
            ns["outs"] = []
        elif r < p_noout + p_multi:
            ns["outs"] = [f"{prefix}v{i}a", f"{prefix}v{i}b"]
        elif r < p_noout + p_multi + p_gen:
            ns["outs"] = [f"{prefix}v{i}"]
            ns["gen"] = True
        else:
            ns["outs"] = [f"{prefix}v{i}"]
        if p_emit and rng.random() < p_emit:
            ns["emit"] = [f"{prefix}e{i}"]
        pool.extend(ns["outs"])
        nodes.append(ns)
    return {"name": name, "nodes": nodes, "bind": {}, "inputs": ins}


def consumed_inputs(spec: dict) -> list[str]:
    """Graph-level input names actually consumed by some node (declaration order)."""
    from hgmon import ref

    produced = set()
    for ns in spec["nodes"]:
        for _, e in ref.node_outputs(ns):
            produced.add(e)
    seen = []
    for ns in spec["nodes"]:
        for _, e in ref.node_inputs(ns):
            if e not in produced and e not in seen:
                seen.append(e)
    return seen


def assign_sources(rng: random.Random, spec: dict) -> tuple[dict, dict]:
    """Choose, per graph input, a non-empty combination of run-time value x binding
    (the signature default was fixed by the generator). Returns (bind, provided)
    such that every required input is satisfied."""
    from hgmon import ref

    bind, provided = {}, {}
    for name in consumed_inputs(spec):
        has_def = any(ref.has_fallback(ns, fp) for ns in spec["nodes"] for fp, ep in ref.node_inputs(ns) if ep == name)
        opts = ["r", "b", "rb"] + (["", "r", "b"] if has_def else [])
        o = rng.choice(opts)
        if "b" in o:
            bind[name] = f"bound:{name}"
        if "r" in o:
            provided[name] = f"run:{name}"
    return bind, provided


def shuffled(rng: random.Random, spec: dict) -> dict:
    s = copy.deepcopy(spec)
    rng.shuffle(s["nodes"])
    return s


def shape_of(spec: dict) -> dict:
    """Canonical structural shape (names abstracted by first-occurrence index)."""
    from hgmon import ref

    idx: dict[str, int] = {}

    def nm(x):
        if x not in idx:
            idx[x] = len(idx)
        return idx[x]

    out = []
    for ns in spec["nodes"]:
        e = {"k": ns["k"]}
        if ns["k"] == "sub":
            e["sub"] = shape_of(ns["prog"])
            e["map"] = bool(ns.get("map"))
            e["ri"] = len(ns.get("rename_in") or [])
            e["ro"] = len(ns.get("rename_out") or [])
        e["in"] = [(nm(ep), ref.has_fallback(ns, fp)) for fp, ep in ref.node_inputs(ns)]
        e["out"] = [nm(ep) for _, ep in ref.node_outputs(ns)]
        for key in ("gen", "async", "cache", "open", "multi"):
            if ns.get(key):
                e[key] = True
        if ns.get("wait"):
            e["wait"] = [nm(w) for w in ns["wait"]]
        if ns["k"] in ("ifelse", "route"):
            e["targets"] = [nm(t) for t in ref.gate_targets(ns)]
        out.append(e)
    return {"nodes": out, "bind": sorted(nm(b) for b in (spec.get("bind") or {})), "select": bool(spec.get("select")), "entry": bool(spec.get("entry"))}
