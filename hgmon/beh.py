"""Tiny behaviour language for generated node functions that need arithmetic
(loops, accumulators). Pure functions of the keyword arguments; shared by the
builder and by the sequential reference loops (they are the *user functions*,
not framework semantics)."""

from __future__ import annotations


def apply(b, kw):
    op = b[0]
    if op == "inc":
        return kw[b[1]] + 1
    if op in ("reseed", "reseed_inc"):
        # a body that re-seeds the process-global PRNG with a constant (reproducible sampling inside a node)
        import random

        random.seed(1234)
        return kw[b[1]] + 1 if op == "reseed_inc" else ("seeded", kw[b[1]])
    if op == "addc":
        return kw[b[1]] + b[2]
    if op == "append":
        return kw[b[1]] + [kw[b[2]]]
    if op == "appendc":
        return kw[b[1]] + [b[2]]
    if op == "len":
        return len(kw[b[1]])
    if op == "tuple":
        return tuple(kw[p] for p in b[1:])
    if op == "const":
        return b[1]
    if op == "inc_half":  # two outputs: (p+1, (p+1)//2)
        v = kw[b[1]] + 1
        return (v, v // 2)
    if op == "rsubc":  # constant minus argument
        return b[2] - kw[b[1]]
    if op == "mark":
        return (b[2], kw[b[1]])
    if op == "id":
        return kw[b[1]]
    if op == "sum":
        return sum(kw[p] for p in b[1:])
    if op == "gec":  # flag: argument >= constant
        return kw[b[1]] >= b[2]
    if op == "sum2":  # two outputs: (sum, sum + 1)
        v = sum(kw[p] for p in b[1:])
        return (v, v + 1)
    if op == "append_mut":  # mutates the received list, returns a snapshot of it
        kw[b[1]].append(kw[b[2]])
        return tuple(kw[b[1]])
    if op == "setitem_mut":
        kw[b[1]][kw[b[2]]] = len(kw[b[1]])
        return tuple(sorted(kw[b[1]].items()))
    if op == "nested_mut":  # mutates a list nested inside the received dict
        kw[b[1]]["items"].append(kw[b[2]])
        return tuple(kw[b[1]]["items"])
    if op == "tuple_mut":  # the argument is a tuple whose FIRST member is a list: mutate that member in place
        kw[b[1]][0].append(kw[b[2]])
        return tuple(kw[b[1]][0])
    if op == "snapshot":  # ("snapshot", p...) -> tuple of (type-aware) copies
        return tuple(tuple(kw[p]) if isinstance(kw[p], list) else kw[p] for p in b[1:])
    if op == "pair+":  # two outputs: (p+1, p*2)
        return (kw[b[1]] + 1, kw[b[1]] * 2)
    raise ValueError(op)


def cond(c, kw) -> bool:
    op = c[0]
    if op == "lt":
        return kw[c[1]] < c[2]
    if op == "lenlt":
        return len(kw[c[1]]) < c[2]
    if op == "ge":
        return kw[c[1]] >= c[2]
    if op == "gtp":  # one argument greater than another
        return kw[c[1]] > kw[c[2]]
    if op == "true":
        return True
    if op == "false":
        return False
    raise ValueError(op)
