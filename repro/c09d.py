"""C09: a DiskCache entry whose stored signature text was altered to contain a non-ASCII character makes
get() raise TypeError (hmac.compare_digest refuses non-ASCII str) instead of behaving as a miss.
exit 0 = property holds, 1 = violated."""
import sys, tempfile
from hypergraph.cache import DiskCache

d = tempfile.mkdtemp()
c = DiskCache(d)
c.set("k", {"v": 1})
sig = c._cache.get("k" + c._HMAC_SUFFIX)
c._cache.set("k" + c._HMAC_SUFFIX, "é" + sig[1:])
try:
    hit, val = c.get("k")
except Exception as e:  # noqa: BLE001
    print("VIOLATED: get() raised", repr(e)); sys.exit(1)
if hit:
    print("VIOLATED: served", val); sys.exit(1)
print("OK: miss"); sys.exit(0)
