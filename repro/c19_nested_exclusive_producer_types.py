from hypergraph import Graph, node, ifelse
from hypergraph.graph.validation import GraphConfigError
@ifelse(when_true="a", when_false="b")
def gate(x: int) -> bool: return x > 0
@node(output_name="r")
def a(x: int) -> int: return x
@node(output_name="r")
def b(x: int) -> str: return str(x)
@node(output_name="o")
def use(r: str) -> str: return r
for order in ([gate,a,b],[gate,b,a]):
    try:
        Graph(order+[use], strict_types=True); print("flat accepted")
    except GraphConfigError as e: print("flat rejected")
    inner = Graph(order, name="inner", strict_types=True)
    try:
        Graph([inner.as_node(), use], strict_types=True); print("nested accepted", inner.as_node().output_annotation if hasattr(inner.as_node(),'output_annotation') else None)
    except GraphConfigError as e: print("nested rejected")
