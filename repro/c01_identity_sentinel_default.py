"""A bare object() used as an identity sentinel default (`_MISSING = object()`): the runner deep-copied signature
defaults, so `x is _MISSING` was False although the caller left x out. Fixed by f30fac7."""
from hypergraph import Graph, SyncRunner, node

_MISSING = object()


@node(output_name="o")
def pick(x, opt=_MISSING):
    return "left out" if opt is _MISSING else "given"


r = SyncRunner().run(Graph([pick]), {"x": 1})
print(r.values)
assert r.values["o"] == "left out", r.values
