import asyncio
from hypergraph import Graph, node, SyncRunner, AsyncRunner
from hypergraph.events import EventProcessor
class P(EventProcessor):
    def __init__(self): self.ev=[]
    def on_event(self,e): self.ev.append(type(e).__name__)
class Weird(Exception):
    def __str__(self): raise RuntimeError("no str")
E=Weird()
@node(output_name="y")
def bad(x): raise E
g=Graph([bad])
for R in (SyncRunner, AsyncRunner):
    for mode in ("raise","continue"):
        p=P()
        try:
            r=R().run(g,{"x":1},error_handling=mode,event_processors=[p])
            if asyncio.iscoroutine(r): r=asyncio.run(r)
            print(R.__name__,mode,r.status, type(r.error).__name__, r.error is E, p.ev)
        except BaseException as e:
            print(R.__name__,mode,"raised",type(e).__name__, e is E, p.ev)
