"""C14: interrupt two levels below a mapped nested graph (before fix 95ed08d: COMPLETED, y=[None, None], pause=None)."""
import asyncio
from hypergraph import AsyncRunner, Graph, interrupt, node

@interrupt(output_name="y")
def ask(x): return None
@node(output_name="x")
def prep(q): return "prep:" + q
inner = Graph([ask], name="inner"); mid = Graph([prep, inner.as_node()], name="mid")
try:
    outer = Graph([mid.as_node().map_over("q")])
    print(asyncio.run(AsyncRunner().run(outer, {"q": ["a", "b"]})))
except Exception as e:
    print("rejected:", type(e).__name__, e)
