from hypergraph import Graph, node, SyncRunner, InMemoryCache, FunctionNode
def f(a): return a*2
n1 = FunctionNode(f, name="n1", output_name="p", cache=True)
n2 = FunctionNode(f, name="n2", output_name="q", cache=True)
g = Graph([n1,n2])
r = SyncRunner(cache=InMemoryCache()).run(g, {"a":3})
print(r.values)
assert r.values=={"p":6,"q":6}, r.values
def h(a,b): return (a,b)
m1 = FunctionNode(h, name="m1", output_name="u", cache=True)
m2 = FunctionNode(h, name="m2", output_name="v", cache=True).with_inputs(a="b", b="a")
g = Graph([m1,m2])
r = SyncRunner(cache=InMemoryCache()).run(g, {"a":1,"b":2})
print(r.values)
assert r.values=={"u":(1,2),"v":(2,1)}, r.values
