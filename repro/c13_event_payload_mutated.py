"""A processor that empties the list in RouteDecisionEvent.decision emptied the scheduler's own decision: the selected
branch did not run. Fixed by e165403 (the event carries a copy)."""
from hypergraph import EventProcessor, Graph, SyncRunner, node, route


class Meddler(EventProcessor):
    def on_event(self, event):
        d = getattr(event, "decision", None)
        if isinstance(d, list):
            d.clear()


@route(targets=["a", "b"], multi_target=True)
def fan(x):
    return ["a"]


@node(output_name="ra")
def a(x):
    return 1


@node(output_name="rb")
def b(x):
    return 2


g = Graph([fan, a, b])
plain = SyncRunner().run(g, {"x": 1}).values
meddled = SyncRunner().run(g, {"x": 1}, event_processors=[Meddler()]).values
print(plain, meddled)
assert plain == meddled, (plain, meddled)
