from hypergraph import Graph, node, SyncRunner
@node(output_name="a")
def A1(p=[]):
    p.append(1); return len(p)
@node(output_name="b")
def A2(a, p=[]): return (a, list(p))
print("flat  ", SyncRunner().run(Graph([A1, A2]), {}).values)
print("nested", SyncRunner().run(Graph([Graph([A1, A2], name='inner').as_node()]), {}).values)
