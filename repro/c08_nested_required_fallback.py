from hypergraph import Graph, node, SyncRunner
@node(output_name="a")
def X(p): return p
@node(output_name="y")
def Y(p): return p
@node(output_name="w")
def W(q): return q
sub = Graph([Y], name='sub').bind(p=3)
inner = Graph([X, sub.as_node()], name='inner').select('a')
print("inner", inner.inputs)
outer = Graph([inner.as_node(), W])
print("outer", outer.inputs)
try:
    print(SyncRunner().run(outer, {'q': 1}))
except Exception as e:
    print("ERR", type(e).__name__, e)
# flat equivalent
flat = Graph([X, sub.as_node(), W]).select('a','w')
print("flat", flat.inputs)
