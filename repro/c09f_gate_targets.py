from hypergraph import Graph, node, SyncRunner, InMemoryCache, IfElseNode, RouteNode, END
def is_pos(x): return x > 0
@node(output_name="a_out")
def a(x): return x+1
@node(output_name="b_out")
def b(x): return x+2
g1 = IfElseNode(is_pos, when_true="a", when_false="b", cache=True, name="g1")
g2 = IfElseNode(is_pos, when_true="b", when_false="a", cache=True, name="g2")
r = SyncRunner(cache=InMemoryCache())
print(r.run(Graph([g1, a, b]), {"x":1}).values)
print("cached:", r.run(Graph([g2, a, b]), {"x":1}).values, " uncached:", SyncRunner().run(Graph([g2, a, b]), {"x":1}).values)
# route with different target lists
def pick(x): return "a" if x>0 else "b"
r1 = RouteNode(pick, targets=["a","b"], cache=True, name="r1")
def pick2(x): return "a" if x>0 else "b"
