from hypergraph import Graph, node, SyncRunner
calls=[]
@node(output_name="x")
def P(a): calls.append("P"); return a*10
@node(output_name="y")
def f(x): calls.append("f"); return x+1
inner = Graph([f], name="inner").bind(x=1)
outer = Graph([P, inner.as_node()])
print("required", outer.inputs.required, "optional", outer.inputs.optional, "bound", outer.inputs.bound)
for inp in ({}, {"a": 5}):
    calls.clear()
    try:
        r = SyncRunner().run(outer, inp); print(inp, r.status, r.values, calls)
    except Exception as e: print(inp, type(e).__name__, str(e)[:100])
# top-level bind of an output name
g = Graph([P, f]).bind(x=1)
print("required", g.inputs.required, g.inputs.bound)
for inp in ({}, {"a": 5}):
    calls.clear()
    try:
        r = SyncRunner().run(g, inp); print(inp, r.status, r.values, calls)
    except Exception as e: print(inp, type(e).__name__, str(e)[:100])
