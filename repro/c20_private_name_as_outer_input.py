from hypergraph import Graph, node
@node(output_name="b")
def mk_b(q): return q
@node(output_name="c")
def use_b(b): return b
@node(output_name="r")
def root_use(b, c): return (b, c)
inner=Graph([mk_b,use_b],name="inner").select("c")
g=Graph([inner.as_node(), root_use])
print(g.inputs.all)
print(g.to_mermaid(depth=1))
from hypergraph.viz.renderer import render_graph
import json
flat=g.to_flat_graph()
r=render_graph(flat, depth=1)
for e in r["edges"]: print(e["source"],"->",e["target"], e.get("data",{}).get("edgeType"))
