from hypergraph import Graph, node, SyncRunner
@node(output_name="o")
def f(x, y=7): return (x,y)
inner = Graph([f], name="inner")
gn = inner.as_node().with_inputs(x="y", y="x")
print(gn.inputs, gn.has_default_for("x"), gn.has_default_for("y"))
assert gn.has_default_for("x") and not gn.has_default_for("y")
g = Graph([gn])
print(g.inputs)
assert g.inputs.required==("y",) and g.inputs.optional==("x",), g.inputs
r = SyncRunner().run(g, {"y": 1})
print(r.values); assert r.values["o"]==(1,7)
