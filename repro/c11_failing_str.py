# F-C11c: an exception whose __str__ fails must still be the object that surfaces.
from hypergraph import Graph, SyncRunner, node

class Weird(Exception):
    def __str__(self):
        raise TypeError("no str")

E = Weird()

@node(output_name="y")
def bad(x):
    raise E

try:
    SyncRunner().run(Graph([bad]), {"x": 1})
except BaseException as e:  # noqa: BLE001
    assert e is E, repr(type(e))
    print("OK")
