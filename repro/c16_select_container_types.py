# F-C16e: a select given as a set never returns a plain input.
from hypergraph import Graph, SyncRunner, node

@node(output_name="doubled")
def double(x): return x * 2

v = SyncRunner().run(Graph([double]), {"x": 5}, select={"x", "doubled"}).values
print(v)
assert "x" not in v, v
