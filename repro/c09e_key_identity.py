"""C09: the cache key must depend on the argument VALUES only. f(a=L, b=L) and f(a=[1], b=[1]) are the same
call; with the default pickler the first is encoded with a back-reference and gets another key, so the function
is invoked again although the entry is retained. exit 0 = holds, 1 = violated."""
import sys
from hypergraph import Graph, node, SyncRunner, InMemoryCache
calls = []
@node(output_name="o", cache=True)
def f(a, b):
    calls.append(1); return (tuple(a), tuple(b))
r = SyncRunner(cache=InMemoryCache())
L = [1]
r.run(Graph([f]), {"a": L, "b": L})
r.run(Graph([f]), {"a": [1], "b": [1]})
if len(calls) != 1:
    print("VIOLATED: f invoked", len(calls), "times for equal arguments"); sys.exit(1)
print("OK"); sys.exit(0)
