"""rename_inputs={'a': 'b'} on f(a, b=5) handed to a node constructor produced inputs ('b', 'b'); with_inputs() rejects
the same map. Running with {'b': 1} gave a=1, b=5 (the parameter whose external name is b got its default). Fixed by 2e3ccfb."""
from hypergraph import FunctionNode, RenameError


def f(a, b=5):
    return (a, b)


try:
    nd = FunctionNode(f, output_name="r", rename_inputs={"a": "b"})
except RenameError as e:
    print("rejected:", e)
else:
    raise SystemExit(f"accepted: inputs={nd.inputs}")
