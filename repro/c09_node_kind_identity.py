# F-C09k: the same function as cached FunctionNode and as cached InterruptNode do not share an entry.
import asyncio
from hypergraph import AsyncRunner, FunctionNode, Graph, InMemoryCache, InterruptNode

def ask(draft): return None

r = AsyncRunner(cache=InMemoryCache())
a = asyncio.run(r.run(Graph([FunctionNode(ask, name="ask", output_name="decision", cache=True)]), {"draft": 1}))
b = asyncio.run(r.run(Graph([InterruptNode(ask, name="ask", output_name="decision", cache=True)]), {"draft": 1}))
print(a.status, b.status)
assert b.status.value == "paused", b
