from hypergraph import Graph, node, ifelse, GraphConfigError

@ifelse(when_true="pa", when_false="pb")
def g(flag: bool) -> bool: return flag

@node(output_name="v")
def pa(x: int) -> int: return x

@node(output_name="v")
def pb(x: int) -> str: return str(x)

@node(output_name="out")
def use(v: int) -> int: return v

for order in ([g, pa, pb, use], [g, pb, pa, use]):
    try:
        Graph(order, strict_types=True)
        print([n.name for n in order], "ACCEPTED")
    except GraphConfigError as e:
        print([n.name for n in order], "rejected:", str(e).splitlines()[0])
