from hypergraph import Graph, node, GraphConfigError
def t(label, f):
    try: f(); print(label, "ACCEPTED")
    except GraphConfigError as e: print(label, "rejected:", str(e).splitlines()[0], "|", [l for l in str(e).splitlines() if '->' in l][:1])
@node(output_name="a", emit="done")
def p(x: int) -> int: return x
@node(output_name="b", wait_for="done")
def r(y: int) -> int: return y
t("strict emit/wait_for", lambda: Graph([p, r], strict_types=True))
@node(output_name="x")
def make() -> list[int]: return [1,2]
@node(output_name="d")
def dbl(x: int) -> int: return x*2
t("strict mapped list[int]->int", lambda: Graph([make, Graph([dbl], name="inner").as_node().map_over("x")], strict_types=True))
@node(output_name="x")
def make_int() -> int: return 1
t("strict mapped int->int (should be rejected?)", lambda: Graph([make_int, Graph([dbl], name="inner").as_node().map_over("x")], strict_types=True))
