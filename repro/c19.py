from hypergraph import Graph, node, route, GraphConfigError
@node(output_name="a")
def A(x): return x
@node(output_name="b")
def B(x): return x
@route(targets=["A","B","nope"])
def gate(x): return "A"
try:
    Graph([gate, A, B]); print("accepted!?"); raise SystemExit(1)
except GraphConfigError as e: print("ok GraphConfigError")
