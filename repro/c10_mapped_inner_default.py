from hypergraph import Graph, node, SyncRunner
@node(output_name="seen")
def rec(x: int, acc: list = []) -> list:
    acc.append(x); return list(acc)
g = Graph([rec], name="inner")
print([r.values["seen"] for r in SyncRunner().map(g, {"x":[1,2,3]}, map_over="x")])
print(SyncRunner().run(Graph([g.as_node().map_over("x")]), {"x":[1,2,3]})["seen"])
