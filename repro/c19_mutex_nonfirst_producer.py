"""C19: two producers of `r` that both run on one branch were judged mutually exclusive because branch reachability
followed only first-producer data edges (`w` is produced by t1 first, so m(w) looked exclusive to t1)."""
from hypergraph import Graph, SyncRunner, node, route

@route(targets=["t1", "t2"])
def gate(k): return k
@node(output_name="w")
def t1(k): return 1
@node(output_name=("w", "u"))
def t2(k): return 2, 3
@node(output_name="r")
def m(w): return 100 * w
@node(output_name="r")
def p(u): return 100 * u
try:
    g = Graph([gate, t1, t2, m, p])
    print("accepted;", SyncRunner().run(g, {"k": "t2"}))
except Exception as e:
    print("rejected:", type(e).__name__, str(e).splitlines()[0])
