from hypergraph import Graph, SyncRunner, node
calls=[]
@node(output_name="q")
def A0(p): return p+1
@node(output_name="a")
def A1(q): return q+99
@node(output_name="s", emit="sig")
def S(p): return p
@node(output_name="x", wait_for="sig")
def X(a=1):
    calls.append(a); return a
g=Graph([A0,A1,S,X])
r=SyncRunner().run(g,{"p":1})
print(r.values, calls)
