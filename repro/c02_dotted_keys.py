# F-C02d: a dotted key that addresses an ordinary inner input is an unknown input under BOTH runners.
import asyncio, warnings
from hypergraph import AsyncRunner, Graph, SyncRunner, node

@node(output_name="q")
def mk(z): return z

@node(output_name="w")
def use(q): return q

sub = Graph([use], name="sub")
g = Graph([mk, sub.as_node()])
with warnings.catch_warnings():
    warnings.simplefilter("ignore")
    a = SyncRunner().run(g, {"z": 1, "sub.q": 99}).values
    b = asyncio.run(AsyncRunner().run(g, {"z": 1, "sub.q": 99})).values
print(a, b)
assert a["w"] == b["w"] == 1, (a, b)
