# F-C12c: a max_concurrency that is no count >= 1 is rejected before anything is emitted.
import asyncio
from hypergraph import AsyncRunner, Graph, node
from hypergraph.events import EventProcessor

class P(EventProcessor):
    def __init__(self): self.ev, self.down = [], 0
    def on_event(self, e): self.ev.append(type(e).__name__)
    def shutdown(self): self.down += 1

@node(output_name="y")
def f(x): return x + 1

for k in (0, -1):
    p = P()
    try:
        r = asyncio.run(AsyncRunner().map(Graph([f]), {"x": [1, 2, 3]}, map_over="x", max_concurrency=k, event_processors=[p]))
        assert len(r) == 3, (k, r)
    except ValueError:
        assert p.ev == [] and p.down == 0, (k, p.ev, p.down)
print("OK")
