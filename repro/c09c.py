import tempfile, pickle, copy
from hypergraph import Graph, node, SyncRunner, DiskCache
from hypergraph.nodes.base import _EMIT_SENTINEL
assert pickle.loads(pickle.dumps(_EMIT_SENTINEL)) is _EMIT_SENTINEL and copy.deepcopy(_EMIT_SENTINEL) is _EMIT_SENTINEL
@node(output_name="y", emit="done", cache=True)
def f(x): return x+1
@node(output_name="z", wait_for="done")
def g(y): return y*2
d=tempfile.mkdtemp()
r=SyncRunner(cache=DiskCache(d)); G=Graph([f,g])
a=r.run(G,{"x":1}).values; b=r.run(G,{"x":1}).values
print(a,b); assert a==b=={"y":2,"z":4}, (a,b)
