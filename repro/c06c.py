import asyncio
from hypergraph import Graph, AsyncRunner, interrupt
@interrupt(output_name=("a","b"))
def ask(x): return {"a": ("A", x), "b": ("B", x)}
n = ask.with_outputs(a="b", b="a")   # swap
r = asyncio.run(AsyncRunner().run(Graph([n]), {"x": 1}))
print(r.values); assert r.values == {"b": ("A",1), "a": ("B",1)}, r.values
n2 = ask.with_outputs(a="c")
r = asyncio.run(AsyncRunner().run(Graph([n2]), {"x": 1}))
print(r.values); assert r.values == {"c": ("A",1), "b": ("B",1)}, r.values
