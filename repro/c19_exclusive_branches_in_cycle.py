from hypergraph import Graph, SyncRunner, node, route, END
log=[]
@node(output_name="x")
def a(x0): log.append("a"); return x0+1
@node(output_name="x")
def b(x0): log.append("b"); return x0+2
@route(targets=["a","b",END])
def gate(x): return "a" if x<3 else ("b" if x<4 else END)
g=Graph([a,b,gate])
print(SyncRunner().run(g,{"x0":1}).values, log)
