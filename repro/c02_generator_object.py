import asyncio
from hypergraph import Graph, node, SyncRunner, AsyncRunner
@node(output_name="g")
def mk(n): return (i for i in range(n))
@node(output_name="s")
def use(g): return type(g).__name__
G = Graph([mk, use])
print("sync ", SyncRunner().run(G, {"n":3}).values)
print("async", asyncio.run(AsyncRunner().run(G, {"n":3})).values)
