# F-C02c: sibling nested graphs binding the same name differently must not depend on node-list order.
from hypergraph import Graph, SyncRunner, node

@node(output_name="a")
def fa(k): return ("a", k)

@node(output_name="b")
def fb(k): return ("b", k)

ga = Graph([fa], name="ga").bind(k=1).as_node()
gb = Graph([fb], name="gb").bind(k=2).as_node()
r1 = SyncRunner().run(Graph([ga, gb]), {}).values
r2 = SyncRunner().run(Graph([gb, ga]), {}).values
print(r1, r2)
assert r1 == r2 == {"a": ("a", 1), "b": ("b", 2)}, (r1, r2)
