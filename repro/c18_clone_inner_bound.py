from hypergraph import Graph, node, SyncRunner
seen=[]
@node(output_name="o")
def f(item, cfg):
    seen.append(id(cfg)); return item
CFG={"a":[1]}
inner = Graph([f], name="inner").bind(cfg=CFG)
for clone in (False, True, ["cfg"]):
    seen.clear()
    try:
        gn = inner.as_node().map_over("item", clone=clone)
    except Exception as e:
        print(clone, "map_over rejected", type(e).__name__, e); continue
    g = Graph([gn])
    r = SyncRunner().run(g, {"item":[1,2,3]})
    print("clone=",clone, "same object each item:", all(s==id(CFG) for s in seen), r.status)
# outer-level bind with clone
@node(output_name="o")
def f2(item, cfg):
    seen.append(id(cfg)); return item
inner2 = Graph([f2], name="inner2")
for clone in (False, True):
    seen.clear()
    g = Graph([inner2.as_node().map_over("item", clone=clone)]).bind(cfg=CFG)
    r = SyncRunner().run(g, {"item":[1,2,3]})
    print("outer bind clone=",clone, "same object each item:", all(s==id(CFG) for s in seen), r.status)
# runner.map with clone and bound
for clone in (False, True):
    seen.clear()
    g = Graph([f2]).bind(cfg=CFG)
    r = SyncRunner().map(g, {"item":[1,2,3]}, map_over="item", clone=clone)
    print("runner.map bind clone=",clone, "same object each item:", all(s==id(CFG) for s in seen))
