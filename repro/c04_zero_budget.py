# F-C04b: a budget of 0 steps is not the default budget.
from hypergraph import Graph, SyncRunner, node
from hypergraph.exceptions import InfiniteLoopError
ran = []
@node(output_name="y")
def f(x):
    ran.append(1); return x
r = SyncRunner().run(Graph([f]), {"x": 1}, max_iterations=0, error_handling="continue")
print(r.status, r.error, ran)
assert not ran and isinstance(r.error, InfiniteLoopError), (r, ran)
