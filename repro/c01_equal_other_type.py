from hypergraph import Graph, node, SyncRunner
@node(output_name="a")
def prod(x): return x
@node(output_name="b")
def mid(a=1): return a
@node(output_name="c")
def last(b): return repr(b)
print(SyncRunner().run(Graph([prod, mid, last]), {"x": True}).values)
print(SyncRunner().run(Graph([prod, mid, last]), {"x": 1.0}).values)
