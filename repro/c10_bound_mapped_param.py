from hypergraph import Graph, node, SyncRunner
@node(output_name="o")
def f(x, c=0): return x*2
inner = Graph([f], name="i").bind(x=[1,2,3])
try:
    r = SyncRunner().run(Graph([inner.as_node().map_over("x")]), {})
    print(r.status, r.values)
except Exception as e:
    print("EXC", type(e).__name__, e)
