"""C16: a run-time select given as a TUPLE skipped name validation, yet was used for filtering: a plain input came back."""
from hypergraph import Graph, SyncRunner, node
@node(output_name="y")
def f(x): return x + 1
try:
    print(SyncRunner().run(Graph([f]), {"x": 1}, select=("x",)).values)
except Exception as e:
    print("rejected:", type(e).__name__, str(e).splitlines()[0])
print(SyncRunner().run(Graph([f]), {"x": 1}, select=("y",)).values)
