"""C14: an interrupt inside a nested graph (depth 2, renamed wrapper, two outputs) reports dotted response keys;
re-running with the answers under those keys must pass the interrupt. exit 0 = holds, 1 = violated."""
import asyncio, sys, warnings
from hypergraph import Graph, node, interrupt, AsyncRunner

@node(output_name="draft")
def make(x): return f"draft({x})"

@interrupt(output_name=("y", "w"))
def ask(draft): return None

@node(output_name="z")
def fin(y, w): return f"fin({y},{w})"

inner = Graph([make, ask, fin], name="inner")
mid = Graph([inner.as_node()], name="mid")
outer = Graph([mid.as_node().with_name("M")], name="outer")
r = AsyncRunner()
res = asyncio.run(r.run(outer, {"x": 1}))
p = res.pause
vals = {"x": 1}
for o, k in p.response_keys.items():
    vals[k] = "A:" + o
with warnings.catch_warnings(record=True) as w:
    warnings.simplefilter("always")
    res2 = asyncio.run(r.run(outer, vals))
if res2.pause is not None or res2.values.get("z") != "fin(A:y,A:w)" or any("internal parameters" in str(x.message) for x in w):
    print("VIOLATED:", res2.status, res2.pause, res2.values, [str(x.message)[:80] for x in w]); sys.exit(1)
print("OK", res2.values); sys.exit(0)
