import asyncio
from hypergraph import Graph, node, SyncRunner, AsyncRunner
from hypergraph.events import EventProcessor
class P(EventProcessor):
    def __init__(s): s.ev=[]; s.sd=0
    def on_event(s,e): s.ev.append(type(e).__name__)
    def shutdown(s): s.sd+=1
@node(output_name="y")
def f(x, w): return x+w
g=Graph([f])
for mk in (lambda p: SyncRunner().map(g, {"x":[1,2]}, map_over="x", event_processors=[p]), lambda p: asyncio.run(AsyncRunner().map(g, {"x":[1,2]}, map_over="x", event_processors=[p])), lambda p: SyncRunner().map(g, {"w":1}, map_over="x", event_processors=[p]), lambda p: SyncRunner().map(g, {"x":[1,2],"w":1}, map_over="x", on_missing="bogus", event_processors=[p])):
    p=P()
    try: mk(p); print("no error")
    except Exception as e: print(type(e).__name__, p.ev, "shutdowns", p.sd)
p=P(); print([r.values for r in SyncRunner().map(g, {"x":[1,2],"w":1}, map_over="x", event_processors=[p])], len(p.ev), p.sd)
