"""C11: an exception object that is falsy (defines __bool__/__len__) stayed wrapped in ExecutionError (`e.__cause__ or e`)."""
import asyncio
from hypergraph import AsyncRunner, Graph, SyncRunner, node

class Falsy(Exception):
    def __bool__(self): return False
class Empty(Exception):
    def __len__(self): return 0
for cls in (Falsy, Empty):
    err = cls("boom")
    @node(output_name="y")
    def f(x): raise err
    for name, call in (("sync", lambda: SyncRunner().run(Graph([f]), {"x": 1})), ("async", lambda: asyncio.run(AsyncRunner().run(Graph([f]), {"x": 1})))):
        try:
            call()
        except BaseException as e:
            print(cls.__name__, name, "same object" if e is err else f"DIFFERENT: {type(e).__name__}")
    r = SyncRunner().run(Graph([f]), {"x": 1}, error_handling="continue")
    print(cls.__name__, "continue:", r.status, r.error is err)
