import asyncio
from hypergraph import Graph, node, SyncRunner, AsyncRunner
@node(output_name="y")
def f(x, w): return x+w
g=Graph([f])
for label, call in (("sync", lambda: SyncRunner().map(g, {"x":[1,2]}, map_over="x", error_handling="continue")), ("async", lambda: asyncio.run(AsyncRunner().map(g, {"x":[1,2]}, map_over="x", error_handling="continue")))):
    try:
        r=call(); print(label, [(x.status.value, type(x.error).__name__) for x in r])
    except Exception as e: print(label, "RAISED", type(e).__name__)
