from hypergraph import Graph, node, SyncRunner
@node(output_name="a")
def f(x): return x+1
inner = Graph([f], name="inner")
gn = inner.as_node().with_outputs(a="b").with_outputs(b="c").with_outputs(c="b")
print(gn.outputs)
r = SyncRunner().run(Graph([gn]), {"x": 1})
print(r.values); assert r.values=={"b":2}, r.values
