import asyncio
from hypergraph import Graph, node, SyncRunner, AsyncRunner
from hypergraph.events import EventProcessor
class P(EventProcessor):
    def __init__(s): s.ev=[]; s.sd=0
    def on_event(s,e): s.ev.append(type(e).__name__)
    def shutdown(s): s.sd+=1
@node(output_name="y")
def f(x): return x
g=Graph([f])
p=P(); print(SyncRunner().map(g, {"x":[]}, map_over="x", event_processors=[p]), p.ev, "shutdowns", p.sd)
p=P(); print(asyncio.run(AsyncRunner().map(g, {"x":[]}, map_over="x", event_processors=[p])), p.ev, "shutdowns", p.sd)
p=P(); print(SyncRunner().run(Graph([g.as_node(name="inner").map_over("x")]), {"x":[]}, event_processors=[p]).values, len(p.ev), "shutdowns", p.sd)
