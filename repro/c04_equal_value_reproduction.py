"""C04 known finding: a body node fed by a value that is re-produced EQUAL in every iteration runs once, not once per
iteration. exit 0 = property holds, 1 = violated (expected on the current tree)."""
import sys
from hypergraph import Graph, node, route, END, SyncRunner
@node(output_name="count")
def inc(count): return count + 1
@node(output_name="one")
def const(count): return 1
@node(output_name="total")
def acc(total, one): return total + one
@route(targets=["inc", END])
def gate(count, limit): return "inc" if count < limit else END
r = SyncRunner().run(Graph([inc, const, acc, gate]), {"count": 0, "total": 0, "limit": 4})
print(r.values)
sys.exit(0 if r.values.get("total") in (4, 5) else 1)
