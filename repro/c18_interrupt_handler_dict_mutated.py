"""C18: the dict a multi-output interrupt handler returns was extended in place with the emit sentinel; a handler
returning the same dict object on every call then failed on its second invocation ("Extra: ['asked']")."""
import asyncio
from hypergraph import AsyncRunner, Graph, interrupt, node

ANSWER = {"a": 1, "b": 2}
@interrupt(output_name=("a", "b"), emit="asked")
def ask(x): return ANSWER
@node(output_name="s")
def use(a, b): return a + b
g = Graph([ask, use])
for i in range(2):
    try:
        r = asyncio.run(AsyncRunner().run(g, {"x": i}))
        print(i, r.status, r.values.get("s"), "handler dict now:", sorted(ANSWER))
    except Exception as e:
        print(i, "raised", type(e).__name__, str(e)[:120])
