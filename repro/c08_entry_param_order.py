# F-C08e: interchangeable entry points with their parameters in opposite order.
from hypergraph import Graph, SyncRunner, node, route

@node(output_name="l")
def left(u, v): return u + 1
@node(output_name="r")
def right(v, u): return v + 2
@node(output_name=("u", "v"))
def join(l, r): return (l + r, l + r + 1)
@route(targets=["left", "right"], multi_target=True)
def again(u): return ["left", "right"] if u < 10 else []

g = Graph([left, right, join, again])
print(g.inputs)
print(SyncRunner().run(g, {"u": 0, "v": 1}).values)
