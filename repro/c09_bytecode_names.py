# F-C09i: two exec-defined functions (no retrievable source) that differ only in a referenced name share a cache entry.
from hypergraph import FunctionNode, Graph, InMemoryCache, SyncRunner

def define(src):
    ns = {}
    exec(src, ns)
    return ns["f"]

cache = InMemoryCache()
runner = SyncRunner(cache=cache)
floor = define("import math\ndef f(x):\n    return math.floor(x)\n")
ceil = define("import math\ndef f(x):\n    return math.ceil(x)\n")
a = runner.run(Graph([FunctionNode(floor, name="n", output_name="o", cache=True)]), {"x": 1.5}).values
b = runner.run(Graph([FunctionNode(ceil, name="n", output_name="o", cache=True)]), {"x": 1.5}).values
print(a, b)
assert a == {"o": 1} and b == {"o": 2}, (a, b)
