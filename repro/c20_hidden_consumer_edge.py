from hypergraph import Graph, node
@node(output_name="a", hide=True)
def hf(x): return x
@node(output_name="r")
def g(a, y): return a
G=Graph([hf,g])
from hypergraph.viz.renderer import render_graph
r=render_graph(G.to_flat_graph(), depth=0)
print([n["id"] for n in r["nodes"]])
print([(e["source"], e["target"]) for e in r["edges"]])
print(G.to_mermaid())
