from hypergraph import Graph, node, FunctionNode
from hypergraph.graph.validation import GraphConfigError
def f(a): return (1, 2)
try:
    n = FunctionNode(f, name="f", output_name=("x", "x")); g = Graph([n]); print("dup outputs accepted", g.outputs)
except Exception as e: print("dup outputs:", type(e).__name__, str(e)[:80])
@node(output_name="r")
def a(x): return 1
@node(output_name="r")
def b(y): return 2
try:
    Graph([a, b]); print("list accepted")
except GraphConfigError as e: print("list rejected")
try:
    g = Graph(iter([a, b])); print("iterator accepted", g.outputs, list(g.nodes))
except GraphConfigError as e: print("iterator rejected")
try:
    g = Graph((x for x in [a, b])); print("generator accepted", g.outputs)
except GraphConfigError as e: print("generator rejected")
@node(output_name="y")
def inner(x): return x
@node(output_name="z")
def use(y: list[int]) -> int: return 1
try:
    Graph([Graph([inner], name="m").as_node().map_over("x"), use], strict_types=True); print("mapped unannotated accepted")
except GraphConfigError as e: print("mapped unannotated rejected:", str(e)[:60])
try:
    Graph([Graph([inner], name="m").as_node(), use], strict_types=True); print("unmapped unannotated accepted")
except GraphConfigError as e: print("unmapped unannotated rejected:", str(e)[:60])
@node(output_name="y2")
def p(x) -> int: return 1
@node(output_name="o")
def c(y2: int) -> int: return 1
try:
    Graph([p, c], edges=[(p, c, None)]); print("edge None accepted")
except Exception as e: print("edge None:", type(e).__name__, str(e)[:60])
