"""One routing function behind a cached multi-target gate and behind a cached single-target gate shared a cache entry:
the single-target graph (which raises TypeError uncached: a list is no single target) completed with the other gate's
list decision. Fixed by d50db8a."""
from hypergraph import Graph, InMemoryCache, RouteNode, SyncRunner, node


def pick(x):
    return ["a", "b"]


@node(output_name="ra")
def a(x):
    return 1


@node(output_name="rb")
def b(x):
    return 1


g1 = Graph([RouteNode(pick, targets=["a", "b"], multi_target=True, cache=True, name="pick"), a, b])
g2 = Graph([RouteNode(pick, targets=["a", "b"], cache=True, name="pick"), a, b])
r = SyncRunner(cache=InMemoryCache())
print(r.run(g1, {"x": 1}).values)
try:
    print("single-target gate served the list decision:", r.run(g2, {"x": 1}).values)
    raise SystemExit(1)
except TypeError as e:
    print("single-target gate raises as without a cache:", str(e).splitlines()[0])
