from hypergraph import Graph, node, SyncRunner
@node(output_name="o")
def f(x): return ("f",x)
@node(output_name="h")
def H(x=3): return ("H",x)
inner = Graph([f], name="inner").bind(x=5)
gn = inner.as_node().with_inputs(x="y")
g = Graph([gn, H])
print(g.inputs)
r = SyncRunner().run(g, {})
print(r.values)
assert r.values["h"]==("H",3) and r.values["o"]==("f",5), r.values
assert "x" not in g.inputs.bound, g.inputs.bound
