from hypergraph import Graph, node
from hypergraph.viz.renderer import render_graph
@node(output_name="o1")
def f(a_b, c): return 1
@node(output_name="o2")
def g(a, b_c): return 2
G = Graph([f, g], name="outer")
r = render_graph(G.to_flat_graph())
import collections
for k, nodes in r["meta"]["nodesByState"].items() if "meta" in r and "nodesByState" in r["meta"] else []:
    ids = [n["id"] for n in nodes]
    d = [i for i,c in collections.Counter(ids).items() if c>1]
    print(k, d)
print(G.to_mermaid().source)
# mermaid collision
@node(output_name="x1")
def deep(q): return 1
mid = Graph([deep], name="mid")
@node(output_name="x2")
def mid__deep(z): return 2
H = Graph([mid.as_node(), mid__deep], name="h")
print(H.to_mermaid(depth=1).source)
