"""C19 (strict mode): an outer edge into a nested graph was checked against the FIRST inner consumer of the input only;
the verdict flipped with the order of the inner node list."""
from hypergraph import Graph, node

@node(output_name="o1")
def i1(x: int) -> int: return x
@node(output_name="o2")
def i2(x: str) -> str: return x
@node(output_name="x")
def prod() -> str: return "s"
for order in ([i1, i2], [i2, i1]):
    inner = Graph(order, name="inner")
    try:
        Graph([prod, inner.as_node()], strict_types=True)
        print([n.name for n in order], "accepted")
    except Exception as e:
        print([n.name for n in order], "rejected:", str(e).splitlines()[0])
