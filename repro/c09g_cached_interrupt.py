import asyncio
from hypergraph import Graph, node, interrupt, AsyncRunner, InMemoryCache
@interrupt(output_name="decision", cache=True)
def ask(draft): return None
@node(output_name="out")
def fin(decision): return f"fin({decision})"
g = Graph([ask, fin])
r = AsyncRunner(cache=InMemoryCache())
r1 = asyncio.run(r.run(g, {"draft":"d"})); print(1, r1.status)
r2 = asyncio.run(r.run(g, {"draft":"d", "decision":"yes"})); print(2, r2.status, r2.values)
r3 = asyncio.run(r.run(g, {"draft":"d"})); print(3, r3.status, r3.values, " uncached:", asyncio.run(AsyncRunner().run(g, {"draft":"d"})).status)
