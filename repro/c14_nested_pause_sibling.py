import asyncio
from hypergraph import Graph, node, interrupt, AsyncRunner
@node(output_name="s")
def sib(q): return q+1
@interrupt(output_name="y")
def ask(q): return None
inner = Graph([ask], name="inner")
g = Graph([sib, inner.as_node()])
r = asyncio.run(AsyncRunner().run(g, {"q": 1}))
print(r.status, r.values)
g2 = Graph([sib, ask])
r = asyncio.run(AsyncRunner().run(g2, {"q": 1}))
print(r.status, r.values)
