from hypergraph import Graph, node, SyncRunner
@node(output_name="a", emit="a_done")
def first(x): return x+1
@node(output_name="b")
def second(a, a_done): return (a, a_done)      # the signal consumed as a regular input
g = Graph([first, second]).with_entrypoint("second")
print(g.inputs)
r = SyncRunner().run(g, {"a": 1, "a_done": "from-caller"})
print(r.values); assert "a_done" not in r.values, r.values
