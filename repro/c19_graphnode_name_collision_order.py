"""A nested-graph node `foo` next to another node that outputs `foo` (exclusive branches): rejected when the other node
is listed before the nested graph... and accepted the other way round (only the LAST producer of a name was looked at).
Fixed by 053370a."""
from hypergraph import Graph, GraphConfigError, ifelse, node


@node(output_name="foo")
def mk(k):
    return k


@node(output_name="foo")
def other(k):
    return k


@ifelse(when_true="foo", when_false="other")
def gate(k):
    return True


gn = Graph([mk], name="foo").as_node()
for order in ([gate, gn, other], [gate, other, gn]):
    try:
        Graph(order)
        print([n.name for n in order], "accepted")
    except GraphConfigError as e:
        print([n.name for n in order], "rejected:", str(e).splitlines()[0])
