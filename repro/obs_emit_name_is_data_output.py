from hypergraph import Graph, SyncRunner, node, ifelse
@node(output_name="v")
def a(x): return x+1
@node(output_name="w", emit="v")
def b(x): return x+2
@ifelse(when_true="a", when_false="b")
def pick(x): return x > 10
got=[]
@node(output_name="out")
def c(v):
    got.append(v); return repr(v)
g=Graph([pick,a,b,c])
for x in (20, 1):
    r=SyncRunner().run(g,{"x":x})
    print(x, r.values, got)
