from hypergraph import Graph, node, GraphConfigError

@node(output_name="v")
def mk(x: int) -> int: return x

@node(output_name="out")
def use_int(w: int) -> int: return w

@node(output_name="out")
def use_str(w: str) -> str: return w

inner = Graph([mk], name="inner")
gn = inner.as_node().with_outputs(v="w")
for consumer in (use_int, use_str):
    try:
        Graph([gn, consumer], strict_types=True); print(consumer.name, "ACCEPTED")
    except GraphConfigError as e:
        print(consumer.name, "rejected:", str(e).splitlines()[0])
# unrenamed
gn0 = inner.as_node()
@node(output_name="out")
def use_v_str(v: str) -> str: return v
@node(output_name="out")
def use_v_int(v: int) -> int: return v
for consumer in (use_v_int, use_v_str):
    try:
        Graph([gn0, consumer], strict_types=True); print(consumer.name, "ACCEPTED")
    except GraphConfigError as e:
        print(consumer.name, "rejected:", str(e).splitlines()[0])
# illegal output names through GraphNode
for bad in ("not an id", "class", "a.b"):
    try:
        g = Graph([inner.as_node().with_outputs(v=bad)]); print(repr(bad), "ACCEPTED", g.outputs)
    except Exception as e:
        print(repr(bad), type(e).__name__, str(e).splitlines()[0])
@node(output_name="v")
def fn(x): return x
for bad in ("not an id", "class", "a.b"):
    try:
        g = Graph([fn.with_outputs(v=bad)]); print("fn", repr(bad), "ACCEPTED", g.outputs)
    except Exception as e:
        print("fn", repr(bad), type(e).__name__, str(e).splitlines()[0])
