from hypergraph import Graph, node, route, END, SyncRunner
@node(output_name="count", emit="done")
def step(count): return count+1
@route(targets=["step", END], wait_for="done")
def gate(count): return "step" if count < 5 else END
g = Graph([step, gate])
print(g.inputs)
r = SyncRunner().run(g, {"count":0})
print(r.values)
assert r.values["count"]==5, r.values
