"""C15: an async interrupt handler took no permit: with max_concurrency=1 it ran while an async node body was open."""
import asyncio
from hypergraph import AsyncRunner, Graph, interrupt, node

open_now, peak = [], [0]
async def body(tag):
    open_now.append(tag); peak[0] = max(peak[0], len(open_now))
    for _ in range(5): await asyncio.sleep(0)
    open_now.remove(tag)
@node(output_name="w")
async def work(x): await body("work"); return x
@interrupt(output_name="ans")
async def ask(x): await body("handler"); return "yes"
g = Graph([work, Graph([ask], name="asker").as_node()])
r = asyncio.run(AsyncRunner().run(g, {"x": 1}, max_concurrency=1))
print(r.status, "peak open bodies:", peak[0], "(limit 1)")
