import asyncio
from hypergraph import Graph, AsyncRunner, node, interrupt
@node(output_name="draft")
def make_draft(x): return f"d{x}"
@interrupt(output_name="decision")
def approval(draft): return None
@node(output_name="final")
def finalize(decision): return decision
inner=Graph([make_draft, approval], name="review")
outer=Graph([inner.as_node(), finalize])
r=asyncio.run(AsyncRunner().run(outer,{"x":1}))
print("nested:", r.status, r.values, r.pause)
flat=Graph([make_draft, approval, finalize])
r=asyncio.run(AsyncRunner().run(flat,{"x":1}))
print("flat:", r.status, r.values)
