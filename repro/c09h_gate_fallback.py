from hypergraph import Graph, node, SyncRunner, InMemoryCache, RouteNode
def decide(x): return None
@node(output_name="ra")
def a(x): return "A"
@node(output_name="rb")
def b(x): return "B"
r1 = RouteNode(decide, targets=["a","b"], fallback="a", cache=True, name="r1")
r2 = RouteNode(decide, targets=["a","b"], fallback="b", cache=True, name="r2")
run = SyncRunner(cache=InMemoryCache())
print(run.run(Graph([r1,a,b]), {"x":1}).values, run.run(Graph([r2,a,b]), {"x":1}).values, "uncached:", SyncRunner().run(Graph([r2,a,b]), {"x":1}).values)
