import warnings
from hypergraph import Graph, node, SyncRunner
@node(output_name="y", emit="done")
def a2(x): return x+1
@node(output_name="z", wait_for="done")
def b2(y): return y*2
g = Graph([a2, b2])
r = SyncRunner()
print("full select done:", r.run(g, {"x":1}, select=["done","z"]).values)
ge = g.with_entrypoint("b2")
print("entry required:", ge.inputs.required)
with warnings.catch_warnings(record=True) as w:
    warnings.simplefilter("always")
    print("entry select done:", r.run(ge, {"y":1,"done":7}, select=["done","z"]).values)
    print("entry no select:", r.run(ge, {"y":1,"done":7}).values)
    for pol in ("warn","error"):
        try:
            print(pol, r.run(g, {"x":1}, select=["done","z"], on_missing=pol).values, [str(x.message)[:50] for x in w][-1:])
        except Exception as e: print(pol, "EXC", e)
try:
    print(g.select("done").selected)
except Exception as e: print("select(done) rejected:", type(e).__name__, str(e)[:80])
