from hypergraph import Graph, node, ifelse, SyncRunner
@ifelse(when_true="big", when_false="small")
def chk(x): return x>1
@node(output_name="b")
def big(x): return x*10
@node(output_name="s")
def small(x): return -x
inner = Graph([chk,big,small], name="inner")
@node(output_name="o")
def out(b,s): return (b,s)
g = Graph([inner.as_node().map_over("x"), out])
r = SyncRunner().run(g, {"x":[0,1,2,3]})
print(r.values)
assert r.values["b"]==[None,None,20,30] and r.values["s"]==[0,-1,None,None], r.values
