from hypergraph import Graph, node, SyncRunner
@node(output_name="r", emit="inner_done")
def p(x): return x+1
@node(output_name="o", wait_for="inner_done")
def w(y): return y*10
sub = Graph([p], name="sub")
g = Graph([sub.as_node(), w])
print("outputs of wrapper:", sub.as_node().outputs)
print(SyncRunner().run(g, {"x":1, "y":2}).values)
# mapped
g2 = Graph([sub.as_node().map_over("x"), w])
print(SyncRunner().run(g2, {"x":[1,2], "y":2}).values)
