import asyncio
from hypergraph import AsyncRunner, Graph, node, interrupt
from hypergraph.events import EventProcessor
class P(EventProcessor):
    def __init__(self): self.ev=[]; self.down=0
    def on_event(self, e): self.ev.append((type(e).__name__, getattr(e,'node_name',None) or getattr(e,'graph_name',None), getattr(e,'status',None)))
    def shutdown(self): self.down+=1
@node(output_name="b")
def boom(x): raise RuntimeError("boom")
@interrupt(output_name="decision")
def approval(x): return None
inner = Graph([approval], name="inner")
for order in ("boom-first","inner-first"):
    nodes=[boom, inner.as_node()] if order=="boom-first" else [inner.as_node(), boom]
    for mode in ("continue","raise"):
        p=P()
        try:
            r=asyncio.run(AsyncRunner().run(Graph(nodes,name="outer"), {"x":1}, error_handling=mode, event_processors=[p]))
            print(order, mode, r.status, repr(r.error), r.pause)
        except Exception as e:
            print(order, mode, "raised", repr(e))
        for e in p.ev: print("   ", e)
        print("   shutdown", p.down)
