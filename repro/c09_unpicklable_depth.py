# F-C09j: a cached node returning a value nested deeper than pickle can follow completes like the uncached run.
import tempfile
from hypergraph import DiskCache, FunctionNode, Graph, SyncRunner

def make(n):
    v = []
    for _ in range(n):
        v = [v]
    return v

def ok(v): return True

g = Graph([FunctionNode(make, name="make", output_name="v", cache=True), FunctionNode(ok, name="ok", output_name="d")])
r = SyncRunner(cache=DiskCache(tempfile.mkdtemp())).run(g, {"n": 20000}, select=["d"], error_handling="continue")
print(r.status, r.error)
assert r.status.value == "completed", r
